//! C09 — URL normalisation: implementation side of the correspondence.
//!
//! case: {"u": hex(url), "u2": hex(second url), "kind": hint for the statistics,
//!        "cfg": {"ic","im","pm","ihc","ihd","amh": bool, "mk": [hex(marketing param)...]},
//!        "target": hex, "host": hex|null, "headers": [[hex(name), hex(value)]...]}
//! obs:  {"r1","r2": PathAndQueryWithSkipped of Request::from_config(u / u2) as {pq,m,sk,o} (hex),
//!        "rule": hex of the static string of Rule(u).into_route(cfg).path_and_query(),
//!        "m11","m12": Router(rule(u)).match_request(req(u) / req(u2)) non-empty,
//!        "loc": Location produced for req(u2) by the action of rule(u) (hex) or null when no match,
//!        "tgt": Action::get_target for the same, "wf": WFurl(cfg,u) recomputed with the real crates,
//!        "rb": rebuild_with_config(cfg, req(u) + host + headers) as {pq,m,sk,o,v2,host,headers},
//!        "ext": direct observations of the external functions on u:
//!               {"parse": [[k,v]...] form_urlencoded::parse(u), "pq": null | [path, query|null] of
//!                u.parse::<PathAndQuery>(), "bsq": Request::build_sorted_query(u) | null,
//!                "simple": utf8_percent_encode(u, CONTROLS)}}
//! Oracles evaluated on the implementation alone (`.fail`): self-match inside WFurl, order independence
//! (sig duplicate-key-order when a decoded key is repeated), marketing parameters ignored and forwarded
//! iff configured, ASCII case independence under the flag, separation, rebuild idempotence.
use http::uri::PathAndQuery;
use percent_encoding::{utf8_percent_encode, CONTROLS};
use redirectionio::action::Action;
use redirectionio::api::Rule;
use redirectionio::http::{sanitize_url, Header, PathAndQueryWithSkipped, Request};
use redirectionio::marker::StaticOrDynamic;
use redirectionio::router::{IntoRoute, Router};
use redirectionio::RouterConfig;
use rio_harness::*;
use serde_json::{json, Value};
use std::collections::{BTreeMap, HashSet};

// ---------------------------------------------------------------------------------------------
// generator

const PATH_ATOMS: &[&str] = &[
    "a", "b", "A", "B", "ab", "x", "Z", "0", "9", "/", "/", "/", "-", "_", ".", "~", "é", "%c3%a9", "%C3%A9", "%41", "%61", "%2F", "%2f", " ", "\"", "<", ">", "`",
    "{", "}", "|", "\\", "^", "[", "]", "+", "%", "%zz", "%4", "%4g", "\t", "\u{7f}", "*", "!", "$", "'", "(", ")", ",", ";", ":", "@", "=", "&", "ü", "日本", "😀", "%20", "%2B", "%25", "%23", "%3F",
    // non-ASCII letters with case (Rust's to_lowercase is Unicode; the case flag only ever sees their escapes)
    "É", "Ж", "ж", "İ", "ǅ", "ẞ", "ß", "Σ", "σ",
];

const KEY_ATOMS: &[&str] = &[
    "a", "b", "c", "A", "B", "ab", "a%62", "a+b", "a%20b", "a b", "é", "%C3%A9", "%c3%a9", "", "utm_source", "utm_medium", "UTM_source", "utm_term", "utm_campaign", "utm_content",
    "gclid", "k%26", "k%3D", "k%3d", "%ff", "%", "%4", "%zz", "a#b", "a?b", "[x]", "a\"b", "<k>", "a+", "%2B", "%2b", "%25", "%2541", "%00", "a`b", "k", "K", "日本", "😀", "%E9", "%e9%80", "%F0%9F%98%80", "%f0%9f",
    "%ed%a0%80", "%c0%af", "%e0%80%af", "a%", "%%41", "a{b}", "a|b", "a\\b", "a^b", "a~b", "a'b", "a*b", "1", "10", "2", "\t", "\u{7f}", "%7F", "%0a", "+", "%20", " ",
    "É", "Ж", "ж", "İ", "ǅ", "ẞ", "ß", "Σ", "ς", "%C3%89", "%c3%89",
];

fn pick_str(rng: &mut Prng, atoms: &[&str], max_atoms: usize) -> String {
    let n = rng.below(max_atoms + 1);
    let mut s = String::new();
    for _ in 0..n {
        s.push_str(*rng.pick(atoms));
    }
    s
}

fn gen_path(rng: &mut Prng) -> String {
    match rng.below(40) {
        0 => String::new(),
        1 => "*".to_string(),
        2 => pick_str(rng, PATH_ATOMS, 4), // may not start with '/'
        _ => {
            let mut s = "/".to_string();
            // mostly harmless segments, sometimes anything
            let n = rng.below(5);
            for _ in 0..n {
                if rng.chance(3, 4) {
                    s.push_str(*rng.pick(&["a", "b", "A", "B", "ab", "x", "/", "é", "%41", " ", "%c3%a9", "+", "%", "-", "0"]));
                } else {
                    s.push_str(*rng.pick(PATH_ATOMS));
                }
            }
            s
        }
    }
}

fn gen_key(rng: &mut Prng) -> String {
    if rng.chance(3, 5) {
        rng.pick(&["a", "b", "c", "A", "ab", "k", "utm_source", "utm_medium", "é", "a%62", "a+b", "a b", "1", "10", "2", ""]).to_string()
    } else if rng.chance(4, 5) {
        rng.pick(KEY_ATOMS).to_string()
    } else {
        pick_str(rng, KEY_ATOMS, 3)
    }
}

fn gen_param(rng: &mut Prng) -> String {
    let k = gen_key(rng);
    match rng.below(12) {
        0 => k,
        1 => format!("{k}="),
        2 => format!("={}", gen_key(rng)),
        3 => "=".to_string(),
        4 => format!("{k}={}={}", gen_key(rng), gen_key(rng)),
        5 => format!("{k}=="),
        _ => format!("{k}={}", gen_key(rng)),
    }
}

fn join_params(rng: &mut Prng, params: &[String], messy: bool) -> String {
    let mut s = String::new();
    if messy && rng.chance(1, 6) {
        s.push('&');
    }
    for (i, p) in params.iter().enumerate() {
        if i > 0 {
            s.push('&');
            if messy && rng.chance(1, 8) {
                s.push('&');
            }
        }
        s.push_str(p);
    }
    if messy && rng.chance(1, 6) {
        s.push('&');
    }
    s
}

fn swap_case(s: &str, rng: &mut Prng, all: bool) -> String {
    s.chars()
        .map(|c| {
            if c.is_ascii_alphabetic() && (all || rng.chance(1, 2)) {
                if c.is_ascii_lowercase() {
                    c.to_ascii_uppercase()
                } else {
                    c.to_ascii_lowercase()
                }
            } else {
                c
            }
        })
        .collect()
}

const MARKETING_POOL: &[&str] = &["utm_source", "utm_medium", "utm_campaign", "utm_term", "utm_content", "gclid", "a", "k", "é", "", "a b", "UTM_source", "a+b", "k&", "%41"];

fn gen_cfg(rng: &mut Prng, flags: Option<usize>) -> Value {
    let f = flags.unwrap_or_else(|| rng.below(64));
    let mk: Vec<String> = match rng.below(6) {
        0 => vec![],
        1 | 2 | 3 => vec!["utm_source", "utm_medium", "utm_campaign", "utm_term", "utm_content"].into_iter().map(String::from).collect(),
        _ => {
            let n = rng.range(1, 4);
            let mut v: Vec<String> = Vec::new();
            for _ in 0..n {
                let s = rng.pick(MARKETING_POOL).to_string();
                if !v.contains(&s) {
                    v.push(s);
                }
            }
            v
        }
    };
    json!({"ic": f & 1 != 0, "im": f & 2 != 0, "pm": f & 4 != 0, "ihc": f & 8 != 0, "ihd": f & 16 != 0, "amh": f & 32 != 0,
           "mk": mk.iter().map(|s| hex(s.as_bytes())).collect::<Vec<_>>()})
}

fn gen_case(rng: &mut Prng, flags: Option<usize>) -> Value {
    let cfg = gen_cfg(rng, flags);
    let mk: Vec<String> = cfg["mk"].as_array().unwrap().iter().map(|h| String::from_utf8(unhex(h.as_str().unwrap()).unwrap()).unwrap()).collect();
    let path = gen_path(rng);
    let np = match rng.below(10) {
        0 => 0,
        1 | 2 => 1,
        3 | 4 | 5 => 2,
        6 | 7 => 3,
        8 => 4,
        _ => rng.range(0, 6),
    };
    let has_query = np > 0 || rng.chance(1, 4);
    let mut params: Vec<String> = (0..np).map(|_| gen_param(rng)).collect();
    // well-behaved variant: distinct plain keys (keeps a good share of the cases inside every hypothesis)
    let plain = rng.chance(1, 3);
    if plain {
        let keys = ["a", "b", "c", "d", "A", "ab", "é", "a+b", "k%20", "x%41"];
        let mut used: Vec<usize> = Vec::new();
        params = (0..np)
            .map(|_| {
                let mut i = rng.below(keys.len());
                while used.contains(&i) {
                    i = (i + 1) % keys.len();
                }
                used.push(i);
                let v = rng.pick(&["1", "", "v", "V", "a b", "a+b", "é", "%41", "x=y", "%2B", "\"q\"", "<", "%e9", "%C3%A9"]).to_string();
                if v.is_empty() && rng.chance(1, 2) {
                    keys[i].to_string()
                } else {
                    format!("{}={}", keys[i], v)
                }
            })
            .collect();
    }
    let messy = !plain && rng.chance(1, 3);
    let frag = if rng.chance(1, 25) { "#frag" } else { "" };
    let mk_url = |rng: &mut Prng, path: &str, params: &[String], has_query: bool, messy: bool| -> String {
        let mut u = path.to_string();
        if has_query {
            u.push('?');
            u.push_str(&join_params(rng, params, messy));
        }
        u.push_str(frag);
        u
    };
    let u = mk_url(rng, &path, &params, has_query, messy);
    let kind = *rng.pick(&["same", "perm", "perm", "perm", "mkt", "mkt", "case", "case", "diff", "diff", "rand"]);
    let u2 = match kind {
        "same" => u.clone(),
        "perm" => {
            let mut p2 = params.clone();
            for i in (1..p2.len()).rev() {
                let j = rng.below(i + 1);
                p2.swap(i, j);
            }
            mk_url(rng, &path, &p2, has_query, messy)
        }
        "mkt" => {
            let mut p2 = params.clone();
            let n = rng.range(1, 3);
            for _ in 0..n {
                let k = if mk.is_empty() || rng.chance(1, 10) { "utm_source".to_string() } else { rng.pick(&mk).to_string() };
                // the key as it would be written in a URL
                let kenc: String = utf8_percent_encode(&k, percent_encoding::NON_ALPHANUMERIC).to_string();
                let kraw = if rng.chance(1, 2) { k.replace('&', "%26").replace('=', "%3D").replace('+', "%2B").replace('%', "%25").replace('#', "%23") } else { kenc };
                let v = rng.pick(&["1", "", "google", "a b", "x%26y", "é", "a+b"]).to_string();
                let piece = if v.is_empty() && rng.chance(1, 2) { kraw } else { format!("{kraw}={v}") };
                let pos = rng.below(p2.len() + 1);
                p2.insert(pos, piece);
            }
            mk_url(rng, &path, &p2, true, false)
        }
        "case" => {
            let all = rng.chance(1, 2);
            swap_case(&u, rng, all)
        }
        "diff" => {
            let mut path2 = path.clone();
            let mut p2 = params.clone();
            match rng.below(6) {
                0 => path2.push_str(*rng.pick(&["a", "/", "%41", "é", " "])),
                1 => {
                    if !p2.is_empty() {
                        let i = rng.below(p2.len());
                        p2.remove(i);
                    } else {
                        p2.push("z=1".to_string());
                    }
                }
                2 => p2.push(gen_param(rng)),
                3 => {
                    if !p2.is_empty() {
                        let i = rng.below(p2.len());
                        p2[i].push_str(*rng.pick(&["x", "=1", "%20", "+", "%41"]));
                    } else {
                        path2.push('x');
                    }
                }
                4 => {
                    if !p2.is_empty() {
                        let i = rng.below(p2.len());
                        p2[i] = gen_param(rng);
                    } else {
                        p2.push(gen_param(rng));
                    }
                }
                _ => {
                    path2 = gen_path(rng);
                }
            }
            let hq = has_query || !p2.is_empty();
            mk_url(rng, &path2, &p2, hq, messy)
        }
        _ => {
            let path2 = gen_path(rng);
            let n2 = rng.below(3);
            let p2: Vec<String> = (0..n2).map(|_| gen_param(rng)).collect();
            mk_url(rng, &path2, &p2, n2 > 0, false)
        }
    };
    let target = *rng.pick(&["/t", "/t?x=1", "https://example.org/new", "/t?", ""]);
    let host = match rng.below(3) {
        0 => Value::Null,
        1 => json!(hex(b"Example.ORG")),
        _ => json!(hex(b"example.org")),
    };
    let headers: Vec<Value> = (0..rng.below(3)).map(|_| json!([hex(rng.pick(&["X-A", "x-b", "Accept"]).as_bytes()), hex(rng.pick(&["Va", "vb", "TEXT/html", ""]).as_bytes())])).collect();
    // a second configuration for the rebuild: the same | marketing parameters KEPT | one flag flipped | unrelated
    let cfg2 = match rng.below(6) {
        0 => Value::Null,
        1 => cfg.clone(),
        2 => {
            let mut c2 = cfg.clone();
            c2["im"] = json!(false);
            c2
        }
        3 | 4 => {
            let mut c2 = cfg.clone();
            let k = *rng.pick(&["ic", "im", "pm", "ihc", "ihd", "amh"]);
            let cur = c2[k].as_bool().unwrap_or(false);
            c2[k] = json!(!cur);
            c2
        }
        _ => gen_cfg(rng, None),
    };
    json!({"u": hex(u.as_bytes()), "u2": hex(u2.as_bytes()), "kind": kind, "cfg": cfg, "cfg2": cfg2, "target": hex(target.as_bytes()), "host": host, "headers": headers})
}

/// Diff-directed search: cases built from the numbers and strings of the changed source lines (`VERIF_HINTS`).
fn gen_hinted(rng: &mut Prng, emit: &mut dyn FnMut(Value)) {
    let h = hints();
    if h.is_empty() {
        return;
    }
    let mkd: Vec<String> = ["utm_source", "utm_medium", "utm_campaign", "utm_term", "utm_content"].iter().map(|s| hex(s.as_bytes())).collect();
    let cfgs: Vec<Value> = (0..8usize).map(|f| json!({"ic": f & 1 != 0, "im": f & 2 != 0, "pm": f & 4 != 0, "ihc": f & 1 != 0, "ihd": false, "amh": true, "mk": mkd})).collect();
    let mut push = |u: String, u2: String, kind: &str, extra: Option<(Value, Option<String>, Option<String>)>, cfgs: &Vec<Value>, emit: &mut dyn FnMut(Value)| {
        for (i, cfg) in cfgs.iter().enumerate() {
            if u.len() > 2000 && i % 4 != 2 {
                continue; // long URLs: two configurations are enough
            }
            let mut c = json!({"u": hex(u.as_bytes()), "u2": hex(u2.as_bytes()), "kind": kind, "cfg": cfg, "target": hex(b"/t"), "host": null, "headers": []});
            // the rebuild (request restored without path_and_query_v2) runs under a configuration with the marketing flag flipped
            let mut c2 = cfg.clone();
            c2["im"] = json!(!cfg["im"].as_bool().unwrap_or(false));
            c["cfg2"] = c2;
            if let Some((markers, rhost, host)) = &extra {
                c["markers"] = markers.clone();
                if let Some(rh) = rhost {
                    c["rhost"] = json!(rh);
                }
                if let Some(hh) = host {
                    c["host"] = json!(hex(hh.as_bytes()));
                }
            }
            emit(c);
        }
    };
    // sizes: total URL length, path length, query length, parameter-name length, value length, numbers of parameters
    for n in h.sizes(70_000) {
        let a = |k: usize| "a".repeat(k);
        push(format!("/{}", a(n.saturating_sub(1))), format!("/{}", a(n.saturating_sub(1))), "hint-size", None, &cfgs, emit); // URL = n bytes
        push(format!("/{}?b=1&a=2", a(n.saturating_sub(1))), format!("/{}?a=2&b=1", a(n.saturating_sub(1))), "hint-size", None, &cfgs, emit); // path = n
        push(format!("/p?{}", a(n)), format!("/p?{}", a(n)), "hint-size", None, &cfgs, emit); // query = n
        push(format!("/p?{}=1&b=2", a(n)), format!("/p?b=2&{}=1", a(n)), "hint-size", None, &cfgs, emit); // name = n
        push(format!("/p?k={}&b=2", a(n)), format!("/p?b=2&k={}", a(n)), "hint-size", None, &cfgs, emit); // value = n
        push(format!("/p?k={}", "%20".repeat(n)), format!("/p?k={}", "+".repeat(n)), "hint-size", None, &cfgs, emit); // n escapes
        if n <= 3000 {
            let ps: Vec<String> = (0..n).map(|i| format!("k{i}=v{i}")).collect();
            let mut rev = ps.clone();
            rev.reverse();
            push(format!("/p?{}", ps.join("&")), format!("/p?{}", rev.join("&")), "hint-size", None, &cfgs, emit); // n parameters
            let ms: Vec<String> = (0..n).map(|i| format!("utm_source=s{i}")).collect();
            push("/p?a=1".to_string(), format!("/p?a=1&{}", ms.join("&")), "hint-size", None, &cfgs, emit); // n marketing parameters
        }
    }
    // strings: raw, percent-encoded (both hex cases), upper / lower-cased; in paths, names, values, marketing names,
    // hosts, declared-marker names
    for st in &h.strs {
        if st.is_empty() || st.len() > 200 {
            continue;
        }
        let enc_up: String = st.bytes().map(|b| format!("%{:02X}", b)).collect();
        let enc_lo: String = st.bytes().map(|b| format!("%{:02x}", b)).collect();
        let mut variants: Vec<String> = vec![st.clone(), st.to_uppercase(), st.to_lowercase(), enc_up.clone(), enc_lo.clone()];
        variants.dedup();
        for v in &variants {
            // a raw '?', '#' or '&' changes the structure of the URL, which is fine: the model follows
            push(format!("/x{v}y?b=1&a=2"), format!("/x{v}y?a=2&b=1"), "hint-str", None, &cfgs, emit);
            push(format!("/p?{v}=1&b=2"), format!("/p?b=2&{v}=1"), "hint-str", None, &cfgs, emit);
            push(format!("/p?k={v}&b=2"), format!("/p?b=2&k={v}"), "hint-str", None, &cfgs, emit);
            push(format!("/p?k{v}=1&k{v}=2"), format!("/p?k{v}=2&k{v}=1"), "hint-str", None, &cfgs, emit);
            push(format!("/p?a=1"), format!("/p?a=1&{v}=m"), "hint-str", None, &cfgs, emit);
        }
        // as a marketing parameter name
        for f in [2usize, 6, 7] {
            let cfg = json!({"ic": f & 1 != 0, "im": true, "pm": f & 4 != 0, "ihc": false, "ihd": false, "amh": true, "mk": [hex(st.as_bytes()), hex(b"utm_source")]});
            for v in [&enc_up, &enc_lo, st] {
                emit(json!({"u": hex(b"/p?a=1"), "u2": hex(format!("/p?a=1&{v}=x").as_bytes()), "kind": "hint-str", "cfg": cfg, "target": hex(b"/t?q"), "host": null, "headers": []}));
            }
        }
        // as a declared (unused) marker name, as a host, as a host-marker regex input
        let ident: String = st.chars().filter(|c| c.is_ascii_alphanumeric()).collect();
        let name = if ident.is_empty() { "m".to_string() } else { ident };
        push("/Path/X?Q=1".to_string(), "/Path/X?Q=1".to_string(), "hint-str", Some((json!([[name, "[a-z]+"]]), None, Some(format!("h{}", rng.below(9))))), &cfgs, emit);
        push("/Path/X?Q=1".to_string(), "/Path/X?Q=1".to_string(), "hint-str", Some((json!([["m1", "[a-z]+"]]), Some("@m1.example.org".to_string()), Some("abc.example.org".to_string()))), &cfgs, emit);
    }
}

fn gen(args: &Args, emit: &mut dyn FnMut(Value)) {
    let mut rng = Prng::new(args.seed);
    // pinned shapes (the D12 / D13 inputs and friends), under a few configurations
    let pins: &[(&str, &str)] = &[
        ("/a?b=1&a=2", "/a?b=1&a=2"),
        ("/a?b=1&a=2", "/a?a=2&b=1"),
        ("/a?k=1&k=2", "/a?k=2&k=1"),
        ("/a?x=a+b", "/a?x=a%20b"),
        ("/a?x=%2B", "/a?x=+"),
        ("/a?=&a", "/a?a&="),
        ("/a", "/a?utm_source=x"),
        ("/A?B=1&a=2", "/a?b=1&A=2"),
        ("?a=1", "/?a=1"),
        ("/a`b?x=1&a=2", "/a`b?a=2&x=1"),
        ("/caf%c3%a9?x=%c3%a9", "/caf%C3%A9?x=é"),
        // the four classes on which the rule built from u does not match the request for u (known findings self-match-*)
        ("/a?=&a", "/a?=&a"),
        ("?a", "?a"),
        ("/`?b&a", "/`?b&a"),
        ("/a?utm_source", "/a?utm_source"),
        ("/a?b=1&utm_medium=x", "/a?b=1"),
        // non-ASCII letters with case: never folded in paths and queries (they are escaped before the flag applies)
        ("/É/Ж?İ=ǅ&ẞ=Σ", "/é/ж?i̇=ǆ&ß=σ"),
        ("/É", "/é"),
    ];
    for (a, b) in pins {
        for f in [0usize, 1, 2, 6, 7] {
            let mkd: Vec<String> = ["utm_source", "utm_medium", "utm_campaign", "utm_term", "utm_content"].iter().map(|s| hex(s.as_bytes())).collect();
            let cfg = json!({"ic": f & 1 != 0, "im": f & 2 != 0, "pm": f & 4 != 0, "ihc": false, "ihd": false, "amh": true, "mk": mkd});
            emit(json!({"u": hex(a.as_bytes()), "u2": hex(b.as_bytes()), "kind": "pin", "cfg": cfg, "target": hex(b"/t"), "host": null, "headers": []}));
        }
    }
    let mkd: Vec<String> = ["utm_source", "utm_medium", "utm_campaign", "utm_term", "utm_content"].iter().map(|s| hex(s.as_bytes())).collect();
    // hint-directed cases first (empty on the unchanged tree)
    gen_hinted(&mut rng, emit);
    // boundary family (4): URL rules that DECLARE markers which do not occur in the path / query (or only in the host),
    // x the two case flags x upper-case letters in the literal path / query / host: self-match must still hold
    {
        let urls = ["/Shop/Item?Ref=AbC&b=1", "/a", "/UPPER/path", "/mixed/Case?Q=Z", "/p?utm_source=X&Key=Val", "/%C3%A9/X?y=%2B"];
        let marker_sets: [&[(&str, &str)]; 4] = [&[("m1", "[a-z]+")], &[("m1", "[a-z]+"), ("other", "[0-9]+")], &[("Shop", "[A-Za-z]+")], &[("x", ".+?")]];
        for (ui, u) in urls.iter().enumerate() {
            for (mi, ms) in marker_sets.iter().enumerate() {
                for f in 0..4usize {
                    let ic = f & 1 != 0;
                    let ihc = f & 2 != 0;
                    let cfg = json!({"ic": ic, "im": (ui + mi) % 2 == 0, "pm": true, "ihc": ihc, "ihd": false, "amh": true, "mk": mkd});
                    let markers: Vec<Value> = ms.iter().map(|(n, r)| json!([n, r])).collect();
                    // (a) no host; the probe is the same URL with its ASCII case swapped when the flag allows it
                    let u2 = if ic { u.to_ascii_uppercase().replace("%C3%A9", "%C3%A9") } else { u.to_string() };
                    emit(json!({"u": hex(u.as_bytes()), "u2": hex(u2.as_bytes()), "kind": "declared-markers", "cfg": cfg, "target": hex(b"/t"), "host": null, "headers": [], "markers": markers}));
                    // (b) the marker occurs only in the rule's HOST; the request host matches it (upper-case iff hosts are
                    //     compared case-insensitively), plus a port / trailing-dot probe on a host-less rule
                    let rh = format!("@{}.Example.org", ms[0].0).to_lowercase();
                    let qhost = if ihc { "ABC.Example.ORG" } else { "abc.example.org" };
                    if ms[0].1 == "[a-z]+" {
                        emit(json!({"u": hex(u.as_bytes()), "u2": hex(u.as_bytes()), "kind": "declared-markers-host", "cfg": cfg, "target": hex(b"/t"), "host": hex(qhost.as_bytes()), "headers": [], "markers": markers, "rhost": rh}));
                    }
                    let probe_host = ["example.org.", "example.org:8080", "EXAMPLE.org.:443"][(ui + mi + f) % 3];
                    emit(json!({"u": hex(u.as_bytes()), "u2": hex(u.as_bytes()), "kind": "host-probe", "cfg": cfg, "target": hex(b"/t"), "host": hex(probe_host.as_bytes()), "headers": [], "markers": markers}));
                }
            }
        }
    }
    // boundary family (5): percent-encoded octets in parameter NAMES (both hex cases), '+', ';' as a would-be separator
    {
        let names = ["%2B", "%2b", "%25", "%26", "%3D", "%3d", "%20", "+", "a%2Bb", "a%2bb", "%25x", "n%26m", "k%3Dv", "a%20b", "a+b", "a;b", "%3B", "%3b", "%2Bk%2B", "%41", "%61", "%C3%A9", "%c3%a9"];
        for (i, n) in names.iter().enumerate() {
            for f in [0usize, 1, 2, 3, 6, 7] {
                let cfg = json!({"ic": f & 1 != 0, "im": f & 2 != 0, "pm": f & 4 != 0, "ihc": false, "ihd": false, "amh": true, "mk": mkd});
                let u = format!("/p?{n}=1&z=2");
                let u2 = match i % 4 {
                    0 => format!("/p?z=2&{n}=1"),
                    1 => format!("/p?{n}=1&z=2&utm_source=s"),
                    2 => u.clone(),
                    _ => format!("/p?{}=1&z=2", if n.contains("%2B") { n.replace("%2B", "%2b") } else if n.contains("%2b") { n.replace("%2b", "%2B") } else { n.to_string() }),
                };
                emit(json!({"u": hex(u.as_bytes()), "u2": hex(u2.as_bytes()), "kind": "encoded-name", "cfg": cfg, "target": hex(b"/t?x=1"), "host": null, "headers": []}));
                // ';' is NOT a separator for form_urlencoded::parse
                let u3 = format!("/p?{n}=1;z=2&y=3");
                emit(json!({"u": hex(u3.as_bytes()), "u2": hex(format!("/p?y=3&{n}=1;z=2").as_bytes()), "kind": "encoded-name", "cfg": cfg, "target": hex(b"/t"), "host": null, "headers": []}));
            }
        }
    }
    // boundary family (6): NON-ASCII letters with case (É, Ж, İ -> i + combining dot, ǅ title-case, ẞ -> ß, final sigma)
    // under the three ignore-case flags: (a) in paths / names / values — never folded, the case flag only sees their
    // escapes (model and implementation compared); (b) in rule and request HOSTS and (c) in header values — Unicode
    // to_lowercase, implementation-only oracles (the driver abstains)
    {
        let words = ["É", "Ж", "İ", "ǅ", "ẞ", "Σ", "ÀÉÎ", "Жук", "İstanbul", "STRAẞE", "ΟΔΟΣ", "ǅungla"];
        for w in words.iter() {
            let lo = w.to_lowercase();
            let up = w.to_uppercase();
            let esc_up: String = w.bytes().map(|b| format!("%{:02X}", b)).collect();
            let esc_lo: String = w.bytes().map(|b| format!("%{:02x}", b)).collect();
            for f in 0..4usize {
                let cfg = json!({"ic": f & 1 != 0, "im": f & 2 != 0, "pm": true, "ihc": false, "ihd": false, "amh": true, "mk": mkd});
                let u = format!("/{w}/X?{w}=1&k={w}");
                for u2 in [u.clone(), u.to_lowercase(), u.to_uppercase(), format!("/{w}/x?{w}=1&K={w}"), format!("/{w}/X?k={w}&{w}=1")] {
                    emit(json!({"u": hex(u.as_bytes()), "u2": hex(u2.as_bytes()), "kind": "unicode-case", "cfg": cfg, "target": hex(b"/t"), "host": null, "headers": []}));
                }
                emit(json!({"u": hex(format!("/{esc_up}?{esc_lo}=1").as_bytes()), "u2": hex(format!("/{esc_lo}?{esc_up}=1").as_bytes()), "kind": "unicode-case", "cfg": cfg, "target": hex(b"/t"), "host": null, "headers": []}));
                emit(json!({"u": hex(format!("/{esc_up}?{w}=1").as_bytes()), "u2": hex(format!("/{w}?{esc_up}=1").as_bytes()), "kind": "unicode-case", "cfg": cfg, "target": hex(b"/t"), "host": null, "headers": []}));
            }
            for f in 0..4usize {
                let cfg = json!({"ic": false, "im": true, "pm": true, "ihc": f & 1 != 0, "ihd": false, "amh": f & 2 != 0, "mk": mkd});
                let rh = format!("{w}.Example.org");
                for qh in [rh.clone(), rh.to_lowercase(), rh.to_uppercase(), format!("{w}.EXAMPLE.ORG"), format!("{lo}.example.org"), format!("{up}.example.org"), "other.example.org".to_string()] {
                    emit(json!({"u": hex(b"/p?b=1&a=2"), "u2": hex(b"/p?a=2&b=1"), "kind": "unicode-host", "cfg": cfg, "target": hex(b"/t"), "host": hex(qh.as_bytes()), "headers": [], "rhost": rh}));
                }
                // a host-less rule, a non-ASCII request host (lower-cased by from_config iff the flag)
                emit(json!({"u": hex(b"/p?b=1&a=2"), "u2": hex(b"/p?a=2&b=1"), "kind": "unicode-host", "cfg": cfg, "target": hex(b"/t"), "host": hex(rh.as_bytes()), "headers": []}));
                // a rule host and no request host
                emit(json!({"u": hex(b"/p"), "u2": hex(b"/p"), "kind": "unicode-host", "cfg": cfg, "target": hex(b"/t"), "host": null, "headers": [], "rhost": rh}));
            }
            for ihd in [false, true] {
                let cfg = json!({"ic": false, "im": true, "pm": true, "ihc": false, "ihd": ihd, "amh": true, "mk": mkd});
                let headers = json!([[hex(b"X-A"), hex(w.as_bytes())], [hex(b"x-b"), hex(up.as_bytes())], [hex(b"Accept"), hex(format!("{lo}/TEXT").as_bytes())]]);
                emit(json!({"u": hex(b"/p?b=1&a=2"), "u2": hex(b"/p?a=2&b=1"), "kind": "unicode-header", "cfg": cfg, "target": hex(b"/t"), "host": hex(b"Example.ORG"), "headers": headers}));
            }
        }
        // ASCII hosts too: a rule with a host is matched case-insensitively iff ignore_host_case
        for f in 0..4usize {
            let cfg = json!({"ic": false, "im": true, "pm": true, "ihc": f & 1 != 0, "ihd": false, "amh": f & 2 != 0, "mk": mkd});
            for (rh, qh) in [("Example.org", "example.ORG"), ("example.org", "example.org"), ("example.org", "example.org."), ("example.org", "example.org:80"), ("EXAMPLE.ORG", "example.org")] {
                emit(json!({"u": hex(b"/P?b=1"), "u2": hex(b"/P?b=1"), "kind": "ascii-host", "cfg": cfg, "target": hex(b"/t"), "host": hex(qh.as_bytes()), "headers": [], "rhost": rh}));
            }
        }
    }
    // boundary family (7): rebuild of requests restored WITHOUT path_and_query_v2, whose URL was changed by the first
    // normalisation (marketing parameters stripped, parameters sorted, escapes rewritten, lower-cased), under every pair
    // of (ic, im, pm) combinations: same configuration, marketing kept, each flag flipped
    {
        let urls = [
            ("/a?b=1", "/a?utm_source=x&b=1"),
            ("/a?b=1&a=2", "/a?b=1&a=2&utm_medium=m%20x&utm_source=s"),
            ("/A?B=1", "/A?B=1&utm_source=X"),
            ("/a", "/a?utm_source=x"),
            ("/a b?q=%41", "/a b?q=%41&z=+&utm_term=t+t"),
            ("/p?y=2&x=1", "/p?y=2&x=1"),
        ];
        for (u, u2) in urls {
            for f in 0..8usize {
                for g in 0..8usize {
                    let cfg = json!({"ic": f & 1 != 0, "im": f & 2 != 0, "pm": f & 4 != 0, "ihc": false, "ihd": false, "amh": true, "mk": mkd});
                    let cfg2 = json!({"ic": g & 1 != 0, "im": g & 2 != 0, "pm": g & 4 != 0, "ihc": true, "ihd": true, "amh": true, "mk": mkd});
                    emit(json!({"u": hex(u.as_bytes()), "u2": hex(u2.as_bytes()), "kind": "rebuild", "cfg": cfg, "cfg2": cfg2, "target": hex(b"/t?q=1"), "host": hex(b"Example.ORG"), "headers": [[hex(b"X-A"), hex(b"Va")]]}));
                }
            }
        }
    }
    if args.tier == "thorough" {
        // two URLs longer than http::uri::MAX_LEN (one by a hair), one just inside
        for extra in [65533usize, 65534, 65535, 70000] {
            let u = format!("/{}", "a".repeat(extra - 1));
            let cfg = gen_cfg(&mut rng, Some(2));
            emit(json!({"u": hex(u.as_bytes()), "u2": hex(format!("{u}?b=1&a=2").as_bytes()), "kind": "long", "cfg": cfg, "target": hex(b"/t"), "host": null, "headers": []}));
        }
        // exhaustive small scope: every URL of length <= 4 over a 12-symbol alphabet (delimiters, both cases of a
        // letter, '%' and hex digits, '+', space, the back-quote PathAndQuery rejects), u2 = u, under the 8 combinations
        // of the three flags the normalisation reads, marketing set {"a"}
        let alpha = ["/", "?", "&", "=", "a", "A", "%", "4", "1", "+", " ", "`"];
        let mut level: Vec<String> = vec![String::new()];
        let mut all: Vec<String> = Vec::new();
        for _ in 0..4 {
            let mut next = Vec::new();
            for w in &level {
                for a in alpha {
                    next.push(format!("{w}{a}"));
                }
            }
            all.extend(next.iter().cloned());
            level = next;
        }
        for u in &all {
            for f in 0..8usize {
                let cfg = json!({"ic": f & 1 != 0, "im": f & 2 != 0, "pm": f & 4 != 0, "ihc": false, "ihd": false, "amh": true, "mk": [hex(b"a")]});
                emit(json!({"u": hex(u.as_bytes()), "u2": hex(u.as_bytes()), "kind": "exh", "cfg": cfg, "target": hex(b"/t"), "host": null, "headers": [], "exh": true}));
            }
        }
        // every flag combination on every generated URL shape: n/64 URLs x 64
        let per = (args.n / 64).max(1);
        for _ in 0..per {
            let st = rng.fork();
            for f in 0..64 {
                // the same URL and marketing-set choices under each of the 64 flag combinations
                let mut r = st.clone();
                let mut c = gen_case(&mut r, Some(f));
                c["allflags"] = json!(true);
                emit(c);
            }
        }
    } else {
        for _ in 0..args.n {
            emit(gen_case(&mut rng, None));
        }
    }
}

// ---------------------------------------------------------------------------------------------
// implementation side

fn hs(v: &Value, k: &str) -> Option<String> {
    let h = v.get(k)?.as_str()?;
    String::from_utf8(unhex(h)?).ok()
}

fn pqs_json(p: &PathAndQueryWithSkipped) -> Value {
    json!({"pq": hex(p.path_and_query.as_bytes()),
           "m": p.path_and_query_matching.as_ref().map(|s| hex(s.as_bytes())),
           "sk": p.skipped_query_params.as_ref().map(|s| hex(s.as_bytes())),
           "o": hex(p.original.as_bytes())})
}

fn split_q(u: &str) -> (&str, Option<&str>) {
    match u.find('?') {
        None => (u, None),
        Some(i) => (&u[..i], Some(&u[i + 1..])),
    }
}

fn params_of(u: &str) -> Vec<(String, String)> {
    match split_q(u).1 {
        None => vec![],
        Some(q) => url::form_urlencoded::parse(q.as_bytes()).into_owned().collect(),
    }
}

fn pieces(u: &str) -> Vec<&str> {
    match split_q(u).1 {
        None => vec![],
        Some(q) => q.split('&').filter(|s| !s.is_empty()).collect(),
    }
}

fn piece_key(p: &str) -> String {
    url::form_urlencoded::parse(p.as_bytes()).into_owned().next().map(|kv| kv.0).unwrap_or_default()
}

fn run(case: &Value) -> Obs {
    let (u, u2) = match (hs(case, "u"), hs(case, "u2")) {
        (Some(a), Some(b)) => (a, b),
        _ => return Obs::invalid("u/u2 not hex of utf-8"),
    };
    let c = match case.get("cfg") {
        Some(c) => c,
        None => return Obs::invalid("cfg"),
    };
    let flag = |k: &str| c.get(k).and_then(|b| b.as_bool());
    let (ic, im, pm, ihc, ihd, amh) = match (flag("ic"), flag("im"), flag("pm"), flag("ihc"), flag("ihd"), flag("amh")) {
        (Some(a), Some(b), Some(cc), Some(d), Some(e), Some(f)) => (a, b, cc, d, e, f),
        _ => return Obs::invalid("cfg flags"),
    };
    let mut mk: HashSet<String> = HashSet::new();
    match c.get("mk").and_then(|m| m.as_array()) {
        Some(a) => {
            for h in a {
                match h.as_str().and_then(unhex).and_then(|b| String::from_utf8(b).ok()) {
                    Some(s) => {
                        mk.insert(s);
                    }
                    None => return Obs::invalid("mk"),
                }
            }
        }
        None => return Obs::invalid("mk"),
    }
    let target = match hs(case, "target") {
        Some(t) => t,
        None => return Obs::invalid("target"),
    };
    let host: Option<String> = match case.get("host") {
        None | Some(Value::Null) => None,
        Some(_) => match hs(case, "host") {
            Some(h) => Some(h),
            None => return Obs::invalid("host"),
        },
    };
    let mut headers: Vec<(String, String)> = Vec::new();
    if let Some(a) = case.get("headers").and_then(|h| h.as_array()) {
        for h in a {
            let n = h.get(0).and_then(|x| x.as_str()).and_then(unhex).and_then(|b| String::from_utf8(b).ok());
            let v = h.get(1).and_then(|x| x.as_str()).and_then(unhex).and_then(|b| String::from_utf8(b).ok());
            match (n, v) {
                (Some(n), Some(v)) => headers.push((n, v)),
                _ => return Obs::invalid("headers"),
            }
        }
    }
    // Implementation-only cases (the driver abstains, by the same rule): the model lower-cases ASCII only, which is exact
    // for paths and queries (theorem lowercased_text_ascii) but not for HOSTS and HEADER VALUES, where Rust's Unicode
    // to_lowercase sees the raw text; and the model has no host matcher, so a rule with a marker-free host is judged by
    // the oracles below only.
    let rhost: Option<String> = case.get("rhost").and_then(|h| h.as_str()).map(|h| h.to_string());
    let rhost_static = rhost.as_ref().map(|h| !h.contains('@')).unwrap_or(false);
    let impl_only = rhost_static
        || (ihc && host.as_deref().map(|h| !h.is_ascii()).unwrap_or(false))
        || (ihd && headers.iter().any(|(_, v)| !v.is_ascii()));
    let config = RouterConfig {
        ignore_host_case: ihc,
        ignore_header_case: ihd,
        ignore_path_and_query_case: ic,
        ignore_marketing_query_params: im,
        marketing_query_params: mk.clone(),
        pass_marketing_query_params_to_target: pm,
        always_match_any_host: amh,
    };

    // requests
    let req1 = Request::from_config(&config, u.clone(), host.clone(), Some("https".to_string()), None, None, None);
    let req2 = Request::from_config(&config, u2.clone(), host.clone(), Some("https".to_string()), None, None, None);

    // the rule whose source is the literal path and query of u
    let (rpath, rquery) = split_q(&u);
    // optional: markers DECLARED by the rule (they need not occur in the path / query: the path then stays a static
    // string, lower-cased iff the flag) and a rule host (possibly holding a marker)
    let mut markers_json: Vec<Value> = Vec::new();
    if let Some(a) = case.get("markers").and_then(|m| m.as_array()) {
        for m in a {
            match (m.get(0).and_then(|x| x.as_str()), m.get(1).and_then(|x| x.as_str())) {
                (Some(n), Some(r)) => markers_json.push(json!({"name": n, "regex": r})),
                _ => return Obs::invalid("markers"),
            }
        }
    }
    let rule_json = json!({"id": "r", "rank": 0, "source": {"path": rpath, "query": rquery, "host": rhost}, "markers": markers_json, "target": target, "status_code": 302});
    let rule: Rule = match serde_json::from_value(rule_json) {
        Ok(r) => r,
        Err(e) => return Obs::invalid(&format!("rule json: {e}")),
    };
    let route = rule.clone().into_route(&config);
    let rule_static = match route.path_and_query() {
        StaticOrDynamic::Static(s) => json!(hex(s.as_bytes())),
        StaticOrDynamic::Dynamic(_) => json!({"dynamic": true}),
    };
    let mut router: Router<Rule> = Router::from_config(config.clone());
    router.insert(rule);
    let m11 = !router.match_request(&req1).is_empty();
    let routes2 = router.match_request(&req2);
    let m12 = !routes2.is_empty();
    let (loc, tgt) = if m12 {
        let tgt = Action::get_target(&routes2[0], &req2);
        let mut action = Action::from_routes_rule(routes2.clone(), &req2, None);
        let out = action.filter_headers(Vec::new(), 200, false, None);
        let loc = out.iter().find(|h| h.name == "Location").map(|h| hex(h.value.as_bytes()));
        (json!(loc), json!(tgt.map(|t| hex(t.as_bytes()))))
    } else {
        (Value::Null, Value::Null)
    };

    // WFurl recomputed with the real crates
    let san = sanitize_url(&u);
    let accepted = san.parse::<PathAndQuery>().is_ok();
    let params1: Vec<(String, String)> = params_of(&u);
    let map1: BTreeMap<String, String> = params1.iter().cloned().collect();
    let wf = accepted
        && !rpath.is_empty()
        && !(im && map1.keys().any(|k| mk.contains(k)))
        && !(map1.get("").map(|v| v.is_empty()).unwrap_or(false) && map1.len() >= 2);

    // rebuild
    let mut req_h = req1.clone();
    for (n, v) in &headers {
        req_h.add_header(n.clone(), v.clone(), false);
    }
    let rb1 = Request::rebuild_with_config(&config, &req_h);
    let rb2 = Request::rebuild_with_config(&config, &rb1);
    let rb_json = {
        let mut j = pqs_json(&rb1.path_and_query_skipped);
        j["v2"] = json!(rb1.path_and_query.as_ref().map(|s| hex(s.as_bytes())));
        j["host"] = json!(rb1.host.as_ref().map(|s| hex(s.as_bytes())));
        j["headers"] = json!(rb1.headers.iter().map(|h| json!([hex(h.name.as_bytes()), hex(h.value.as_bytes())])).collect::<Vec<_>>());
        j
    };

    // external functions observed directly on u
    let ext = json!({
        "parse": url::form_urlencoded::parse(u.as_bytes()).map(|(k, v)| json!([hex(k.as_bytes()), hex(v.as_bytes())])).collect::<Vec<_>>(),
        "pq": match u.parse::<PathAndQuery>() { Ok(p) => json!([hex(p.path().as_bytes()), p.query().map(|q| hex(q.as_bytes()))]), Err(_) => Value::Null },
        "bsq": Request::build_sorted_query(&u).map(|s| hex(s.as_bytes())),
        "simple": hex(utf8_percent_encode(&u, CONTROLS).to_string().as_bytes()),
    });

    // ---- rebuild of a request restored from JSON WITHOUT `path_and_query_v2` (older shape: the field is None), under the
    // same configuration and under a second one (`cfg2`; absent = the same): the rebuild must start from
    // `path_and_query_skipped.original`, so nothing of the first normalisation (stripped marketing parameters, sorting,
    // lower-casing) leaks into the second
    let cfg2v = case.get("cfg2").filter(|v| !v.is_null()).unwrap_or(c);
    let flag2 = |k: &str| cfg2v.get(k).and_then(|b| b.as_bool());
    let (ic2, im2, pm2, ihc2, ihd2, amh2) = match (flag2("ic"), flag2("im"), flag2("pm"), flag2("ihc"), flag2("ihd"), flag2("amh")) {
        (Some(a), Some(b), Some(cc), Some(d), Some(e), Some(f)) => (a, b, cc, d, e, f),
        _ => return Obs::invalid("cfg2 flags"),
    };
    let mut mk2: HashSet<String> = HashSet::new();
    match cfg2v.get("mk").and_then(|m| m.as_array()) {
        Some(a) => {
            for h in a {
                match h.as_str().and_then(unhex).and_then(|b| String::from_utf8(b).ok()) {
                    Some(st) => {
                        mk2.insert(st);
                    }
                    None => return Obs::invalid("cfg2 mk"),
                }
            }
        }
        None => return Obs::invalid("cfg2 mk"),
    }
    let config2 = RouterConfig {
        ignore_host_case: ihc2,
        ignore_header_case: ihd2,
        ignore_path_and_query_case: ic2,
        ignore_marketing_query_params: im2,
        marketing_query_params: mk2.clone(),
        pass_marketing_query_params_to_target: pm2,
        always_match_any_host: amh2,
    };
    let mut req_a = req2.clone();
    for (n, v) in &headers {
        req_a.add_header(n.clone(), v.clone(), false);
    }
    let req_nov2: Request = {
        let mut j = serde_json::to_value(&req_a).unwrap_or(Value::Null);
        if let Some(o) = j.as_object_mut() {
            o.remove("path_and_query_v2");
        }
        match serde_json::from_value(j) {
            Ok(r) => r,
            Err(e) => return Obs::new(json!({"restore": format!("{e}")})).fail("a serialised request without path_and_query_v2 cannot be restored", "rebuild"),
        }
    };
    let req_json = |r: &Request| {
        let mut j = pqs_json(&r.path_and_query_skipped);
        j["v2"] = json!(r.path_and_query.as_ref().map(|x| hex(x.as_bytes())));
        j["host"] = json!(r.host.as_ref().map(|x| hex(x.as_bytes())));
        j["headers"] = json!(r.headers.iter().map(|h| json!([hex(h.name.as_bytes()), hex(h.value.as_bytes())])).collect::<Vec<_>>());
        j
    };
    let rbn_same = Request::rebuild_with_config(&config, &req_nov2);
    let rbn_other = Request::rebuild_with_config(&config2, &req_nov2);
    let rbv_other = Request::rebuild_with_config(&config2, &req_a);
    // the rule of u under the second configuration, matched against the rebuilt request
    let rule2: Rule = match serde_json::from_value(json!({"id": "r", "rank": 0, "source": {"path": rpath, "query": rquery, "host": rhost}, "markers": markers_json, "target": target, "status_code": 302})) {
        Ok(r) => r,
        Err(e) => return Obs::invalid(&format!("rule json: {e}")),
    };
    let mut router2: Router<Rule> = Router::from_config(config2.clone());
    router2.insert(rule2);
    let routes_rb = router2.match_request(&rbn_other);
    let m_rb = !routes_rb.is_empty();
    let loc_rb = if m_rb {
        let mut action = Action::from_routes_rule(routes_rb.clone(), &rbn_other, None);
        let out = action.filter_headers(Vec::new(), 200, false, None);
        json!(out.iter().find(|h| h.name == "Location").map(|h| hex(h.value.as_bytes())))
    } else {
        Value::Null
    };
    let rb2_json = json!({"same": req_json(&rbn_same), "other": req_json(&rbn_other), "other_v2": req_json(&rbv_other), "m": m_rb, "loc": loc_rb});

    let obs = json!({
        "r1": pqs_json(&req1.path_and_query_skipped), "r2": pqs_json(&req2.path_and_query_skipped),
        "rule": rule_static, "m11": m11, "m12": m12, "loc": loc, "tgt": tgt, "wf": wf, "rb": rb_json, "rb2": rb2_json, "ext": ext,
    });
    let kind = s(case, "kind").unwrap_or_else(|| "?".to_string());
    let mut o = Obs::new(obs).tag(format!("kind:{kind}")).tag(format!("flags:{}{}{}", ic as u8, im as u8, pm as u8));
    o = o.tag(if accepted { "accepted" } else { "rejected" }).tag(if wf { "wf" } else { "not-wf" });
    let keys1: Vec<&String> = params1.iter().map(|kv| &kv.0).collect();
    let has_dup = { let mut k = keys1.clone(); k.sort(); k.windows(2).any(|w| w[0] == w[1]) };
    if has_dup { o = o.tag("dup-key"); }
    if case.get("cfg2").map(|v| !v.is_null()).unwrap_or(false) {
        o = o.tag(if cfg2v == c { "cfg2:same" } else if im && !im2 { "cfg2:keeps-marketing" } else { "cfg2:other" });
    }
    if req2.path_and_query_skipped.skipped_query_params.is_some() { o = o.tag("rebuild:had-skipped"); }
    if req2.path_and_query_skipped.path_and_query != u2 { o = o.tag("rebuild:normalised-differs"); }
    if !markers_json.is_empty() { o = o.tag(format!("declared-markers:{}", markers_json.len())); }
    if rhost.is_some() { o = o.tag("rule-host"); }
    if impl_only { o = o.tag("impl-only"); }
    let unicode_cased = |t: &str| t.chars().any(|ch| !ch.is_ascii() && (ch.is_uppercase() || ch.to_uppercase().next() != Some(ch)));
    if unicode_cased(&u) || unicode_cased(&u2) { o = o.tag("non-ascii-cased-url"); }
    if host.as_deref().map(unicode_cased).unwrap_or(false) || rhost.as_deref().map(unicode_cased).unwrap_or(false) { o = o.tag("non-ascii-cased-host"); }
    if headers.iter().any(|(_, v)| unicode_cased(v)) { o = o.tag("non-ascii-cased-header"); }
    if !u.is_ascii() { o = o.tag("non-ascii"); }
    if u.contains('%') { o = o.tag("percent"); }
    if u.contains('+') { o = o.tag("plus"); }
    if req1.path_and_query_skipped.skipped_query_params.is_some() || req2.path_and_query_skipped.skipped_query_params.is_some() { o = o.tag("skipped"); }
    if m11 { o = o.tag("m11"); }
    if m12 { o = o.tag("m12"); }
    o = o.trivial(u.is_empty());

    // ---- oracles on the implementation alone -------------------------------------------------
    let m1 = req1.path_and_query_skipped.path_and_query_matching.clone();
    let m2 = req2.path_and_query_skipped.path_and_query_matching.clone();
    // hosts: a rule with a marker-free host matches iff the request has that host, compared after Unicode lower-casing
    // iff ignore_host_case (both sides use str::to_lowercase); a rule without host (or with a marker host built to match)
    // is not restricted here
    let host_ok = match (&rhost, rhost_static) {
        (Some(rh), true) => match &host {
            Some(h) => if ihc { rh.to_lowercase() == h.to_lowercase() } else { rh == h },
            None => false,
        },
        _ => true,
    };
    if rhost_static && !host_ok && (m11 || m12) {
        return o.fail("a rule with a host matches a request with another host", "host-case");
    }
    // (1) self-match inside WFurl
    if wf && host_ok && !m11 {
        return if rhost_static {
            o.fail("rule with a host does not match the request for the same URL and the same host (up to case iff ignore_host_case)", "host-case")
        } else {
            o.fail("rule built from u does not match the request for u although WFurl(u)", "self-match")
        };
    }
    // header values and hosts are lower-cased iff the flags say so (Unicode to_lowercase), by from_config and rebuild alike
    {
        let want_host = host.as_ref().map(|h| if ihc { h.to_lowercase() } else { h.clone() });
        if req1.host != want_host {
            return o.fail("Request::from_config does not lower-case the host exactly when ignore_host_case is set", "host-case");
        }
    }
    // (2) rebuild idempotence, and rebuild of a fresh request changes nothing
    let ser = |r: &Request| serde_json::to_value(r).unwrap_or(Value::Null);
    if ser(&rb1) != ser(&rb2) {
        return o.fail("rebuild_with_config is not idempotent", "rebuild");
    }
    if ser(&Request::rebuild_with_config(&config, &req1)) != ser(&req1) {
        return o.fail("rebuilding a request made by from_config changes it", "rebuild");
    }
    // … also when the request was restored without `path_and_query_v2`: the rebuild starts from `original`, so it equals the
    // rebuild of the request that still has the field, under the same and under another configuration, and its URL part is
    // what from_config gives for the original URL under that configuration
    if ser(&rbn_same) != ser(&Request::rebuild_with_config(&config, &req_a)) || ser(&rbn_other) != ser(&rbv_other) {
        return o.fail("rebuilding a request restored without path_and_query_v2 differs from rebuilding the request that has it (the rebuild must start from the original URL)", "rebuild-original");
    }
    {
        let fresh = PathAndQueryWithSkipped::from_config(&config2, &u2);
        if pqs_json(&rbn_other.path_and_query_skipped) != pqs_json(&fresh) {
            return o.fail("rebuild under another configuration is not the normalisation of the original URL under that configuration", "rebuild-original");
        }
        if m_rb && !impl_only {
            let expect = match (&fresh.skipped_query_params, target.is_empty()) {
                (_, true) => None,
                (None, false) => Some(target.clone()),
                (Some(sk), false) => Some(format!("{}{}{}", target, if target.contains('?') { "&" } else { "?" }, sk)),
            };
            let got = o.obs["rb2"]["loc"].as_str().and_then(unhex).and_then(|b| String::from_utf8(b).ok());
            if got != expect {
                return o.fail("after a rebuild the Location does not carry exactly the skipped parameters of the original URL", "marketing-forward");
            }
        }
    }
    for ((_, v), h) in headers.iter().zip(rb1.headers.iter()) {
        let want = if ihd { v.to_lowercase() } else { v.clone() };
        if h.value != want {
            return o.fail("rebuild_with_config does not lower-case header values exactly when ignore_header_case is set", "rebuild");
        }
    }
    let (p1, _) = split_q(&u);
    let (p2, _) = split_q(&u2);
    let pc1 = pieces(&u);
    let pc2 = pieces(&u2);
    // (3) order independence: same path, the non-empty pieces are a permutation
    if accepted && p1 == p2 && u.contains('?') == u2.contains('?') {
        let mut a = pc1.clone();
        let mut b = pc2.clone();
        a.sort();
        b.sort();
        if a == b && u.len() == u2.len() && (m1 != m2 || m11 != m12) {
            // the specific cause of D13: a key is repeated AND the last-value-wins maps really differ
            let map2: BTreeMap<String, String> = params_of(&u2).into_iter().collect();
            return if has_dup && map1 != map2 {
                o.fail("a repeated query key makes matching depend on the order of the parameters (last value wins)", "duplicate-key-order")
            } else {
                o.fail("permuting the query parameters changes the matching key", "order-dependent")
            };
        }
    }
    // (4) marketing parameters: u2 = u with marketing pieces inserted (order of the others kept)
    if im && accepted && p1 == p2 && sanitize_url(&u2).parse::<PathAndQuery>().is_ok() {
        let is_mk = |p: &&str| mk.contains(&piece_key(p));
        let a: Vec<&str> = pc1.iter().filter(|p| !is_mk(p)).cloned().collect();
        let b: Vec<&str> = pc2.iter().filter(|p| !is_mk(p)).cloned().collect();
        if a == b && pc2.len() != pc1.len() {
            if m1 != m2 || m11 != m12 {
                return o.fail("marketing parameters are not ignored for matching", "marketing-not-ignored");
            }
        }
    }
    // forwarded iff configured
    for (r, uu, pcs) in [(&req1, &u, &pc1), (&req2, &u2, &pc2)] {
        let sk = &r.path_and_query_skipped.skipped_query_params;
        if sk.is_some() && !(pm && im) {
            return o.fail("skipped parameters reported although they are not to be forwarded", "marketing-forward");
        }
        let ok = sanitize_url(uu).parse::<PathAndQuery>().is_ok();
        let has_mk = pcs.iter().any(|p| {
            let k = piece_key(p);
            mk.contains(&k) && !k.is_empty()
        });
        if ok && pm && im && has_mk && sk.is_none() {
            return o.fail("marketing parameters present but nothing forwarded", "marketing-forward");
        }
    }
    if m12 {
        let sk = req2.path_and_query_skipped.skipped_query_params.clone();
        let expect = match (&sk, target.is_empty()) {
            (_, true) => None,
            (None, false) => Some(target.clone()),
            (Some(s), false) => Some(format!("{}{}{}", target, if target.contains('?') { "&" } else { "?" }, s)),
        };
        let got = o.obs["loc"].as_str().and_then(unhex).and_then(|b| String::from_utf8(b).ok());
        if got != expect {
            return o.fail("Location does not carry exactly the skipped parameters", "marketing-forward");
        }
    }
    // (5) ASCII case independence under the flag
    if ic && accepted && u.to_ascii_lowercase() == u2.to_ascii_lowercase() && (m1 != m2 || m11 != m12) {
        // classify: the decoded parameter lists, lower-cased, in sorted order
        let lower_sorted = |uu: &str| {
            let m: BTreeMap<String, String> = params_of(uu).into_iter().collect();
            m.into_iter().map(|(k, v)| (k.to_ascii_lowercase(), v.to_ascii_lowercase())).collect::<Vec<_>>()
        };
        // marketing classification (case-sensitive, as the code does it) of the collected keys
        let mk_keys = |uu: &str| {
            let m: BTreeMap<String, String> = params_of(uu).into_iter().collect();
            let mut v: Vec<String> = m.keys().filter(|k| mk.contains(*k)).map(|k| k.to_ascii_lowercase()).collect();
            v.sort();
            v
        };
        // a key that is a marketing name up to ASCII case but not exactly
        let near_mk = |uu: &str| params_of(uu).iter().any(|kv| !mk.contains(&kv.0) && mk.iter().any(|m| m.eq_ignore_ascii_case(&kv.0)));
        let sig = if im && (near_mk(&u) || near_mk(&u2)) && mk_keys(&u) != mk_keys(&u2) {
            "case-marketing-name"
        } else if lower_sorted(&u) != lower_sorted(&u2) {
            "case-key-order"
        } else {
            "case-dependent"
        };
        return o.fail("ASCII case of the URL changes the matching key although ignore_path_and_query_case is set", sig);
    }
    // (6) separation: different path or different decoded parameters => no match
    if wf && !ic && m12 && u != u2 {
        let accepted2 = sanitize_url(&u2).parse::<PathAndQuery>().is_ok();
        let map2: BTreeMap<String, String> = params_of(&u2).into_iter().collect();
        let plain = |m: &BTreeMap<String, String>| m.iter().all(|(k, v)| !k.contains(['&', '=', '%']) && !v.contains(['&', '%']) && !(k.is_empty() && v.is_empty()));
        let drop_mk = |m: &BTreeMap<String, String>| m.iter().filter(|(k, _)| !(im && mk.contains(*k))).map(|(k, v)| (k.clone(), v.clone())).collect::<BTreeMap<_, _>>();
        let p2n = if p2.is_empty() { "/" } else { p2 };
        if accepted2 && plain(&map1) && plain(&map2) && (sanitize_url(p1) != sanitize_url(p2n) || drop_mk(&map1) != drop_mk(&map2)) {
            return o.fail("a request with a different path or different decoded parameters matches", "separation");
        }
    }
    // (7) self-match OUTSIDE WFurl (ungated; evaluated last so that the other oracles still see these cases): the property
    // says "under every configuration"; the four classes below are recorded findings, each with its specific cause —
    // anything else is a plain `self-match` violation
    if !wf && host_ok && !m11 {
        let fallback = Some(if ic { san.to_lowercase() } else { san.clone() });
        let has_mk = im && map1.keys().any(|k| mk.contains(k));
        let empty_param = map1.get("").map(|v| v.is_empty()).unwrap_or(false) && map1.len() >= 2;
        return if !accepted && m1 == fallback {
            o.fail("the sanitised URL is rejected by PathAndQuery: the request side falls back to the unsorted sanitised URL while the rule side sorts and re-encodes the query", "self-match-rejected-by-pathandquery")
        } else if accepted && rpath.is_empty() {
            o.fail("empty path: the request side reads `?q` as `/` + query, the rule side keeps the empty path", "self-match-empty-path")
        } else if accepted && has_mk {
            o.fail("the URL names an ignored marketing parameter: the request side drops it, the rule built from the URL keeps it and can never match", "self-match-marketing-param")
        } else if accepted && empty_param {
            o.fail("the empty parameter `=` next to others: the request side drops it silently, the rule side leaves its separator", "self-match-empty-param")
        } else {
            o.fail("rule built from u does not match the request for u", "self-match")
        };
    }
    o
}

fn main() {
    main_with(gen, run);
}

#[allow(dead_code)]
fn _unused(_: Header) {}
