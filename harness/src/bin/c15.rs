//! C15 — HTML filters edit the targeted element as specified on well-formed documents: implementation side.
//! case: {"doc": [node..], "filters": [html filter..]}
//!   node := {"t":"text","v":s} | {"t":"comment","v":s} | {"t":"decl","v":s}            (v = the raw bytes, e.g. "<!-- x -->")
//!         | {"t":"el","n":name (lower case),"d":display name (case variant),"a":raw attribute text,"k":"n"|"v"|"s"|"r","c":[node..]}
//!           k: n = normal (start tag, children, end tag), v = void (start tag only), s = self-closing ("<n a/>"),
//!              r = raw-text element (children = one text node holding the raw text)
//!   filter objects may carry the OPTIONAL fields of HTMLBodyFilter as extra keys read only here: "inner" (inner_value,
//!   trace text only: the inserted / replacing bytes must always be `value`), "id", "hash" (target_hash); see `real_filters`.
//! obs:  hex of filter(serialize(doc)) + end()   (single chunk; chunking is C03's subject)
//! oracle: obs == serialize(reference_edit(doc, filters)) computed here on the tree (child semantics, see `edit`).
//! Domain (the property's quantifier; `in_domain` re-checks it on every case, a case outside it is invalid):
//!   every path element name occurs exactly once in the document (as an element), each as a child of the previous one —
//!   except the last element of a `replace` path, which may occur several times but only as children of the same parent;
//!   append/prepend targets are normal elements (not void / self-closing); names used inside values are never path names.
#[path = "../filter_gen.rs"]
mod filter_gen;
use filter_gen::*;
use redirectionio::api::{BodyFilter, HTMLBodyFilter};
use redirectionio::filter::FilterBodyAction;
use rio_harness::*;
use serde_json::{json, Value};

/// The OPTIONAL fields of `HTMLBodyFilter` ride on the filter objects of the case as extra keys that only this binary
/// reads: "inner": null | string (`inner_value`, trace text only — the bytes inserted must always be `value`),
/// "id": null | string, "hash": null | string (`target_hash`).  The Lean driver and `filter_gen::parse_filters`
/// ignore them: model and reference edit use `value` only.
fn real_filters(case: &Value) -> Option<Vec<BodyFilter>> {
    let mut out = Vec::new();
    for f in case.get("filters")?.as_array()? {
        if f.get("k")?.as_str()? != "html" {
            return None;
        }
        let opt = |k: &str| -> Option<String> {
            match f.get(k) {
                None | Some(Value::Null) => None,
                Some(v) => v.as_str().map(|s| s.to_string()),
            }
        };
        let mut path = Vec::new();
        for p in f.get("path")?.as_array()? {
            path.push(p.as_str()?.to_string());
        }
        out.push(BodyFilter::HTML(HTMLBodyFilter {
            action: f.get("action")?.as_str()?.to_string(),
            value: f.get("value")?.as_str()?.to_string(),
            inner_value: opt("inner"),
            element_tree: path,
            css_selector: opt("sel"),
            // `id` defaults to Some("id") (what filter_gen uses) when the key is absent, None when it is null
            id: if f.get("id").is_none() { Some("id".to_string()) } else { opt("id") },
            target_hash: opt("hash"),
        }));
    }
    Some(out)
}

/// run the REAL chain on one chunk: (filter output ++ end output, entered the error state?)
fn run_real(filters: Vec<BodyFilter>, input: &[u8], headers: &[redirectionio::http::Header]) -> (Vec<u8>, bool) {
    let mut chain = FilterBodyAction::new(filters, headers);
    let mut out = chain.filter(input.to_vec(), None);
    let mut err = chain.verif_in_error();
    out.extend(chain.end(None));
    err = err || chain.verif_in_error();
    (out, err)
}

#[derive(Clone, Debug)]
enum Node {
    /// text, comment, declaration, or an inserted value: emitted verbatim; `marks` = element names it contains
    Verb { kind: &'static str, raw: String, marks: Vec<String> },
    El { name: String, disp: String, attrs: String, kind: char, children: Vec<Node> },
}

fn parse_node(v: &Value) -> Option<Node> {
    let t = v.get("t")?.as_str()?;
    match t {
        "text" | "comment" | "decl" => Some(Node::Verb {
            kind: match t {
                "text" => "text",
                "comment" => "comment",
                _ => "decl",
            },
            raw: v.get("v")?.as_str()?.to_string(),
            marks: vec![],
        }),
        "el" => {
            let kind = v.get("k")?.as_str()?.chars().next()?;
            if !"nvsr".contains(kind) {
                return None;
            }
            let mut children = Vec::new();
            for c in v.get("c")?.as_array()? {
                children.push(parse_node(c)?);
            }
            Some(Node::El { name: v.get("n")?.as_str()?.to_string(), disp: v.get("d")?.as_str()?.to_string(), attrs: v.get("a")?.as_str()?.to_string(), kind, children })
        }
        _ => None,
    }
}

fn node_json(n: &Node) -> Value {
    match n {
        Node::Verb { kind, raw, .. } => json!({"t": kind, "v": raw}),
        Node::El { name, disp, attrs, kind, children } => json!({"t": "el", "n": name, "d": disp, "a": attrs, "k": kind.to_string(), "c": children.iter().map(node_json).collect::<Vec<_>>()}),
    }
}

fn serialize(ns: &[Node], out: &mut String) {
    for n in ns {
        match n {
            Node::Verb { raw, .. } => out.push_str(raw),
            Node::El { disp, attrs, kind, children, .. } => {
                out.push('<');
                out.push_str(disp);
                out.push_str(attrs);
                match kind {
                    's' => out.push_str("/>"),
                    'v' => out.push('>'),
                    _ => {
                        out.push('>');
                        serialize(children, out);
                        out.push_str("</");
                        out.push_str(disp);
                        out.push('>');
                    }
                }
            }
        }
    }
}

fn count_name(ns: &[Node], name: &str) -> usize {
    ns.iter()
        .map(|n| match n {
            Node::Verb { marks, .. } => marks.iter().filter(|m| *m == name).count(),
            Node::El { name: nm, children, .. } => (if nm == name { 1 } else { 0 }) + count_name(children, name),
        })
        .sum()
}

/// does the subtree (the element itself included) contain an element named `name`?
fn has_element(n: &Node, name: &str) -> bool {
    match n {
        Node::Verb { marks, .. } => marks.iter().any(|m| m == name),
        Node::El { name: nm, children, kind, .. } => nm == name || (*kind != 'r' && children.iter().any(|c| has_element(c, name))),
    }
}

/// the selector decision of the reference: `*` always matches, an element name matches iff such an element exists in
/// the target (itself included), anything else never matches
fn sel_matches(n: &Node, sel: &str) -> bool {
    if sel == "*" {
        return true;
    }
    if sel.chars().all(|c| c.is_ascii_alphanumeric() || c == '-') && !sel.is_empty() {
        return has_element(n, sel);
    }
    false
}

fn value_marks(value: &str) -> Vec<String> {
    // element names occurring in a value (values are generated from a fixed small grammar: "<name" starts an element)
    let mut marks = Vec::new();
    let b = value.as_bytes();
    let mut i = 0;
    while i < b.len() {
        if b[i] == b'<' && i + 1 < b.len() && b[i + 1].is_ascii_alphabetic() {
            let mut j = i + 1;
            while j < b.len() && (b[j].is_ascii_alphanumeric() || b[j] == b'-') {
                j += 1;
            }
            marks.push(value[i + 1..j].to_ascii_lowercase());
            i = j;
        } else {
            i += 1;
        }
    }
    marks
}

/// Reference edit of one filter: child semantics along the path, first element anywhere in the document.
fn edit(doc: &mut Vec<Node>, f: &FSpec) {
    let (action, path, sel, value) = match f {
        FSpec::Html { action, path, sel, value } => (action.as_str(), path, sel, value),
        _ => return,
    };
    if path.is_empty() || !matches!(action, "append_child" | "prepend_child" | "replace") {
        return;
    }
    let sel: Option<&str> = match sel {
        Some(s) if !s.is_empty() => Some(s.as_str()),
        _ => None,
    };
    let ins = Node::Verb { kind: "value", raw: value.clone(), marks: value_marks(value) };
    // apply to the children list `ns` looking for path[depth..]
    fn at(ns: &mut Vec<Node>, path: &[String], action: &str, sel: Option<&str>, ins: &Node, anywhere: bool) -> bool {
        let mut done = false;
        let mut i = 0;
        while i < ns.len() {
            let hit = matches!(&ns[i], Node::El { name, .. } if *name == path[0]);
            if hit {
                if path.len() == 1 {
                    match action {
                        "replace" => {
                            if sel.map(|s| sel_matches(&ns[i], s)).unwrap_or(true) {
                                ns[i] = ins.clone();
                            }
                        }
                        "append_child" => {
                            if sel.map(|s| !sel_matches(&ns[i], s)).unwrap_or(true) {
                                if let Node::El { children, .. } = &mut ns[i] {
                                    children.push(ins.clone());
                                }
                            }
                        }
                        _ => {
                            if sel.map(|s| !sel_matches(&ns[i], s)).unwrap_or(true) {
                                if let Node::El { children, .. } = &mut ns[i] {
                                    children.insert(0, ins.clone());
                                }
                            }
                        }
                    }
                    done = true;
                } else if let Node::El { children, .. } = &mut ns[i] {
                    at(children, &path[1..], action, sel, ins, false);
                    done = true;
                }
            } else if anywhere {
                if let Node::El { children, kind, .. } = &mut ns[i] {
                    if *kind != 'r' && at(children, path, action, sel, ins, true) {
                        done = true;
                    }
                }
            }
            i += 1;
        }
        done
    }
    at(doc, path, action, sel, &ins, true);
}

/// the quantifier of the property, checked on the document *as it is when the filter runs*
fn in_domain(doc: &[Node], f: &FSpec) -> Result<(), String> {
    let (action, path) = match f {
        FSpec::Html { action, path, .. } => (action.as_str(), path),
        _ => return Err("text filter".to_string()),
    };
    if path.is_empty() || !matches!(action, "append_child" | "prepend_child" | "replace") {
        return Ok(());
    }
    // locate along the path with child semantics
    fn find<'a>(ns: &'a [Node], name: &str, anywhere: bool) -> Vec<&'a Node> {
        let mut v = Vec::new();
        for n in ns {
            if let Node::El { name: nm, children, kind, .. } = n {
                if nm == name {
                    v.push(n);
                } else if anywhere && *kind != 'r' {
                    v.extend(find(children, name, true));
                }
            }
        }
        v
    }
    let mut level: &[Node] = doc;
    for (d, p) in path.iter().enumerate() {
        let total = count_name(doc, p);
        let here = find(level, p, d == 0);
        let last = d + 1 == path.len();
        if total == 0 {
            // The property quantifies over documents in which the path occurs.  An absent path is a no-op for
            // prepend / replace and when the FIRST element is absent; `append_child` with an absent deeper element
            // inserts the value before the end tag of the last element it entered (observation O7, same mechanism
            // as O2: `position` = "next expected element" is read as "inside the last element" by `leave`).
            if action == "append_child" && d > 0 {
                return Err(format!("append_child: path element {p} does not occur (O7)"));
            }
            return Ok(());
        }
        if here.len() != total {
            return Err(format!("path element {p} occurs outside its place"));
        }
        if !(total == 1 || (last && action == "replace")) {
            return Err(format!("path element {p} occurs {total} times"));
        }
        if path[..d].contains(p) {
            return Err("repeated name in path".to_string());
        }
        if last {
            if action != "replace" {
                if let Node::El { kind, .. } = here[0] {
                    if *kind == 'v' || *kind == 's' {
                        return Err("append/prepend target is void or self-closing".to_string());
                    }
                }
            }
        } else if let Node::El { children, kind, .. } = here[0] {
            if *kind != 'n' {
                return Err("inner path element is not a normal element".to_string());
            }
            level = children;
        }
    }
    Ok(())
}

// ------------------------------------------------------------------------------------------------
// generator
// ------------------------------------------------------------------------------------------------

const UNIQUE: &[&str] = &["main", "article", "nav", "footer", "header", "aside", "h1", "h2", "form", "figure", "ul", "ol", "dl", "blockquote"];
const COMMON: &[&str] = &["div", "p", "span", "a", "b", "em", "i", "u"];
const REPEAT: &[&str] = &["li", "item", "meta", "img", "br", "section", "link", "hr"];
const C15_TEXTS: &[&str] = &["hello", " ", "a b", "1 &lt; 2", "&amp;", "caf\u{e9}", "\u{20ac}", "\u{1f600}", "\n  ", "x > y", "a < b", "tail"];
const C15_ATTRS: &[&str] = &[" class=\"page\"", " id=main", " data-x='1'", " hidden", " title=\"a > b\"", " title='<p>'", " href=\"/a?b=1&amp;c=2\"", " a=b c=d", " x = \"y\"", " r='say \"hi\"'", "\n  lang=\"fr\"", " data-e=\"\u{e9}\""];
const C15_COMMENTS: &[&str] = &["<!-- c -->", "<!---->", "<!-- <main>in comment</main> -->", "<!-- </body> -->", "<!-- <x-mark></x-mark> -->", "<!--a--b-->"];
const C15_RAW: &[(&str, &[&str])] = &[
    ("script", &["alert(1)", "", "var s = \"<main>\";", "if (a<b) { x(); }", "<!-- document.write(\"<script>x</script>\") -->", "var e = '</body>';", "var m = '<x-mark>';"]),
    ("style", &["p > a { color: red }", "", "a:before{content:'<'}"]),
    ("title", &["T", "a &amp; b", "<b>t</b>", "caf\u{e9}", "<x-mark>"]),
    ("textarea", &["", "<main>", "text <p> more", "</div>"]),
];

struct TreeGen<'a> {
    rng: &'a mut Prng,
    unused: Vec<&'static str>,
    budget: usize,
    mark_used: bool,
}

impl<'a> TreeGen<'a> {
    fn disp(&mut self, n: &str) -> String {
        match self.rng.below(10) {
            0 => n.to_uppercase(),
            1 => {
                let mut s = n.to_string();
                s[0..1].make_ascii_uppercase();
                s
            }
            _ => n.to_string(),
        }
    }
    fn attrs(&mut self) -> String {
        let k = match self.rng.below(10) {
            0..=4 => 0,
            5..=7 => 1,
            _ => 2,
        };
        (0..k).map(|_| *self.rng.pick(C15_ATTRS)).collect()
    }
    fn leaf(&mut self) -> Node {
        match self.rng.below(10) {
            0..=5 => Node::Verb { kind: "text", raw: self.rng.pick(C15_TEXTS).to_string(), marks: vec![] },
            6..=7 => Node::Verb { kind: "comment", raw: self.rng.pick(C15_COMMENTS).to_string(), marks: vec![] },
            _ => {
                let (n, contents) = *self.rng.pick(C15_RAW);
                let c = self.rng.pick(contents).to_string();
                let children = if c.is_empty() { vec![] } else { vec![Node::Verb { kind: "text", raw: c, marks: vec![] }] };
                let disp = self.disp(n);
                let attrs = self.attrs();
                Node::El { name: n.to_string(), disp, attrs, kind: 'r', children }
            }
        }
    }
    fn void(&mut self, n: &str) -> Node {
        let kind = if self.rng.chance(1, 2) { 'v' } else { 's' };
        let disp = self.disp(n);
        let mut attrs = self.attrs();
        if kind == 's' && self.rng.chance(1, 2) {
            attrs.push(' ');
        }
        // an unquoted attribute value directly before "/>" would swallow the slash: keep those quoted
        if kind == 's' && (attrs.ends_with("main") || attrs.ends_with("c=d") || attrs.ends_with("hidden")) {
            attrs.push(' ');
        }
        Node::El { name: n.to_string(), disp, attrs, kind, children: vec![] }
    }
    fn children(&mut self, depth: usize) -> Vec<Node> {
        let k = if depth >= 4 { self.rng.below(2) } else { self.rng.range(0, 4) };
        let mut v = Vec::new();
        for _ in 0..k {
            if self.budget == 0 {
                break;
            }
            self.budget -= 1;
            let r = self.rng.below(100);
            if r < 35 {
                v.push(self.leaf());
            } else if r < 45 {
                // repeated siblings (replace targets): a name not used anywhere else
                if let Some(pos) = (0..REPEAT.len()).find(|_| true) {
                    let _ = pos;
                }
                let cands: Vec<&'static str> = REPEAT.iter().cloned().filter(|n| self.unused.contains(n)).collect();
                if let Some(n) = cands.get(self.rng.below(cands.len().max(1))).cloned() {
                    self.unused.retain(|x| *x != n);
                    let reps = self.rng.range(1, 4);
                    for _ in 0..reps {
                        let node = if VOID_NAMES.contains(&n) {
                            self.void(n)
                        } else if self.rng.chance(1, 5) {
                            let mut e = self.void(n);
                            if let Node::El { kind, .. } = &mut e {
                                *kind = 's';
                            }
                            e
                        } else {
                            let disp = self.disp(n);
                            let attrs = self.attrs();
                            let mut c = vec![];
                            if self.rng.chance(1, 2) {
                                c.push(self.leaf());
                            }
                            if self.rng.chance(1, 4) {
                                c.push(self.mark());
                            }
                            Node::El { name: n.to_string(), disp, attrs, kind: 'n', children: c }
                        };
                        v.push(node);
                        if self.rng.chance(1, 3) {
                            v.push(Node::Verb { kind: "text", raw: self.rng.pick(C15_TEXTS).to_string(), marks: vec![] });
                        }
                    }
                }
            } else if r < 50 {
                v.push(self.mark());
            } else if r < 75 && !self.unused.is_empty() {
                // a structural element with a name unique in the document (path material)
                let cands: Vec<&'static str> = UNIQUE.iter().cloned().filter(|n| self.unused.contains(n)).collect();
                if let Some(n) = cands.get(self.rng.below(cands.len().max(1))).cloned() {
                    self.unused.retain(|x| *x != n);
                    let disp = self.disp(n);
                    let attrs = self.attrs();
                    let children = self.children(depth + 1);
                    v.push(Node::El { name: n.to_string(), disp, attrs, kind: 'n', children });
                }
            } else {
                let n = *self.rng.pick(COMMON);
                let disp = self.disp(n);
                let attrs = self.attrs();
                let children = self.children(depth + 1);
                v.push(Node::El { name: n.to_string(), disp, attrs, kind: 'n', children });
            }
        }
        v
    }
    fn mark(&mut self) -> Node {
        self.mark_used = true;
        Node::El { name: "x-mark".to_string(), disp: "x-mark".to_string(), attrs: String::new(), kind: 'n', children: vec![] }
    }
}

const VOID_NAMES: &[&str] = &["meta", "img", "br", "link", "hr"];

fn gen_doc(rng: &mut Prng) -> Vec<Node> {
    let mut unused: Vec<&'static str> = UNIQUE.to_vec();
    unused.extend_from_slice(REPEAT);
    let budget = rng.range(4, 30);
    let mut g = TreeGen { rng, unused, budget, mark_used: false };
    let mut doc = Vec::new();
    if g.rng.chance(1, 3) {
        doc.push(Node::Verb { kind: "decl", raw: g.rng.pick(&["<!DOCTYPE html>", "<!doctype html>\n", "<?xml version=\"1.0\"?>"]).to_string(), marks: vec![] });
    }
    if g.rng.chance(1, 8) {
        doc.push(Node::Verb { kind: "comment", raw: "<!-- <html> -->".to_string(), marks: vec![] });
    }
    let mut top = Vec::new();
    if g.rng.chance(5, 6) {
        let mut hc = Vec::new();
        let k = g.rng.below(4);
        for _ in 0..k {
            match g.rng.below(4) {
                0 => {
                    if g.unused.contains(&"meta") {
                        g.unused.retain(|x| *x != "meta");
                        for _ in 0..g.rng.range(1, 3) {
                            let mut m = g.void("meta");
                            if g.rng.chance(1, 2) {
                                if let Node::El { attrs, .. } = &mut m {
                                    *attrs = " name=\"description\" content=\"d\"".to_string() + attrs;
                                }
                            }
                            hc.push(m);
                        }
                    }
                }
                1 => hc.push(g.leaf()),
                2 => {
                    if g.unused.contains(&"link") {
                        g.unused.retain(|x| *x != "link");
                        hc.push(g.void("link"));
                    }
                }
                _ => hc.push(g.mark()),
            }
        }
        let disp = g.disp("head");
        let attrs = g.attrs();
        top.push(Node::El { name: "head".to_string(), disp, attrs, kind: 'n', children: hc });
    }
    if g.rng.chance(1, 4) {
        top.push(Node::Verb { kind: "text", raw: "\n".to_string(), marks: vec![] });
    }
    {
        let children = g.children(1);
        let disp = g.disp("body");
        let attrs = g.attrs();
        top.push(Node::El { name: "body".to_string(), disp, attrs, kind: 'n', children });
    }
    let disp = g.disp("html");
    let attrs = g.attrs();
    doc.push(Node::El { name: "html".to_string(), disp, attrs, kind: 'n', children: top });
    if g.rng.chance(1, 4) {
        doc.push(Node::Verb { kind: "text", raw: "\n".to_string(), marks: vec![] });
    }
    doc
}

/// all (path, is_repeated_last, target kind) reachable with child semantics through names unique in the document
fn candidate_paths(doc: &[Node]) -> Vec<(Vec<String>, bool, char)> {
    let mut out = Vec::new();
    fn walk(doc: &[Node], ns: &[Node], prefix: &[String], out: &mut Vec<(Vec<String>, bool, char)>) {
        for n in ns {
            if let Node::El { name, children, kind, .. } = n {
                let total = count_name(doc, name);
                let sib = ns.iter().filter(|m| matches!(m, Node::El { name: nm, .. } if nm == name)).count();
                if name == "x-mark" || prefix.contains(name) {
                    continue;
                }
                let mut p = prefix.to_vec();
                p.push(name.clone());
                if total == 1 {
                    out.push((p.clone(), false, *kind));
                    if *kind == 'n' {
                        walk(doc, children, &p, out);
                        // a path may also start at this element
                        if !prefix.is_empty() {
                            walk(doc, children, &[name.clone()], out);
                            out.push((vec![name.clone()], false, *kind));
                        }
                    }
                } else if total == sib && !out.iter().any(|(q, _, _)| *q == p) {
                    out.push((p, true, *kind));
                }
            }
        }
    }
    walk(doc, doc, &[], &mut out);
    out
}

fn gen_value(rng: &mut Prng, i: usize) -> String {
    match rng.below(6) {
        0 => format!("<ins-{i}>v{i}</ins-{i}>"),
        1 => format!("<ins-{i} k=\"{i}\"/>"),
        2 => "<x-mark></x-mark>".to_string(),
        3 => format!("<ins-{i}><x-mark></x-mark></ins-{i}>"),
        4 => format!("text{i} \u{e9}"),
        _ => format!("<!--ins{i}--><ins-{i}>a</ins-{i}>"),
    }
}

/// all ordered forests with exactly `n` element nodes over the names a, b, c (normal elements) and br (void leaf)
fn forests(n: usize, memo: &mut Vec<Option<Vec<Vec<Node>>>>) -> Vec<Vec<Node>> {
    if let Some(Some(v)) = memo.get(n) {
        return v.clone();
    }
    let mut out: Vec<Vec<Node>> = Vec::new();
    if n == 0 {
        out.push(vec![]);
    } else {
        for k in 1..=n {
            // first tree has k nodes, the rest of the forest n - k
            let rests = forests(n - k, memo);
            let mut firsts: Vec<Node> = Vec::new();
            let kids = forests(k - 1, memo);
            for nm in ["a", "b", "c"] {
                for ch in &kids {
                    firsts.push(Node::El { name: nm.to_string(), disp: nm.to_string(), attrs: String::new(), kind: 'n', children: ch.clone() });
                }
            }
            if k == 1 {
                firsts.push(Node::El { name: "br".to_string(), disp: "br".to_string(), attrs: String::new(), kind: 'v', children: vec![] });
            }
            for f in &firsts {
                for r in &rests {
                    let mut v = vec![f.clone()];
                    v.extend(r.iter().cloned());
                    out.push(v);
                }
            }
        }
    }
    while memo.len() <= n {
        memo.push(None);
    }
    memo[n] = Some(out.clone());
    out
}

/// thorough tier: every forest of <= 5 element nodes over {a, b, c, br} x every filter of a fixed list that is inside the
/// property's quantifier on it and whose first path element occurs (a text child is added to every childless normal
/// element of every other forest so that text tokens take part)
fn gen_exhaustive(emit: &mut dyn FnMut(Value)) {
    let mut memo: Vec<Option<Vec<Vec<Node>>>> = Vec::new();
    let paths: [&[&str]; 7] = [&["a"], &["b"], &["a", "b"], &["b", "a"], &["a", "b", "c"], &["br"], &["a", "br"]];
    let sels: [Option<&str>; 3] = [None, Some("c"), Some("*")];
    let mut idx = 0usize;
    let max_nodes: usize = std::env::var("C15_EXH_NODES").ok().and_then(|v| v.parse().ok()).unwrap_or(5);
    for n in 1..=max_nodes {
        for doc in forests(n, &mut memo) {
            idx += 1;
            let mut doc = doc;
            if idx % 2 == 0 {
                fn fill(ns: &mut Vec<Node>) {
                    for n in ns.iter_mut() {
                        if let Node::El { kind, children, .. } = n {
                            if *kind == 'n' {
                                if children.is_empty() {
                                    children.push(Node::Verb { kind: "text", raw: "t".to_string(), marks: vec![] });
                                } else {
                                    fill(children);
                                }
                            }
                        }
                    }
                }
                fill(&mut doc);
            }
            for action in ["append_child", "prepend_child", "replace"] {
                for path in paths.iter() {
                    if count_name(&doc, path[0]) == 0 {
                        continue;
                    }
                    for sel in sels.iter() {
                        let f = FSpec::Html { action: action.to_string(), path: path.iter().map(|s| s.to_string()).collect(), sel: sel.map(|s| s.to_string()), value: "<i>v</i>".to_string() };
                        if in_domain(&doc, &f).is_err() {
                            continue;
                        }
                        let mut fj = f.to_json();
                        // inner_value different from value on two thirds of the cases, id / target_hash varied
                        match idx % 3 {
                            0 => {}
                            1 => { fj["inner"] = json!("<u>INNER</u>"); fj["id"] = Value::Null; }
                            _ => { fj["inner"] = json!(""); fj["hash"] = json!("h"); }
                        }
                        emit(json!({"doc": doc.iter().map(node_json).collect::<Vec<_>>(), "filters": [fj], "exh": true}));
                    }
                }
            }
        }
    }
}

fn el(name: &str, disp: &str, attrs: &str, kind: char, children: Vec<Node>) -> Node {
    Node::El { name: name.to_string(), disp: disp.to_string(), attrs: attrs.to_string(), kind, children }
}
fn txt(s: &str) -> Node {
    Node::Verb { kind: "text", raw: s.to_string(), marks: vec![] }
}

/// `<html HA><body BA><div>pre</div> TARGET <p>post</p></body></html>`, every filter in the list applied to path
/// html > body > (target name); only cases inside the property's quantifier are emitted
fn emit_skeleton(html_attrs: &str, body_attrs: &str, target: Node, extra_sibling: Option<Node>, tname: &str, actions: &[&str], value: &str, kind: &str, emit: &mut dyn FnMut(Value)) {
    let mut body = vec![el("div", "div", "", 'n', vec![txt("pre")]), target];
    if let Some(x) = extra_sibling {
        body.push(x);
    }
    body.push(el("p", "p", "", 'n', vec![txt("post")]));
    let doc = vec![el("html", "html", html_attrs, 'n', vec![el("body", "body", body_attrs, 'n', body)])];
    for (ai, action) in actions.iter().enumerate() {
        for (si, sel) in [None, Some("x-mark"), Some("*")].iter().enumerate() {
            for path in [vec!["html", "body", tname], vec![tname]] {
                let f = FSpec::Html { action: action.to_string(), path: path.iter().map(|s| s.to_string()).collect(), sel: sel.map(|s| s.to_string()), value: value.to_string() };
                if in_domain(&doc, &f).is_err() {
                    continue;
                }
                let mut fj = f.to_json();
                if (ai + si) % 2 == 0 {
                    fj["inner"] = json!("<b>INNER</b>");
                }
                emit(json!({"doc": doc.iter().map(node_json).collect::<Vec<_>>(), "filters": [fj], "fam": kind}));
            }
        }
    }
}

/// Deterministic boundary families, part of EVERY run:
/// (1) every ASCII white-space byte of the HTML spec (TAB, LF, FF, CR, SPACE) and mixtures as the separator after the
///     tag name, between attributes and before `>` / `/>`, in target elements AND in the path elements; a solidus inside a
///     tag (`<main/b>`), quoted `>` in attribute values, upper / mixed-case tag names, NUL in text;
/// (2) targets with 0, 1, 16, 255, 256, 257 attributes;  (3) long targets (8 193 / 70 000 bytes of content / attribute value).
fn gen_boundary(emit: &mut dyn FnMut(Value)) {
    let all = ["append_child", "prepend_child", "replace"];
    let wss = ["\t", "\n", "\u{c}", "\r", " ", "\t\n", "\u{c}\u{c}", " \r\n\t\u{c}", "\u{c} "];
    for w in wss {
        let attr_forms = [
            format!("{w}class=\"x\""),
            format!("{w}a=b{w}c='d'{w}"),
            w.to_string(),
            format!("{w}hidden{w}data-x=\"a > b\"{w}"),
            format!("{w}a=b"),
        ];
        for (i, a) in attr_forms.iter().enumerate() {
            // normal target; the path elements carry the same white space
            let target = el("main", if i % 2 == 0 { "main" } else { "MAIN" }, a, 'n', vec![txt("in"), el("x-mark", "x-mark", "", 'n', vec![]), el("b", "b", a, 'n', vec![txt("deep")])]);
            emit_skeleton(a, &format!("{w}id=1"), target, None, "main", &all, "<ins>V</ins>", "ws", emit);
        }
        // void and self-closing replace targets (repeated siblings), white space before `>` and `/>`
        let v1 = el("img", "img", &format!("{w}src=\"x\"{w}"), 's', vec![]);
        let v2 = el("img", "IMG", &format!("{w}alt='a'{w}"), 's', vec![]);
        emit_skeleton("", w, v1, Some(v2), "img", &["replace"], "<i>r</i>", "ws", emit);
        let b1 = el("br", "br", w, 'v', vec![]);
        let b2 = el("br", "Br", &format!("{w}clear=all{w}"), 'v', vec![]);
        emit_skeleton(w, "", b1, Some(b2), "br", &["replace"], "", "ws", emit);
    }
    // solidus inside a tag, NUL in text, mixed-case path elements
    // (an attribute text ENDING in `/` would turn `<main…>` into a self-closing token: not a serialisation of a normal element)
    for a in ["/b", "/b/c", " /x", " a=b/c", " / x", " x/=y"] {
        let target = el("main", "Main", a, 'n', vec![txt("a\u{0}b"), el("x-mark", "x-mark", "", 'n', vec![])]);
        emit_skeleton(a, "", target, None, "main", &all, "v\u{0}w", "solidus", emit);
    }
    // (2) attribute counts
    for n in [0usize, 1, 16, 255, 256, 257] {
        let attrs: String = (0..n).map(|i| format!(" a{i}=\"v{i}\"")).collect();
        let target = el("main", "main", &attrs, 'n', vec![txt("in")]);
        emit_skeleton("", "", target, None, "main", &all, "<ins>V</ins>", "attrs", emit);
        let st = el("img", "img", &format!("{attrs} "), 's', vec![]);
        emit_skeleton("", "", st, None, "img", &["replace"], "<i>r</i>", "attrs", emit);
    }
    // (3) long targets
    for n in [8193usize, 70_000] {
        let target = el("main", "main", " id=t", 'n', vec![txt(&"x".repeat(n)), el("x-mark", "x-mark", "", 'n', vec![])]);
        emit_skeleton("", "", target, None, "main", &all, "<ins>V</ins>", "long", emit);
        let target = el("main", "main", &format!(" title=\"{}\"", "y".repeat(n)), 'n', vec![txt("in")]);
        emit_skeleton("", "", target, None, "main", &all, "<ins>V</ins>", "long", emit);
        let target = el("main", "main", "", 'n', (0..n / 64).map(|i| el("i", "i", "", 'n', vec![txt(&format!("{i}"))])).collect());
        emit_skeleton("", "", target, None, "main", &["append_child", "replace"], &"V".repeat(n), "long", emit);
    }
    // the Content-Type gate of FilterBodyAction::new: response headers decide whether html filters build a stage at all
    // (no Content-Type, or one whose lower-cased value contains "text/html"; the LAST header of that name wins)
    {
        let mut base: Vec<Value> = Vec::new();
        {
            let mut cap = |v: Value| base.push(v);
            let target = el("main", "main", " class=\"x\"", 'n', vec![txt("in"), el("b", "b", "", 'n', vec![txt("deep")])]);
            emit_skeleton("", "", target, None, "main", &all, "<ins>V</ins>", "gate", &mut cap);
            let v1 = el("img", "img", " src=\"x\"", 's', vec![]);
            emit_skeleton("", "", v1, None, "img", &["replace"], "<i>r</i>", "gate", &mut cap);
        }
        let header_sets: Vec<Vec<(&str, &str)>> = vec![
            vec![("Content-Type", "text/html")],
            vec![("content-type", "TEXT/HTML; charset=utf-8")],
            vec![("CONTENT-TYPE", "application/xhtml+xml, text/html;q=0.9")],
            vec![("Content-Type", "application/json")],
            vec![("Content-Type", "text/htm")],
            vec![("Content-Type", "")],
            vec![("Content-Type", "text/plain"), ("CONTENT-type", "text/html")],
            vec![("Content-Type", "text/html"), ("content-type", "text/css")],
            vec![("X-Content-Type", "application/json"), ("Content-Length", "12")],
            vec![("Content-Type-Options", "nosniff")],
        ];
        for c in &base {
            for hs in &header_sets {
                let mut c2 = c.clone();
                c2["headers"] = json!(hs.iter().map(|(n, v)| json!([n, v])).collect::<Vec<_>>());
                emit(c2);
            }
        }
    }
}

/// Diff-directed search: cases built from the numbers and strings of the changed source lines (`VERIF_HINTS`).
fn gen_hinted(emit: &mut dyn FnMut(Value)) {
    let h = hints();
    if h.is_empty() {
        return;
    }
    let all = ["append_child", "prepend_child", "replace"];
    for n in h.sizes(200_000) {
        // content size, attribute-value size, value size, number of attributes, of siblings, of children, nesting depth
        let target = el("main", "main", "", 'n', vec![txt(&"x".repeat(n))]);
        emit_skeleton("", "", target, None, "main", &all, "<ins>V</ins>", "hint-size", emit);
        let target = el("main", "main", &format!(" t=\"{}\"", "y".repeat(n)), 'n', vec![txt("in")]);
        emit_skeleton("", "", target, None, "main", &all, "<ins>V</ins>", "hint-size", emit);
        let target = el("main", "main", "", 'n', vec![txt("in")]);
        emit_skeleton("", "", target, None, "main", &all, &"V".repeat(n), "hint-size", emit);
        if n <= 5000 {
            let attrs: String = (0..n).map(|i| format!(" a{i}=v")).collect();
            let target = el("main", "main", &attrs, 'n', vec![txt("in")]);
            emit_skeleton("", "", target, None, "main", &all, "<ins>V</ins>", "hint-size", emit);
            let kids: Vec<Node> = (0..n).map(|i| el("i", "i", "", 'n', vec![txt(&format!("{i}"))])).collect();
            let target = el("main", "main", "", 'n', kids);
            emit_skeleton("", "", target, None, "main", &all, "<ins>V</ins>", "hint-size", emit);
            // n sibling replace targets
            let sibs: Vec<Node> = (0..n).map(|i| el("li", "li", "", if i % 3 == 0 { 's' } else { 'n' }, vec![])).collect();
            let doc = vec![el("html", "html", "", 'n', vec![el("ul", "ul", "", 'n', sibs)])];
            let f = FSpec::Html { action: "replace".to_string(), path: vec!["html".to_string(), "ul".to_string(), "li".to_string()], sel: None, value: "<li>r</li>".to_string() };
            if in_domain(&doc, &f).is_ok() {
                emit(json!({"doc": doc.iter().map(node_json).collect::<Vec<_>>(), "filters": [f.to_json()], "fam": "hint-size"}));
            }
        }
        if n <= 300 {
            // nesting depth n above the target, path of the unique names only
            let mut node = el("main", "main", "", 'n', vec![txt("in")]);
            for _ in 0..n {
                node = el("div", "div", "", 'n', vec![node]);
            }
            let doc = vec![el("html", "html", "", 'n', vec![node])];
            for action in all {
                let f = FSpec::Html { action: action.to_string(), path: vec!["main".to_string()], sel: None, value: "<ins>V</ins>".to_string() };
                if in_domain(&doc, &f).is_ok() {
                    emit(json!({"doc": doc.iter().map(node_json).collect::<Vec<_>>(), "filters": [f.to_json()], "fam": "hint-size"}));
                }
            }
        }
    }
    for st in &h.strs {
        if st.is_empty() || st.len() > 200 {
            continue;
        }
        let mut variants = vec![st.clone(), st.to_uppercase(), st.to_lowercase()];
        variants.dedup();
        for v in &variants {
            let is_ws = v.chars().all(|c| matches!(c, ' ' | '\t' | '\n' | '\r' | '\u{c}'));
            let is_name = v.chars().all(|c| c.is_ascii_alphanumeric()) && v.chars().next().map(|c| c.is_ascii_alphabetic()).unwrap_or(false);
            let quotable = !v.contains('"');
            // as tag white space
            if is_ws {
                let a = format!("{v}class=\"x\"{v}");
                let target = el("main", "main", &a, 'n', vec![txt("in"), el("b", "b", v, 'n', vec![])]);
                emit_skeleton(v, v, target, None, "main", &all, "<ins>V</ins>", "hint-str", emit);
                let st = el("img", "img", &format!("{v}src=x{v}"), 's', vec![]);
                emit_skeleton("", "", st, None, "img", &["replace"], "<i>r</i>", "hint-str", emit);
            }
            // as a tag name (target and path element), lower-cased node name
            if is_name && !["html", "body", "div", "p", "script", "style", "title", "textarea"].contains(&v.to_lowercase().as_str()) {
                let nm = v.to_lowercase();
                let kind = if ["area", "base", "br", "col", "embed", "hr", "img", "input", "link", "meta", "param", "source", "track", "wbr"].contains(&nm.as_str()) { 'v' } else { 'n' };
                let target = el(&nm, v, " k=v", kind, if kind == 'n' { vec![txt("in")] } else { vec![] });
                emit_skeleton("", "", target, None, &nm, &all, "<ins>V</ins>", "hint-str", emit);
            }
            // as attribute text (quoted value, bare key when a name), as text content, as filter value, as comment body
            if quotable && !v.contains('>') {
                let target = el("main", "main", &format!(" t=\"{v}\" u='1'"), 'n', vec![txt("in")]);
                emit_skeleton("", "", target, None, "main", &all, "<ins>V</ins>", "hint-str", emit);
            }
            if !v.contains('<') && !v.contains('&') {
                let target = el("main", "main", "", 'n', vec![txt(v), el("x-mark", "x-mark", "", 'n', vec![]), txt(v)]);
                emit_skeleton("", "", target, None, "main", &all, v, "hint-str", emit);
                let target = el("main", "main", "", 'n', vec![txt("in")]);
                emit_skeleton("", "", target, None, "main", &all, &format!("<ins>{v}</ins>{v}"), "hint-str", emit);
            }
        }
    }
}

fn gen(args: &Args, emit: &mut dyn FnMut(Value)) {
    let mut rng = seeded(args.seed);
    gen_hinted(emit);
    gen_boundary(emit);
    if args.tier == "thorough" {
        gen_exhaustive(emit);
    }
    let mut made = 0;
    let mut attempts = 0;
    while made < args.n && attempts < args.n * 20 {
        attempts += 1;
        let doc = gen_doc(&mut rng);
        let nf = match rng.below(10) {
            0..=4 => 1,
            5..=7 => 2,
            _ => 3,
        };
        let mut cur = doc.clone();
        let mut fs = Vec::new();
        let mut fjs: Vec<Value> = Vec::new();
        let mut ok = true;
        for i in 0..nf {
            let cands = candidate_paths(&cur);
            let action = *rng.pick(&["append_child", "prepend_child", "replace"]);
            let usable: Vec<&(Vec<String>, bool, char)> = cands
                .iter()
                .filter(|(p, rep, kind)| p.len() <= 4 && if action == "replace" { true } else { !*rep && *kind != 'v' && *kind != 's' })
                .collect();
            let path: Vec<String> = if usable.is_empty() || rng.chance(1, 15) {
                if action == "append_child" { vec!["nope".to_string(), "html".to_string()] } else { vec!["html".to_string(), "nope".to_string()] }
            } else {
                // prefer deeper paths and repeated targets
                let mut best = *rng.pick(&usable);
                for _ in 0..2 {
                    let c = *rng.pick(&usable);
                    if c.0.len() > best.0.len() || (c.1 && !best.1) {
                        best = c;
                    }
                }
                best.0.clone()
            };
            let sel = match rng.below(10) {
                0..=2 => None,
                3 => Some(String::new()),
                4 => Some("*".to_string()),
                5 => Some("rio-never".to_string()),
                _ => Some("x-mark".to_string()),
            };
            let mut path = path;
            // element_tree entries in upper / mixed case never match (tag names are lower-cased): a no-op
            if rng.chance(1, 25) {
                let k = rng.below(path.len());
                path[k] = if rng.chance(1, 2) { path[k].to_uppercase() } else { let mut t = path[k].clone(); t[0..1].make_ascii_uppercase(); t };
            }
            let value = if rng.chance(1, 12) { String::new() } else { gen_value(&mut rng, i) };
            let f = FSpec::Html { action: action.to_string(), path, sel, value: value.clone() };
            if in_domain(&cur, &f).is_err() {
                ok = false;
                break;
            }
            edit(&mut cur, &f);
            // the optional fields: inner_value (different from value most of the time), id, target_hash
            let mut fj = f.to_json();
            fj["inner"] = match rng.below(6) {
                0 => Value::Null,
                1 => json!(value),
                2 => json!(""),
                3 => json!(format!("<inner-{i}>NOT THE VALUE</inner-{i}>")),
                4 => json!(format!("{value}<!--inner-->")),
                _ => json!(format!("INNER{i} \u{e9} <b>trace only</b>")),
            };
            fj["id"] = match rng.below(3) {
                0 => Value::Null,
                1 => json!("id"),
                _ => json!(format!("unit-{i}")),
            };
            fj["hash"] = if rng.chance(1, 2) { Value::Null } else { json!(format!("hash-{i}")) };
            fs.push(f);
            fjs.push(fj);
        }
        if !ok {
            continue;
        }
        made += 1;
        emit(json!({"doc": doc.iter().map(node_json).collect::<Vec<_>>(), "filters": fjs}));
    }
}

fn run(case: &Value) -> Obs {
    let mut doc = Vec::new();
    match case.get("doc").and_then(|d| d.as_array()) {
        Some(a) => {
            for n in a {
                match parse_node(n) {
                    Some(x) => doc.push(x),
                    None => return Obs::invalid("doc node"),
                }
            }
        }
        None => return Obs::invalid("doc"),
    }
    let fs = match parse_filters(case) {
        Some(f) => f,
        None => return Obs::invalid("filters"),
    };
    if fs.iter().any(|f| !f.is_html()) {
        return Obs::invalid("C15 is about html filters");
    }
    let mut input = String::new();
    serialize(&doc, &mut input);
    // the reference edit, checking the quantifier before each filter (on the document that filter sees)
    let mut cur = doc.clone();
    let mut acted = 0;
    for f in &fs {
        if let Err(why) = in_domain(&cur, f) {
            return Obs::invalid(&format!("outside the quantifier: {why}"));
        }
        let mut before = String::new();
        serialize(&cur, &mut before);
        edit(&mut cur, f);
        let mut after = String::new();
        serialize(&cur, &mut after);
        if before != after {
            acted += 1;
        }
    }
    let mut expect = String::new();
    serialize(&cur, &mut expect);
    let real = match real_filters(case) {
        Some(f) => f,
        None => return Obs::invalid("filters (optional fields)"),
    };
    // optional response headers (ASCII; no Content-Encoding here: C14): the Content-Type gate, recomputed independently
    let mut headers: Vec<redirectionio::http::Header> = Vec::new();
    if let Some(a) = case.get("headers").and_then(|h| h.as_array()) {
        for h in a {
            match (h.get(0).and_then(|x| x.as_str()), h.get(1).and_then(|x| x.as_str())) {
                (Some(n), Some(v)) if n.is_ascii() && v.is_ascii() && !n.eq_ignore_ascii_case("content-encoding") => {
                    headers.push(redirectionio::http::Header { name: n.to_string(), value: v.to_string() })
                }
                _ => return Obs::invalid("headers"),
            }
        }
    }
    let gate_open = match headers.iter().rev().find(|h| h.name.eq_ignore_ascii_case("content-type")) {
        None => true,
        Some(h) => h.value.to_ascii_lowercase().contains("text/html"),
    };
    if !gate_open {
        expect = input.clone();
        acted = 0;
    }
    let (out, in_error) = run_real(real, input.as_bytes(), &headers);
    let mut o = Obs::new(json!(hex(&out))).trivial(acted == 0 && headers.is_empty());
    if !headers.is_empty() {
        o.tags.push(format!("gate:{}", if gate_open { "open" } else { "closed" }));
    }
    o.tags.push(format!("filters:{}", fs.len()));
    o.tags.push(format!("acted:{acted}"));
    if let Some(arr) = case.get("filters").and_then(|f| f.as_array()) {
        for f in arr {
            let inner = f.get("inner").and_then(|x| x.as_str());
            let value = f.get("value").and_then(|x| x.as_str()).unwrap_or("");
            o.tags.push(format!("inner:{}", match inner { None => "none", Some(x) if x == value => "same", Some(_) => "different" }));
            if value.is_empty() { o.tags.push("value:empty".to_string()); }
            if matches!(f.get("id"), Some(Value::Null)) { o.tags.push("id:none".to_string()); }
            if f.get("hash").map(|h| h.is_string()).unwrap_or(false) { o.tags.push("hash:some".to_string()); }
        }
    }
    for f in &fs {
        if let FSpec::Html { action, path, sel, .. } = f {
            if path.iter().any(|p| p.chars().any(|c| c.is_ascii_uppercase())) { o.tags.push("path:uppercase".to_string()); }
            o.tags.push(format!("act:{action}"));
            o.tags.push(format!("depth:{}", path.len()));
            o.tags.push(format!("sel:{}", match sel.as_deref() {
                None => "none",
                Some("") => "empty",
                Some("*") => "always",
                Some("rio-never") => "never",
                _ => "content",
            }));
            if action == "replace" && count_name(&doc, path.last().unwrap()) > 1 {
                o.tags.push("repeated-siblings".to_string());
            }
        }
    }
    if in_error {
        return o.fail("chain entered its error state on a well-formed document", "error-state");
    }
    if out != expect.as_bytes() {
        return o.fail(format!("output differs from serialize(reference_edit): got {:?} expected {:?}", String::from_utf8_lossy(&out), expect), "edit-differs");
    }
    o
}

fn main() {
    main_with(gen, run);
}
