//! C18 — the C interface keeps ownership and memory contracts: implementation side.
//!
//! The binary installs an AUDITING GLOBAL ALLOCATOR (wrapper around `System`): every allocation is recorded with
//! its `Layout`; `dealloc` / `realloc` check that the pointer is live and that the layout given back equals the
//! recorded one (a pointer that is not live is NOT forwarded to `System`, so a double free is reported instead of
//! corrupting the heap); allocations made while a C entry point runs are tagged with the index of the call, so
//! that what is still live after the caller released everything can be attributed to the call that leaked it.
//!
//! case: {"calls": [Call...], "sizes": {"action","filter","request","hnode","tproxies","tconfig"}}
//!   Call = {"op": .., ..args.., + the values the library produced when the case was generated (oracle
//!   arguments of the model: "ok" (non-NULL), "len" (string length), "out" (bytes produced), "hdrs" ([[name len, value len]..])}
//!   Slots are numbered in creation order; calls name slots by index.  `gen` executes the calls through the REAL
//!   extern "C" functions to fill in the oracle arguments; `run` executes them again and declares the case invalid
//!   ("stale oracle") when the library answers differently, so a shrunk case never feeds the model foreign values.
//!   (`headers` on a NULL action returns the caller's own list: the new slot owns nothing.)
//!   ops: buf_new{bytes,cap} buf_dup{s} buf_read{s} buf_drop{s} filter_null{s}
//!        action_new{json} action_status{s,code} action_log{s,allow,code} action_ser{s} action_drop{s}
//!        headers{a,headers:[[n,v]],code,add} hlist_free{s} filter_new{a,code,headers} filter_feed{f,b} filter_close{f} filter_drop{s}
//!        req_new{via,..} req_addr{s,addr,tp} req_ser{s} req_drop{s} log_json{r,a,headers,code,proxy,time,ip} version{} str_free{s}
//!        tp_new{list} tp_add{s,proxy} hmap_new{headers} (http_headers_to_header_map directly; NUL / empty strings) hmap_read{s}
//! obs:  {"results": [per call: {"slot": i, "owned": [sizes of the allocations the new handle owns, from the audit table],
//!                               "bytes": hex (buffers)} | {"alias": true} | {"read": hex} | null],
//!        "unreleased": [slot..] (before the harness releases the rest), "faults": [..], "leaked": n}
//!   — exactly what the Lean model (Model/Ffi.lean) computes from the same calls.
//! oracles on the implementation (`.fail`): `alloc-fault` (double free / unknown pointer / layout mismatch seen by the
//!   allocator), `leak` (allocations of a non-trusted-proxies call still live after everything was released, in two
//!   consecutive executions), `native-mismatch` (a value returned through the C API differs from the native API:
//!   status code, log decision, serialised action / request / log, filtered headers as a multiset and in reversed order,
//!   filtered body bytes, buffer round trip, duplicate equality).
use redirectionio::action::Action;
use redirectionio::api::Log;
use redirectionio::filter::{Buffer, FilterBodyAction};
use redirectionio::http::{Header, Request};
use rio_harness::*;
use serde_json::{json, Value};
use std::alloc::{GlobalAlloc, Layout, System};
use std::ffi::{CStr, CString};
use std::os::raw::{c_char, c_void};
use std::ptr::{null, null_mut};
use std::sync::atomic::{AtomicBool, AtomicI64, AtomicU32, AtomicUsize, Ordering};

include!("w8_ffi.inc");
include!("w8_common.inc");

// ------------------------------------------------------------------------------------------------
// the auditing allocator

const TABLE_BITS: usize = 20;
const TABLE_SIZE: usize = 1 << TABLE_BITS;
const MAX_CALLS: usize = 96;
const EMPTY: u8 = 0;
const LIVE: u8 = 1;
const FREED: u8 = 2;

#[derive(Clone, Copy)]
struct Entry {
    ptr: usize,
    size: usize,
    align: u32,
    /// 0 = not tracked (harness memory); otherwise (run id << 8) | (call index + 1)
    tag: u32,
    state: u8,
}

#[derive(Clone, Copy, Debug)]
struct FaultRec {
    kind: u8, // 1 double free / not live, 2 layout mismatch
    ptr: usize,
    alloc_size: usize,
    dealloc_size: usize,
    alloc_align: u32,
    dealloc_align: u32,
}

static mut TABLE: [Entry; TABLE_SIZE] = [Entry { ptr: 0, size: 0, align: 0, tag: 0, state: EMPTY }; TABLE_SIZE];
static mut FAULTS: [FaultRec; 16] = [FaultRec { kind: 0, ptr: 0, alloc_size: 0, dealloc_size: 0, alloc_align: 0, dealloc_align: 0 }; 16];
static NFAULTS: AtomicUsize = AtomicUsize::new(0);
static LOCK: AtomicBool = AtomicBool::new(false);
static TRACK: AtomicBool = AtomicBool::new(false);
static RUN_ID: AtomicU32 = AtomicU32::new(1);
static CALL_IDX: AtomicU32 = AtomicU32::new(0);
static LIVE_BY_CALL: [AtomicI64; MAX_CALLS] = [const { AtomicI64::new(0) }; MAX_CALLS];
static USED: AtomicUsize = AtomicUsize::new(0);
/// bytes of the live allocations tagged with the current run (all calls)
static LIVE_TRACKED_BYTES: AtomicI64 = AtomicI64::new(0);
static LIVE_BYTES_BY_CALL: [AtomicI64; MAX_CALLS] = [const { AtomicI64::new(0) }; MAX_CALLS];

struct Audit;

fn lock() {
    while LOCK.compare_exchange_weak(false, true, Ordering::Acquire, Ordering::Relaxed).is_err() {
        std::hint::spin_loop();
    }
}
fn unlock() {
    LOCK.store(false, Ordering::Release);
}

fn hash(p: usize) -> usize {
    ((p >> 4).wrapping_mul(0x9E3779B97F4A7C15)) >> (64 - TABLE_BITS)
}

#[allow(static_mut_refs)]
unsafe fn table() -> &'static mut [Entry; TABLE_SIZE] {
    unsafe { &mut TABLE }
}

unsafe fn find(p: usize) -> Option<usize> {
    let t = unsafe { table() };
    let mut i = hash(p);
    for _ in 0..TABLE_SIZE {
        match t[i].state {
            EMPTY => return None,
            _ if t[i].ptr == p => return Some(i),
            _ => i = (i + 1) & (TABLE_SIZE - 1),
        }
    }
    None
}

unsafe fn record(p: usize, layout: Layout) {
    if p == 0 {
        return;
    }
    let t = unsafe { table() };
    let tag = if TRACK.load(Ordering::Relaxed) {
        let c = CALL_IDX.load(Ordering::Relaxed) as usize;
        if c < MAX_CALLS {
            LIVE_BY_CALL[c].fetch_add(1, Ordering::Relaxed);
            LIVE_BYTES_BY_CALL[c].fetch_add(layout.size() as i64, Ordering::Relaxed);
        }
        LIVE_TRACKED_BYTES.fetch_add(layout.size() as i64, Ordering::Relaxed);
        (RUN_ID.load(Ordering::Relaxed) << 8) | (c as u32 + 1)
    } else {
        0
    };
    let mut i = hash(p);
    let mut free_slot: Option<usize> = None;
    for _ in 0..TABLE_SIZE {
        match t[i].state {
            EMPTY => break,
            _ if t[i].ptr == p => {
                free_slot = Some(i);
                break;
            }
            FREED if free_slot.is_none() => {
                // keep looking for the same pointer further on, but remember the first reusable slot
                free_slot = Some(i);
                i = (i + 1) & (TABLE_SIZE - 1);
            }
            _ => i = (i + 1) & (TABLE_SIZE - 1),
        }
    }
    let slot = match free_slot {
        Some(s) => s,
        None => {
            USED.fetch_add(1, Ordering::Relaxed);
            i
        }
    };
    t[slot] = Entry { ptr: p, size: layout.size(), align: layout.align() as u32, tag, state: LIVE };
}

/// returns true when the block may be given back to System
unsafe fn check_release(p: usize, layout: Layout) -> bool {
    let t = unsafe { table() };
    match unsafe { find(p) } {
        Some(i) if t[i].state == LIVE => {
            if t[i].size != layout.size() || t[i].align != layout.align() as u32 {
                fault(FaultRec { kind: 2, ptr: p, alloc_size: t[i].size, dealloc_size: layout.size(), alloc_align: t[i].align, dealloc_align: layout.align() as u32 });
            }
            let tag = t[i].tag;
            if tag != 0 && (tag >> 8) == RUN_ID.load(Ordering::Relaxed) {
                let c = (tag & 0xff) as usize - 1;
                if c < MAX_CALLS {
                    LIVE_BY_CALL[c].fetch_sub(1, Ordering::Relaxed);
                    LIVE_BYTES_BY_CALL[c].fetch_sub(t[i].size as i64, Ordering::Relaxed);
                }
                LIVE_TRACKED_BYTES.fetch_sub(t[i].size as i64, Ordering::Relaxed);
            }
            t[i].state = FREED;
            true
        }
        Some(i) => {
            fault(FaultRec { kind: 1, ptr: p, alloc_size: t[i].size, dealloc_size: layout.size(), alloc_align: t[i].align, dealloc_align: layout.align() as u32 });
            false
        }
        None => {
            fault(FaultRec { kind: 1, ptr: p, alloc_size: 0, dealloc_size: layout.size(), alloc_align: 0, dealloc_align: layout.align() as u32 });
            false
        }
    }
}

#[allow(static_mut_refs)]
fn fault(f: FaultRec) {
    let n = NFAULTS.fetch_add(1, Ordering::Relaxed);
    if n < 16 {
        unsafe {
            FAULTS[n] = f;
        }
    }
}

unsafe impl GlobalAlloc for Audit {
    unsafe fn alloc(&self, layout: Layout) -> *mut u8 {
        let p = unsafe { System.alloc(layout) };
        lock();
        unsafe { record(p as usize, layout) };
        unlock();
        p
    }
    unsafe fn alloc_zeroed(&self, layout: Layout) -> *mut u8 {
        let p = unsafe { System.alloc_zeroed(layout) };
        lock();
        unsafe { record(p as usize, layout) };
        unlock();
        p
    }
    unsafe fn dealloc(&self, ptr: *mut u8, layout: Layout) {
        lock();
        let ok = unsafe { check_release(ptr as usize, layout) };
        unlock();
        if ok {
            unsafe { System.dealloc(ptr, layout) };
        }
    }
    unsafe fn realloc(&self, ptr: *mut u8, layout: Layout, new_size: usize) -> *mut u8 {
        lock();
        let ok = unsafe { check_release(ptr as usize, layout) };
        unlock();
        if !ok {
            // not ours to move: behave like a fresh allocation
            let nl = Layout::from_size_align(new_size, layout.align()).unwrap();
            return unsafe { self.alloc(nl) };
        }
        let q = unsafe { System.realloc(ptr, layout, new_size) };
        lock();
        if q.is_null() {
            unsafe { record(ptr as usize, layout) };
        } else {
            unsafe { record(q as usize, Layout::from_size_align(new_size, layout.align()).unwrap()) };
        }
        unlock();
        q
    }
}

// Under Miri (`cargo +nightly miri run --bin c18 -- run`, thorough-tier support, see notes/wp/W8.md) the interpreter itself
// checks every allocation, deallocation layout and access: the auditing allocator is left out (its 24 MB table would only
// slow the interpreter down), `owned` sizes are then reported as null and only Miri's own verdict counts.
#[cfg(not(miri))]
#[global_allocator]
static GLOBAL: Audit = Audit;
#[cfg(miri)]
#[allow(dead_code)]
static GLOBAL: Audit = Audit;

/// the recorded size of a live allocation
fn audit_size(p: *const u8) -> Option<usize> {
    if p.is_null() {
        return None;
    }
    lock();
    let r = unsafe { find(p as usize).and_then(|i| if table()[i].state == LIVE { Some(table()[i].size) } else { None }) };
    unlock();
    r
}

/// the call (index in the sequence) during which a live allocation of the current run was made
fn audit_call(p: *const u8) -> Option<usize> {
    if p.is_null() {
        return None;
    }
    lock();
    let r = unsafe {
        find(p as usize).and_then(|i| {
            let e = table()[i];
            if e.state == LIVE && e.tag != 0 && (e.tag >> 8) == RUN_ID.load(Ordering::Relaxed) { Some((e.tag & 0xff) as usize - 1) } else { None }
        })
    };
    unlock();
    r
}

fn begin_run() {
    RUN_ID.fetch_add(1, Ordering::Relaxed);
    for c in LIVE_BY_CALL.iter() {
        c.store(0, Ordering::Relaxed);
    }
    for c in LIVE_BYTES_BY_CALL.iter() {
        c.store(0, Ordering::Relaxed);
    }
    LIVE_TRACKED_BYTES.store(0, Ordering::Relaxed);
    NFAULTS.store(0, Ordering::Relaxed);
}

#[allow(static_mut_refs)]
fn faults() -> Vec<String> {
    let n = NFAULTS.load(Ordering::Relaxed).min(16);
    (0..n)
        .map(|i| {
            let f = unsafe { FAULTS[i] };
            match f.kind {
                2 => format!("layout mismatch: allocated size {} align {}, released with size {} align {}", f.alloc_size, f.alloc_align, f.dealloc_size, f.dealloc_align),
                _ => format!("release of a pointer that is not live (double free or foreign pointer), size {}", f.dealloc_size),
            }
        })
        .collect()
}

/// run `f` as call number `idx` of the sequence with allocation tracking on
fn tracked<T>(idx: usize, f: impl FnOnce() -> T) -> T {
    CALL_IDX.store(idx.min(MAX_CALLS - 1) as u32, Ordering::Relaxed);
    TRACK.store(true, Ordering::Relaxed);
    let r = f();
    TRACK.store(false, Ordering::Relaxed);
    r
}

// ------------------------------------------------------------------------------------------------
// generator

const ACTIONS: &[&str] = &[
    // redirect + Location + text body filter
    r#"{"status_code_update":{"status_code":301,"on_response_status_codes":[],"exclude_response_status_codes":false,"fallback_status_code":0,"rule_id":"r","fallback_rule_id":null,"unit_id":null,"target_hash":null},"header_filters":[{"filter":{"action":"override","header":"Location","value":"/t","id":null,"target_hash":null},"on_response_status_codes":[],"exclude_response_status_codes":false,"rule_id":"r"}],"body_filters":[{"filter":{"action":"append_text","content":"<!--x-->","id":null,"target_hash":null},"on_response_status_codes":[],"exclude_response_status_codes":false,"rule_id":"r"}],"rule_ids":["r"],"rule_traces":[],"rules_applied":[],"log_override":null}"#,
    // header filters only, conditional on 404, log override
    r#"{"status_code_update":null,"header_filters":[{"filter":{"action":"add","header":"X-A","value":"é","id":null,"target_hash":null},"on_response_status_codes":[404],"exclude_response_status_codes":false,"rule_id":"a"},{"filter":{"action":"remove","header":"x-b","value":"","id":null,"target_hash":null},"on_response_status_codes":[],"exclude_response_status_codes":false,"rule_id":"b"}],"body_filters":[],"rule_ids":["a","b"],"rule_traces":[{"id":"a","on_response_status_codes":[404],"exclude_response_status_codes":false}],"rules_applied":[],"log_override":{"log_override":false,"rule_id":"a","on_response_status_codes":[],"exclude_response_status_codes":false,"fallback_log_override":null,"fallback_rule_id":null,"unit_id":null}}"#,
    // html body filter + replace text
    r#"{"status_code_update":null,"header_filters":[],"body_filters":[{"filter":{"action":"append_child","value":"<p>x</p>","inner_value":"<p>x</p>","element_tree":["html","body"],"css_selector":null,"id":null,"target_hash":null},"on_response_status_codes":[],"exclude_response_status_codes":false,"rule_id":"h"},{"filter":{"action":"prepend_text","content":"é","id":null,"target_hash":null},"on_response_status_codes":[200],"exclude_response_status_codes":false,"rule_id":"t"}],"rule_ids":["h","t"],"rule_traces":[],"rules_applied":[],"log_override":null}"#,
    // header filters whose name / value carry a NUL byte (one of the two, both) or are empty: the C strings of the result
    r#"{"status_code_update":null,"header_filters":[{"filter":{"action":"add","header":"X\u0000N","value":"v","id":null,"target_hash":null},"on_response_status_codes":[],"exclude_response_status_codes":false,"rule_id":"n"},{"filter":{"action":"add","header":"X-V","value":"a\u0000b","id":null,"target_hash":null},"on_response_status_codes":[],"exclude_response_status_codes":false,"rule_id":"n"},{"filter":{"action":"add","header":"\u0000","value":"\u0000","id":null,"target_hash":null},"on_response_status_codes":[],"exclude_response_status_codes":false,"rule_id":"n"},{"filter":{"action":"add","header":"","value":"","id":null,"target_hash":null},"on_response_status_codes":[],"exclude_response_status_codes":false,"rule_id":"n"},{"filter":{"action":"add","header":"X-E","value":"","id":null,"target_hash":null},"on_response_status_codes":[],"exclude_response_status_codes":false,"rule_id":"n"},{"filter":{"action":"override","header":"","value":"x","id":null,"target_hash":null},"on_response_status_codes":[],"exclude_response_status_codes":false,"rule_id":"n"}],"body_filters":[],"rule_ids":["n"],"rule_traces":[],"rules_applied":[],"log_override":null}"#,
    // the empty action
    r#"{"status_code_update":null,"header_filters":[],"body_filters":[],"rule_ids":[],"rule_traces":[],"rules_applied":[],"log_override":null}"#,
    // not an action
    r#"{"status_code_update":"#,
    "",
    "\u{e9}",
];
const BODIES: &[&str] = &["", "a", "<html><head></head><body><p>a</p></body></html>", "<html><body>caf", "é</body></html>", "\u{0}x", "plain text é"];
const HNAMES: &[&str] = &["Location", "X-A", "x-b", "Content-Type", "Content-Encoding", "X-É", ""];
const HVALUES: &[&str] = &["", "v", "text/html", "gzip", "é", "a b"];

#[derive(Clone, Copy, PartialEq)]
enum K {
    Buf,
    Str,
    Action,
    Filter,
    Request,
    Hlist,
    Tp,
}

fn gen_headers(rng: &mut Prng) -> Value {
    Value::Array((0..rng.below(4)).map(|_| json!([*rng.pick(HNAMES), *rng.pick(HVALUES)])).collect())
}

fn gen_calls(rng: &mut Prng, small: bool) -> Vec<Value> {
    // the generator follows the caller protocol: (kind, released)
    let mut slots: Vec<(K, bool)> = Vec::new();
    let mut calls: Vec<Value> = Vec::new();
    let n = rng.below(24) + 2;
    // most sequences start with an action (usually a valid one), a body filter and a buffer
    if rng.chance(3, 4) {
        // the action whose header filters carry NUL bytes (index 3: known finding header-nul-null-pointer) is drawn rarely
        let pool = if rng.chance(4, 5) { 3 } else if rng.chance(1, 3) { 4 } else { ACTIONS.len() };
        calls.push(json!({"op": "action_new", "json": ACTIONS[rng.below(pool)]}));
        slots.push((K::Action, false));
        if rng.chance(2, 3) {
            calls.push(json!({"op": "filter_new", "a": 0, "code": *rng.pick(&[200u32, 404]), "headers": gen_headers(rng)}));
            slots.push((K::Filter, false));
        }
    }
    let pick = |rng: &mut Prng, slots: &Vec<(K, bool)>, k: K| -> Option<usize> {
        let c: Vec<usize> = slots.iter().enumerate().filter(|(_, s)| s.0 == k && !s.1).map(|(i, _)| i).collect();
        if c.is_empty() {
            None
        } else {
            Some(*rng.pick(&c))
        }
    };
    for _ in 0..n {
        if calls.len() + slots.len() + 4 >= MAX_CALLS {
            break;
        }
        match rng.below(24) {
            0 | 1 | 2 => {
                let bytes: Vec<u8> = match rng.below(6) {
                    0 => vec![],
                    1 => vec![rng.below(256) as u8],
                    2 => vec![b'x'; if small { 300 } else { 70000 } + rng.below(1000)],
                    _ => rng.pick(BODIES).as_bytes().to_vec(),
                };
                let cap = match rng.below(4) {
                    0 => 0,
                    1 => bytes.len() + 1,
                    2 => bytes.len() * 2 + 17,
                    _ => bytes.len(),
                };
                calls.push(json!({"op": "buf_new", "bytes": hex(&bytes), "cap": cap}));
                slots.push((K::Buf, false));
            }
            3 => {
                if let Some(s) = pick(rng, &slots, K::Buf) {
                    calls.push(json!({"op": if rng.chance(1, 2) { "buf_dup" } else { "filter_null" }, "s": s}));
                    slots.push((K::Buf, false));
                }
            }
            4 => {
                if let Some(s) = pick(rng, &slots, K::Buf) {
                    calls.push(json!({"op": "buf_read", "s": s}));
                }
                if let Some(s) = pick(rng, &slots, K::Hlist) {
                    calls.push(json!({"op": "hmap_read", "s": s}));
                }
            }
            5 => {
                if let Some(s) = pick(rng, &slots, K::Buf) {
                    calls.push(json!({"op": "buf_drop", "s": s}));
                    slots[s].1 = true;
                }
            }
            6 | 7 => {
                calls.push(json!({"op": "action_new", "json": *rng.pick(ACTIONS)}));
                slots.push((K::Action, false));
            }
            8 => {
                if let Some(s) = pick(rng, &slots, K::Action) {
                    calls.push(if rng.chance(1, 2) {
                        json!({"op": "action_status", "s": s, "code": *rng.pick(&[0u32, 200, 404])})
                    } else {
                        json!({"op": "action_log", "s": s, "allow": rng.chance(1, 2), "code": *rng.pick(&[0u32, 200, 404])})
                    });
                }
            }
            9 => {
                if let Some(s) = pick(rng, &slots, K::Action) {
                    calls.push(json!({"op": "action_ser", "s": s}));
                    slots.push((K::Str, false));
                }
            }
            10 | 11 => {
                if let Some(a) = pick(rng, &slots, K::Action) {
                    calls.push(json!({"op": "headers", "a": a, "headers": gen_headers(rng), "code": *rng.pick(&[200u32, 301, 404]), "add": rng.chance(1, 2)}));
                    // a NULL action gives the caller's list back: the executor decides whether a slot is created; the
                    // generator learns it from the oracle pass (see `fill`)
                    slots.push((K::Hlist, false));
                }
            }
            12 | 13 => {
                if let Some(a) = pick(rng, &slots, K::Action) {
                    calls.push(json!({"op": "filter_new", "a": a, "code": *rng.pick(&[200u32, 404]), "headers": gen_headers(rng)}));
                    slots.push((K::Filter, false));
                }
            }
            14 | 15 => {
                if let (Some(f), Some(b)) = (pick(rng, &slots, K::Filter), pick(rng, &slots, K::Buf)) {
                    calls.push(json!({"op": "filter_feed", "f": f, "b": b}));
                    // consumed when the filter is non-NULL (the generator cannot know): never touch it again; if it was
                    // not consumed the executor releases it at the end
                    slots[b].1 = true;
                    slots.push((K::Buf, false));
                }
            }
            16 => {
                if let Some(f) = pick(rng, &slots, K::Filter) {
                    calls.push(json!({"op": if rng.chance(3, 4) { "filter_close" } else { "filter_drop" }, "s": f, "f": f}));
                    slots[f].1 = true;
                    if calls.last().unwrap()["op"] == "filter_close" {
                        slots.push((K::Buf, false));
                    }
                }
            }
            17 => {
                calls.push(match rng.below(3) {
                    0 => json!({"op": "req_new", "via": "from_str", "url": *rng.pick(&["http://example.org/a?b=c", "/x", "", "http://[::1", "/é"])}),
                    1 => json!({"op": "req_new", "via": "create", "uri": "/a?utm_source=x&b=1", "host": "example.org", "scheme": "https", "method": "GET", "headers": gen_headers(rng)}),
                    _ => json!({"op": "req_new", "via": "json", "json": *rng.pick(&[r#"{"path_and_query":{"path_and_query":"/a","path_and_query_matching":"/a","skipped_query_params":null,"original":"/a"},"path_and_query_v2":"/a","host":"h","scheme":"http","method":"GET","headers":[{"name":"X","value":"y"}],"remote_addr":"10.0.0.1","created_at":"2020-01-01T00:00:00Z","sampling_override":null}"#, "{", ""])}),
                });
                slots.push((K::Request, false));
            }
            18 => {
                if let Some(r) = pick(rng, &slots, K::Request) {
                    match rng.below(3) {
                        0 => {
                            calls.push(json!({"op": "req_ser", "s": r}));
                            slots.push((K::Str, false));
                        }
                        1 => {
                            let tp = pick(rng, &slots, K::Tp);
                            calls.push(json!({"op": "req_addr", "s": r, "addr": *rng.pick(&["10.1.2.3", "127.0.0.1:80", "bad", "::1"]), "tp": tp}));
                        }
                        _ => {
                            let a = pick(rng, &slots, K::Action);
                            calls.push(json!({"op": "log_json", "r": r, "a": a, "headers": gen_headers(rng), "code": 200, "proxy": "p", "time": 1000, "ip": *rng.pick(&["10.0.0.1", "bad"])}));
                            slots.push((K::Str, false));
                        }
                    }
                }
            }
            19 => {
                if rng.chance(1, 2) {
                    calls.push(json!({"op": "version"}));
                    slots.push((K::Str, false));
                } else {
                    // Rust -> C conversion of arbitrary headers: NUL in the name, in the value, in both, in neither; empty strings
                    const N: &[&str] = &["X-A", "", "X\u{0}", "\u{0}", "é", "a\u{0}b\u{0}", "Set-Cookie"];
                    const V: &[&str] = &["v", "", "\u{0}", "a\u{0}b", "é日", "x\u{0}"];
                    // NUL-carrying strings (known finding header-nul-null-pointer) in a quarter of these conversions only
                    let with_nul = rng.chance(1, 4);
                    let hs: Vec<Value> = (0..rng.below(5)).map(|_| json!([*rng.pick(N), *rng.pick(V)])).map(|h| if with_nul { h } else { json!([h[0].as_str().unwrap().replace('\0', ""), h[1].as_str().unwrap().replace('\0', "")]) }).collect();
                    calls.push(json!({"op": "hmap_new", "headers": hs}));
                    slots.push((K::Hlist, false));
                }
            }
            20 => {
                if rng.chance(1, 3) {
                    calls.push(json!({"op": "tp_new", "list": *rng.pick(&["10.0.0.0/8, 127.0.0.1", "", "bad,,"])}));
                    slots.push((K::Tp, false));
                } else if let Some(t) = pick(rng, &slots, K::Tp) {
                    calls.push(json!({"op": "tp_add", "s": t, "proxy": *rng.pick(&["192.168.0.0/16", "bad"])}));
                }
            }
            _ => {
                // release something
                let live: Vec<usize> = slots.iter().enumerate().filter(|(_, s)| !s.1 && s.0 != K::Tp).map(|(i, _)| i).collect();
                if !live.is_empty() {
                    let s = *rng.pick(&live);
                    let op = match slots[s].0 {
                        K::Buf => "buf_drop",
                        K::Str => "str_free",
                        K::Action => "action_drop",
                        K::Filter => "filter_drop",
                        K::Request => "req_drop",
                        K::Hlist => "hlist_free",
                        K::Tp => unreachable!(),
                    };
                    calls.push(json!({"op": op, "s": s}));
                    slots[s].1 = true;
                }
            }
        }
    }
    calls
}

/// Diff-directed block (VERIF_HINTS): hinted strings as header names / values, action contents, urls, proxy lists, payloads;
/// hinted sizes as buffer lengths and capacities, numbers of headers, numbers of calls.
fn gen_hinted(h: &Hints) -> Vec<Vec<Value>> {
    let mut seqs: Vec<Vec<Value>> = Vec::new();
    for t in w8_hint_strs(h) {
        let t = t.as_str();
        let action = json!({"status_code_update": null, "header_filters": [{"filter": {"action": "add", "header": t, "value": t, "id": null, "target_hash": null}, "on_response_status_codes": [], "exclude_response_status_codes": false, "rule_id": t},
            {"filter": {"action": "override", "header": "X", "value": format!("{t}\u{0}{t}"), "id": null, "target_hash": null}, "on_response_status_codes": [], "exclude_response_status_codes": false, "rule_id": "r"}],
            "body_filters": [{"filter": {"action": "append_text", "content": t, "id": null, "target_hash": null}, "on_response_status_codes": [], "exclude_response_status_codes": false, "rule_id": "r"}],
            "rule_ids": [t], "rule_traces": [], "rules_applied": [], "log_override": null}).to_string();
        seqs.push(vec![
            json!({"op": "action_new", "json": action}),
            json!({"op": "headers", "a": 0, "headers": [[t, t], ["X", t]], "code": 200, "add": true}),
            json!({"op": "hmap_read", "s": 1}),
            json!({"op": "filter_new", "a": 0, "code": 200, "headers": [["Content-Type", t], ["Content-Encoding", t]]}),
            json!({"op": "buf_new", "bytes": hex(t.as_bytes()), "cap": t.len() + 1}),
            json!({"op": "filter_feed", "f": 2, "b": 3}),
            json!({"op": "filter_close", "f": 2}),
            json!({"op": "action_ser", "s": 0}),
            json!({"op": "hmap_new", "headers": [[t, t], [format!("{t}\u{0}"), t], [t, format!("\u{0}{t}")], ["", t], [t, ""]]}),
            json!({"op": "hmap_read", "s": 7}),
            json!({"op": "req_new", "via": "from_str", "url": t}),
            json!({"op": "req_new", "via": "create", "uri": t, "host": t, "scheme": t, "method": t, "headers": [[t, t]]}),
            json!({"op": "tp_new", "list": t}),
            json!({"op": "req_addr", "s": 9, "addr": t, "tp": 10}),
            json!({"op": "log_json", "r": 9, "a": 0, "headers": [["Forwarded", t]], "code": 200, "proxy": t, "time": 1, "ip": t}),
            json!({"op": "action_new", "json": t}),
        ]);
    }
    for n in h.sizes(150_000) {
        for cap in [n.saturating_sub(1), n, n + 1, 2 * n] {
            seqs.push(vec![json!({"op": "buf_new", "bytes": hex(&vec![b'x'; n]), "cap": cap}), json!({"op": "buf_dup", "s": 0}), json!({"op": "filter_null", "s": 1}), json!({"op": "buf_read", "s": 2}), json!({"op": "buf_drop", "s": 0})]);
        }
        let k = n.min(300);
        let hs: Vec<Value> = (0..k).map(|i| json!([format!("H{i}"), "v".repeat(i % 7)])).collect();
        seqs.push(vec![json!({"op": "action_new", "json": ACTIONS[1]}), json!({"op": "headers", "a": 0, "headers": hs.clone(), "code": 404, "add": true}), json!({"op": "hmap_new", "headers": hs}), json!({"op": "hmap_read", "s": 2}), json!({"op": "hlist_free", "s": 1})]);
        seqs.push((0..n.min(80)).map(|_| json!({"op": "version"})).collect());
        seqs.push(vec![json!({"op": "action_new", "json": ACTIONS[0]}), json!({"op": "filter_new", "a": 0, "code": 200, "headers": []}), json!({"op": "buf_new", "bytes": hex(&vec![b'<'; n.min(100_000)]), "cap": n}), json!({"op": "filter_feed", "f": 1, "b": 2}), json!({"op": "filter_close", "f": 1})]);
    }
    seqs
}

fn gen(args: &Args, emit: &mut dyn FnMut(Value)) {
    let mut rng = Prng::new(args.seed);
    let h = hints();
    if !h.is_empty() {
        for calls in gen_hinted(&h) {
            w8_watchdog::arm(60);
            if let Ok(ex) = execute(&json!({"calls": calls}), true) {
                emit(json!({"calls": ex.filled, "sizes": ex.sizes}));
            }
        }
    }
    // fixed family of the known finding header-nul-null-pointer: a header filter whose value / name / both carry an interior NUL
    // (JSON escape: the NUL reaches the library un-stripped), through the C API and read back
    for (header, value) in [("X", "a\u{0}b"), ("X\u{0}Y", "v"), ("\u{0}", "\u{0}")] {
        let action = json!({"status_code_update": null, "header_filters": [{"filter": {"action": "add", "header": header, "value": value, "id": null, "target_hash": null}, "on_response_status_codes": [], "exclude_response_status_codes": false, "rule_id": "r"}],
            "body_filters": [], "rule_ids": ["r"], "rule_traces": [], "rules_applied": [], "log_override": null}).to_string();
        let calls = vec![json!({"op": "action_new", "json": action}), json!({"op": "headers", "a": 0, "headers": [["Keep", "1"]], "code": 200, "add": false}), json!({"op": "hmap_read", "s": 1}), json!({"op": "hlist_free", "s": 1}), json!({"op": "action_drop", "s": 0})];
        if let Ok(ex) = execute(&json!({"calls": calls}), true) {
            emit(json!({"calls": ex.filled, "sizes": ex.sizes}));
        }
    }
    for _ in 0..args.n {
        // generate, then let the real library fill in what it produced; a sequence the executor refuses
        // (the generator's bookkeeping of slots is approximate where NULL results change the protocol) is re-drawn
        for _attempt in 0..20 {
            // `--tier miri`: the generator itself runs under the interpreter (tools/miri_c18.sh): no 70 kB payloads
            let calls = gen_calls(&mut rng, args.tier == "miri");
            let case = json!({"calls": calls});
            if let Ok(ex) = execute(&case, true) {
                emit(json!({"calls": ex.filled, "sizes": ex.sizes}));
                break;
            }
        }
    }
}

// ------------------------------------------------------------------------------------------------
// executor

enum H {
    Buf(CBuffer),
    Str(*const c_char),
    Action(*mut Action, Option<Box<Action>>),
    Filter(*mut FilterBodyAction, Option<Box<FilterBodyAction>>),
    Request(*mut Request, Option<Box<Request>>),
    Hlist(*const CHeaderMap),
    /// the caller's own list, given back by `header_filter_filter(NULL action, list)`: never to be freed as a result
    Alias,
    Tp(*const CTrustedProxies),
}

struct Slot {
    h: H,
    released: bool,
}

struct Exec {
    filled: Vec<Value>,
    sizes: Value,
    results: Vec<Value>,
    unreleased: Vec<usize>,
    faults: Vec<String>,
    leaked: i64,
    leak_detail: String,
    mismatches: Vec<String>,
    /// nodes of returned header lists with a NULL name / value pointer for a native header carrying an interior NUL
    nul_nodes: Vec<String>,
    tags: Vec<String>,
}

struct CList {
    /// C strings owned by this list, as raw pointers (`CString::into_raw`): a `CString` must not be moved after its
    /// pointer was taken (Stacked Borrows), so the list keeps the raw pointers and frees them in `drop`
    strings: Vec<*mut c_char>,
    nodes: Vec<Box<CHeaderMap>>,
}

impl CList {
    /// a caller-owned header list in the given order
    fn new(headers: &[(String, String)]) -> CList {
        let mut l = CList { strings: Vec::new(), nodes: Vec::new() };
        for (n, v) in headers {
            let cn = CString::new(n.replace('\0', "")).unwrap().into_raw();
            let cv = CString::new(v.replace('\0', "")).unwrap().into_raw();
            l.strings.push(cn);
            l.strings.push(cv);
            l.nodes.push(Box::new(CHeaderMap { name: cn, value: cv, next: null_mut() }));
        }
        // link through raw pointers taken once, after the boxes are in place
        let ptrs: Vec<*mut CHeaderMap> = l.nodes.iter_mut().map(|n| &mut **n as *mut CHeaderMap).collect();
        for i in 0..ptrs.len() {
            let next = if i + 1 < ptrs.len() { ptrs[i + 1] } else { null_mut() };
            let p = ptrs[i];
            unsafe { (*p).next = next };
        }
        l
    }
    fn head(&self) -> *const CHeaderMap {
        self.nodes.first().map(|n| &**n as *const CHeaderMap).unwrap_or(null())
    }
}

impl Drop for CList {
    fn drop(&mut self) {
        for p in self.strings.drain(..) {
            drop(unsafe { CString::from_raw(p) });
        }
    }
}

/// header pairs as a C caller can pass them: C strings cannot contain NUL, so NUL bytes are removed HERE, once, and both the C
/// list and the native twin see the same text
fn pairs(v: &Value, k: &str) -> Vec<(String, String)> {
    pairs_raw(v, k).into_iter().map(|(n, v)| (n.replace('\0', ""), v.replace('\0', ""))).collect()
}

/// header pairs as Rust strings (may contain NUL): only for the Rust -> C conversion `hmap_new`
fn pairs_raw(v: &Value, k: &str) -> Vec<(String, String)> {
    v.get(k)
        .and_then(|x| x.as_array())
        .map(|a| a.iter().filter_map(|p| Some((p.get(0)?.as_str()?.to_string(), p.get(1)?.as_str()?.to_string()))).collect())
        .unwrap_or_default()
}

fn to_headers(p: &[(String, String)]) -> Vec<Header> {
    p.iter().map(|(n, v)| Header { name: n.clone(), value: v.clone() }).collect()
}

/// the nodes of a C header list in list order: (name, value, node); a NULL string pointer is `None`
unsafe fn read_hlist(mut h: *const CHeaderMap) -> Vec<(Option<String>, Option<String>, *const CHeaderMap)> {
    let mut out = Vec::new();
    while !h.is_null() {
        let node = unsafe { &*h };
        let rd = |p: *const c_char| if p.is_null() { None } else { Some(unsafe { CStr::from_ptr(p) }.to_string_lossy().to_string()) };
        out.push((rd(node.name), rd(node.value), h));
        h = node.next;
    }
    out
}

/// Audit of a header list the library handed out, against the native headers it was built from (Rust order):
/// the C list is the reversed list; a string with an interior NUL is a NULL pointer, every other string is equal;
/// every node / name / value pointer is a distinct allocation made during call `ci` (no shared statics).
/// Returns the oracle argument `hdrs` ([[name len | null, value len | null] ..] in Rust order) and the owned pointers.
fn audit_hlist(ci: usize, got: &[(Option<String>, Option<String>, *const CHeaderMap)], want: &[Header], mism: &mut Vec<String>, nul: &mut Vec<String>) -> (Value, Vec<*const u8>) {
    let mut want_rev: Vec<&Header> = want.iter().collect();
    want_rev.reverse();
    if got.len() != want_rev.len() {
        mism.push(format!("call {ci}: header list has {} nodes, the native result {} headers", got.len(), want_rev.len()));
    }
    for ((n, v, _), w) in got.iter().zip(want_rev.iter()) {
        let exp = |x: &str| if x.contains('\0') { None } else { Some(x.to_string()) };
        if *n != exp(&w.name) || *v != exp(&w.value) {
            mism.push(format!("call {ci}: header node ({:?}, {:?}) for the native header ({:?}, {:?})", n, v, w.name, w.value));
        } else if n.is_none() || v.is_none() {
            // exactly the known finding header-nul-null-pointer: the native header has an interior NUL, the node carries a NULL
            // `name` / `value` pointer (never dereferenced here: read_hlist maps NULL to None) and the header is lost on the way back
            nul.push(format!("call {ci}: the native header ({:?}, {:?}) is returned as a node with name {} / value {}", w.name, w.value,
                if n.is_none() { "NULL" } else { "set" }, if v.is_none() { "NULL" } else { "set" }));
        }
    }
    let mut ptrs: Vec<*const u8> = Vec::new();
    for (_, _, node) in got {
        let nd = unsafe { &**node };
        ptrs.push(*node as *const u8);
        ptrs.push(nd.name as *const u8);
        ptrs.push(nd.value as *const u8);
    }
    let nonnull: Vec<*const u8> = ptrs.iter().cloned().filter(|p| !p.is_null()).collect();
    for (i, p) in nonnull.iter().enumerate() {
        if nonnull[..i].contains(p) {
            mism.push(format!("call {ci}: two pointers of the header list are the same allocation"));
        }
        if audit_call(*p) != Some(ci) {
            mism.push(format!("call {ci}: a pointer of the header list is not an allocation made by this call (static or foreign memory)"));
        }
    }
    let hdrs: Vec<Value> = got.iter().rev().map(|(n, v, _)| json!([n.as_ref().map(|x| x.len()), v.as_ref().map(|x| x.len())])).collect();
    (Value::Array(hdrs), ptrs)
}

/// The caller frees a C string the library handed out — only if it really is a live heap allocation: a pointer into
/// static or foreign memory must not be passed to `CString::from_raw` (its Drop writes to the first byte).
unsafe fn free_cstr_checked(p: *const c_char, what: &str, mism: &mut Vec<String>) {
    if p.is_null() {
        return;
    }
    if audit_size(p as *const u8).is_none() && !cfg!(miri) {
        mism.push(format!("{what}: the pointer handed out is not a live heap allocation (static or foreign memory): not freed"));
        return;
    }
    drop(unsafe { CString::from_raw(p as *mut c_char) });
}

unsafe fn free_hlist_checked(h: *const CHeaderMap, what: &str, mism: &mut Vec<String>) {
    let mut cur = h;
    while !cur.is_null() {
        if audit_size(cur as *const u8).is_none() && !cfg!(miri) {
            mism.push(format!("{what}: a node of the header list is not a live heap allocation: not freed"));
            return;
        }
        let node = unsafe { Box::from_raw(cur as *mut CHeaderMap) };
        unsafe {
            free_cstr_checked(node.name, what, mism);
            free_cstr_checked(node.value, what, mism);
        }
        cur = node.next;
    }
}

fn cbuf(b: Buffer) -> CBuffer {
    unsafe { std::mem::transmute::<Buffer, CBuffer>(b) }
}

unsafe fn cbuf_bytes(b: &CBuffer) -> Vec<u8> {
    if b.data.is_null() || b.len == 0 {
        Vec::new()
    } else {
        unsafe { std::slice::from_raw_parts(b.data, b.len) }.to_vec()
    }
}

fn strip(v: &str, keys: &[&str]) -> Value {
    let mut j: Value = serde_json::from_str(v).unwrap_or(Value::Null);
    if let Some(o) = j.as_object_mut() {
        for k in keys {
            o.remove(*k);
        }
    }
    j
}

/// Executes the calls through the real C API once (tracked), after validating the caller protocol.
/// `fill = true`: write the oracle arguments into the calls; `false`: compare them (Err("stale oracle")).
fn execute(case: &Value, fill: bool) -> Result<Exec, String> {
    let calls: Vec<Value> = case.get("calls").and_then(|c| c.as_array()).cloned().ok_or("calls")?;
    if calls.len() >= MAX_CALLS - 2 {
        return Err("too many calls".into());
    }
    let mut ex = Exec { filled: Vec::new(), sizes: Value::Null, results: Vec::new(), unreleased: Vec::new(), faults: Vec::new(), leaked: 0, leak_detail: String::new(), mismatches: Vec::new(), nul_nodes: Vec::new(), tags: Vec::new() };
    let mut slots: Vec<Slot> = Vec::new();
    let mut tp_calls: Vec<usize> = Vec::new();
    // requests whose remote address was set through the C API (the twin is not updated: trusted-proxies is not a
    // dependency of the harness), so `remote_addr` is left out of their comparison
    let mut addr_touched: Vec<usize> = Vec::new();
    // (slot, creating call) of the lists made by http_headers_to_header_map: per-call leak accounting
    let mut hmap_calls: Vec<(usize, usize)> = Vec::new();
    let mut tconfig_size: usize = 0;
    begin_run();

    // protocol validation helpers (never execute a call the protocol forbids: that would be undefined behaviour)
    macro_rules! slot {
        ($c:expr, $key:expr) => {{
            let i = $c.get($key).and_then(|x| x.as_u64()).ok_or("slot index")? as usize;
            if i >= slots.len() || slots[i].released {
                return Err("protocol: slot missing or already released".into());
            }
            i
        }};
    }
    let owned_sizes = |ptrs: &[*const u8]| -> Value { Value::Array(ptrs.iter().map(|p| json!(audit_size(*p))).collect()) };

    for (ci, call) in calls.iter().enumerate() {
        let op = s(call, "op").ok_or("op")?;
        let mut filled = call.clone();
        let mut result = Value::Null;
        // oracle argument bookkeeping
        let mut oracle: Vec<(&str, Value)> = Vec::new();
        match op.as_str() {
            "buf_new" => {
                let bytes = s(call, "bytes").and_then(|h| unhex(&h)).ok_or("bytes")?;
                let cap = call.get("cap").and_then(|x| x.as_u64()).ok_or("cap")? as usize;
                if bytes.len() > 200_000 || cap > 1_000_000 {
                    return Err("too large".into());
                }
                let b = tracked(ci, || {
                    let mut v: Vec<u8> = Vec::with_capacity(cap.max(bytes.len()));
                    v.extend_from_slice(&bytes);
                    cbuf(Buffer::from_vec(v))
                });
                if unsafe { cbuf_bytes(&b) } != bytes {
                    ex.mismatches.push(format!("call {ci}: Buffer::from_vec does not hold the bytes"));
                }
                result = json!({"slot": slots.len(), "owned": if b.data.is_null() { json!([]) } else { owned_sizes(&[b.data]) }, "bytes": hex(&bytes)});
                slots.push(Slot { h: H::Buf(b), released: false });
            }
            "buf_dup" | "filter_null" => {
                let i = slot!(call, "s");
                let src = match &slots[i].h {
                    H::Buf(b) => *b,
                    _ => return Err("protocol: kind".into()),
                };
                let d = tracked(ci, || unsafe {
                    if op == "buf_dup" {
                        cbuf(std::mem::transmute::<CBuffer, std::mem::ManuallyDrop<Buffer>>(src).duplicate())
                    } else {
                        redirectionio_action_body_filter_filter(null_mut(), src)
                    }
                });
                let (a, b) = unsafe { (cbuf_bytes(&src), cbuf_bytes(&d)) };
                if a != b {
                    ex.mismatches.push(format!("call {ci}: duplicate differs from the original"));
                }
                if !d.data.is_null() && d.data == src.data {
                    ex.mismatches.push(format!("call {ci}: duplicate aliases the original"));
                }
                result = json!({"slot": slots.len(), "owned": if d.data.is_null() { json!([]) } else { owned_sizes(&[d.data]) }, "bytes": hex(&b)});
                slots.push(Slot { h: H::Buf(d), released: false });
            }
            "buf_read" => {
                let i = slot!(call, "s");
                let src = match &slots[i].h {
                    H::Buf(b) => *b,
                    _ => return Err("protocol: kind".into()),
                };
                let v = tracked(ci, || unsafe { std::mem::transmute::<CBuffer, std::mem::ManuallyDrop<Buffer>>(src).to_vec() });
                result = json!({"read": hex(&v)});
            }
            "buf_drop" => {
                let i = slot!(call, "s");
                let b = match &slots[i].h {
                    H::Buf(b) => *b,
                    _ => return Err("protocol: kind".into()),
                };
                tracked(ci, || unsafe { redirectionio_api_buffer_drop(b) });
                slots[i].released = true;
            }
            "action_new" => {
                let js = s(call, "json").ok_or("json")?.replace('\0', "");
                let c = CString::new(js.clone()).unwrap();
                let a = tracked(ci, || unsafe { redirectionio_action_json_deserialize(c.as_ptr() as *mut c_char) }) as *mut Action;
                let twin: Option<Box<Action>> = serde_json::from_str::<Action>(&js).ok().map(Box::new);
                if a.is_null() != twin.is_none() {
                    ex.mismatches.push(format!("call {ci}: action_json_deserialize NULL={} but serde ok={}", a.is_null(), twin.is_some()));
                }
                oracle.push(("ok", json!(!a.is_null())));
                result = json!({"slot": slots.len(), "owned": if a.is_null() { json!([]) } else { owned_sizes(&[a as *const u8]) }});
                slots.push(Slot { h: H::Action(a, twin), released: false });
            }
            "action_status" | "action_log" => {
                let i = slot!(call, "s");
                let code = call.get("code").and_then(|x| x.as_u64()).unwrap_or(0) as u16;
                let allow = call.get("allow").and_then(|x| x.as_bool()).unwrap_or(true);
                match &mut slots[i].h {
                    H::Action(a, twin) => {
                        let a = *a;
                        if op == "action_status" {
                            let got = tracked(ci, || unsafe { redirectionio_action_get_status_code(a, code) });
                            let want = twin.as_mut().map(|t| t.get_status_code(code, None)).unwrap_or(0);
                            if got != want {
                                ex.mismatches.push(format!("call {ci}: get_status_code {got} vs native {want}"));
                            }
                        } else {
                            let got = tracked(ci, || unsafe { redirectionio_action_should_log_request(a, allow, code) });
                            let want = twin.as_mut().map(|t| t.should_log_request(allow, code, None)).unwrap_or(allow);
                            if got != want {
                                ex.mismatches.push(format!("call {ci}: should_log_request {got} vs native {want}"));
                            }
                        }
                    }
                    _ => return Err("protocol: kind".into()),
                }
            }
            "action_ser" | "req_ser" => {
                let i = slot!(call, "s");
                let (p, want): (*const c_char, Option<Value>) = match &slots[i].h {
                    H::Action(a, twin) if op == "action_ser" => {
                        let a = *a;
                        (tracked(ci, || unsafe { redirectionio_action_json_serialize(a) }), twin.as_ref().map(|t| serde_json::to_value(&**t).unwrap()))
                    }
                    H::Request(r, twin) if op == "req_ser" => {
                        let r = *r;
                        let keys: &[&str] = if addr_touched.contains(&i) { &["created_at", "remote_addr"] } else { &["created_at"] };
                        (tracked(ci, || unsafe { redirectionio_request_json_serialize(r) }), twin.as_ref().map(|t| strip(&serde_json::to_string(&**t).unwrap(), keys)))
                    }
                    _ => return Err("protocol: kind".into()),
                };
                let len = if p.is_null() { 0 } else { unsafe { CStr::from_ptr(p) }.to_bytes().len() };
                let got = if p.is_null() { None } else { Some(strip(&unsafe { CStr::from_ptr(p) }.to_string_lossy(), if op == "req_ser" { if addr_touched.contains(&i) { &["created_at", "remote_addr"] } else { &["created_at"] } } else { &[] })) };
                if got != want {
                    ex.mismatches.push(format!("call {ci}: {op} differs from the native serialisation"));
                }
                oracle.push(("ok", json!(!p.is_null())));
                oracle.push(("len", json!(len)));
                result = json!({"slot": slots.len(), "owned": if p.is_null() { json!([]) } else { owned_sizes(&[p as *const u8]) }});
                slots.push(Slot { h: H::Str(p), released: false });
            }
            "action_drop" | "req_drop" | "filter_drop" => {
                let i = slot!(call, "s");
                match (&slots[i].h, op.as_str()) {
                    (H::Action(a, _), "action_drop") => {
                        let a = *a;
                        tracked(ci, || unsafe { redirectionio_action_drop(a) })
                    }
                    (H::Request(r, _), "req_drop") => {
                        let r = *r;
                        tracked(ci, || unsafe { redirectionio_request_drop(r) })
                    }
                    (H::Filter(f, _), "filter_drop") => {
                        let f = *f;
                        tracked(ci, || unsafe { redirectionio_action_body_filter_drop(f) })
                    }
                    _ => return Err("protocol: kind".into()),
                }
                slots[i].released = true;
            }
            "headers" => {
                let i = slot!(call, "a");
                let input = pairs(call, "headers");
                let code = call.get("code").and_then(|x| x.as_u64()).unwrap_or(200) as u16;
                let add = call.get("add").and_then(|x| x.as_bool()).unwrap_or(false);
                let list = CList::new(&input);
                match &mut slots[i].h {
                    H::Action(a, twin) => {
                        let a = *a;
                        let out = tracked(ci, || unsafe { redirectionio_action_header_filter_filter(a, list.head(), code, add) });
                        if a.is_null() {
                            if out != list.head() {
                                ex.mismatches.push(format!("call {ci}: NULL action did not give the caller's list back"));
                            }
                            oracle.push(("hdrs", Value::Null));
                            // nothing new to own: the slot stands for the caller's own list (releasing it is a no-op)
                            result = json!({"slot": slots.len(), "owned": [], "alias": true});
                            slots.push(Slot { h: H::Alias, released: false });
                        } else {
                            let got = unsafe { read_hlist(out) };
                            let want = twin.as_mut().map(|t| t.filter_headers(to_headers(&input), code, add, None)).unwrap_or_default();
                            let (hdrs, ptrs) = audit_hlist(ci, &got, &want, &mut ex.mismatches, &mut ex.nul_nodes);
                            oracle.push(("hdrs", hdrs));
                            result = json!({"slot": slots.len(), "owned": owned_sizes(&ptrs)});
                            slots.push(Slot { h: H::Hlist(out), released: false });
                        }
                    }
                    _ => return Err("protocol: kind".into()),
                }
            }
            "hmap_new" => {
                // `http_headers_to_header_map` called directly (a pub fn of the library): Rust -> C conversion of headers
                // that may contain NUL bytes or be empty
                let input = pairs_raw(call, "headers");
                let want = to_headers(&input);
                let arg = want.clone();
                let out = tracked(ci, || redirectionio::http::ffi::http_headers_to_header_map(arg)) as *const CHeaderMap;
                let got = unsafe { read_hlist(out) };
                let (hdrs, ptrs) = audit_hlist(ci, &got, &want, &mut ex.mismatches, &mut ex.nul_nodes);
                oracle.push(("hdrs", hdrs));
                // everything this call allocated and kept is the list: bytes still live == bytes the list owns
                let owned_bytes: i64 = ptrs.iter().filter_map(|p| audit_size(*p)).map(|x| x as i64).sum();
                let live = LIVE_BYTES_BY_CALL[ci.min(MAX_CALLS - 1)].load(Ordering::Relaxed);
                if live != owned_bytes {
                    ex.mismatches.push(format!("call {ci}: http_headers_to_header_map left {live} bytes live, the list owns {owned_bytes}"));
                }
                result = json!({"slot": slots.len(), "owned": owned_sizes(&ptrs)});
                hmap_calls.push((slots.len(), ci));
                slots.push(Slot { h: H::Hlist(out), released: false });
            }
            "hmap_read" => {
                // `header_map_to_http_headers` (pub fn): C -> Rust; nodes with a NULL string are skipped
                let i = slot!(call, "s");
                let h = match &slots[i].h {
                    H::Hlist(h) => *h,
                    _ => return Err("protocol: kind".into()),
                };
                let back = tracked(ci, || redirectionio::http::ffi::header_map_to_http_headers(h as *const redirectionio::http::ffi::HeaderMap));
                let got = unsafe { read_hlist(h) };
                let want: Vec<(String, String)> = got.iter().filter_map(|(n, v, _)| Some((n.clone()?, v.clone()?))).collect();
                let have: Vec<(String, String)> = back.iter().map(|x| (x.name.clone(), x.value.clone())).collect();
                if have != want {
                    ex.mismatches.push(format!("call {ci}: header_map_to_http_headers read {:?}, the list holds {:?}", have, want));
                }
                drop(back);
                if LIVE_BY_CALL[ci.min(MAX_CALLS - 1)].load(Ordering::Relaxed) != 0 {
                    ex.mismatches.push(format!("call {ci}: header_map_to_http_headers kept an allocation"));
                }
            }
            "hlist_free" => {
                let i = slot!(call, "s");
                let h = match &slots[i].h {
                    H::Hlist(h) => *h,
                    _ => return Err("protocol: kind".into()),
                };
                // bytes the list owns (from the audit table), to be compared with what freeing it releases
                let owned_bytes: i64 = unsafe { read_hlist(h) }.iter().map(|(_, _, node)| {
                    let nd = unsafe { &**node };
                    [*node as *const u8, nd.name as *const u8, nd.value as *const u8].iter().filter_map(|p| audit_size(*p)).map(|x| x as i64).sum::<i64>()
                }).sum();
                let before = LIVE_TRACKED_BYTES.load(Ordering::Relaxed);
                {
                    let mut m = Vec::new();
                    tracked(ci, || unsafe { free_hlist_checked(h, "hlist_free", &mut m) });
                    ex.mismatches.extend(m.into_iter().map(|x| format!("call {ci}: {x}")));
                }
                let released = before - LIVE_TRACKED_BYTES.load(Ordering::Relaxed);
                if released != owned_bytes {
                    ex.mismatches.push(format!("call {ci}: freeing the header list released {released} bytes, it owned {owned_bytes}"));
                }
                if let Some((_, creator)) = hmap_calls.iter().find(|(sl, _)| *sl == i) {
                    let (n, b) = (LIVE_BY_CALL[*creator].load(Ordering::Relaxed), LIVE_BYTES_BY_CALL[*creator].load(Ordering::Relaxed));
                    if n != 0 || b != 0 {
                        ex.mismatches.push(format!("call {ci}: after freeing its whole result, http_headers_to_header_map (call {creator}) still has {n} allocation(s) / {b} bytes live"));
                    }
                }
                slots[i].released = true;
            }
            "filter_new" => {
                let i = slot!(call, "a");
                let input = pairs(call, "headers");
                let code = call.get("code").and_then(|x| x.as_u64()).unwrap_or(200) as u16;
                let list = CList::new(&input);
                match &mut slots[i].h {
                    H::Action(a, twin) => {
                        let a = *a;
                        let f = tracked(ci, || unsafe { redirectionio_action_body_filter_create(a, code, list.head()) }) as *mut FilterBodyAction;
                        let tw = twin.as_mut().and_then(|t| t.create_filter_body(code, &to_headers(&input))).map(Box::new);
                        if f.is_null() != tw.is_none() {
                            ex.mismatches.push(format!("call {ci}: body_filter_create NULL={} vs native none={}", f.is_null(), tw.is_none()));
                        }
                        oracle.push(("ok", json!(!f.is_null())));
                        result = json!({"slot": slots.len(), "owned": if f.is_null() { json!([]) } else { owned_sizes(&[f as *const u8]) }});
                        slots.push(Slot { h: H::Filter(f, tw), released: false });
                    }
                    _ => return Err("protocol: kind".into()),
                }
            }
            "filter_feed" => {
                let fi = slot!(call, "f");
                let bi = slot!(call, "b");
                let b = match &slots[bi].h {
                    H::Buf(b) => *b,
                    _ => return Err("protocol: kind".into()),
                };
                let input = unsafe { cbuf_bytes(&b) };
                match &mut slots[fi].h {
                    H::Filter(f, twin) => {
                        let f = *f;
                        let out = tracked(ci, || unsafe { redirectionio_action_body_filter_filter(f, b) });
                        let got = unsafe { cbuf_bytes(&out) };
                        let want = match twin.as_mut() {
                            Some(t) => t.filter(input.clone(), None),
                            None => input.clone(),
                        };
                        if got != want {
                            ex.mismatches.push(format!("call {ci}: filtered body differs from the native filter"));
                        }
                        oracle.push(("out", json!(hex(&got))));
                        result = json!({"slot": slots.len(), "owned": if out.data.is_null() { json!([]) } else { owned_sizes(&[out.data]) }, "bytes": hex(&got)});
                        if !f.is_null() {
                            slots[bi].released = true; // consumed by the library
                        }
                        slots.push(Slot { h: H::Buf(out), released: false });
                    }
                    _ => return Err("protocol: kind".into()),
                }
            }
            "filter_close" => {
                let fi = slot!(call, "f");
                match &mut slots[fi].h {
                    H::Filter(f, twin) => {
                        let f = *f;
                        let out = tracked(ci, || unsafe { redirectionio_action_body_filter_close(f) });
                        let got = unsafe { cbuf_bytes(&out) };
                        let want = twin.as_mut().map(|t| t.end(None)).unwrap_or_default();
                        if got != want {
                            ex.mismatches.push(format!("call {ci}: end of body differs from the native filter"));
                        }
                        oracle.push(("out", json!(hex(&got))));
                        result = json!({"slot": slots.len(), "owned": if out.data.is_null() { json!([]) } else { owned_sizes(&[out.data]) }, "bytes": hex(&got)});
                        slots[fi].released = true;
                        slots.push(Slot { h: H::Buf(out), released: false });
                    }
                    _ => return Err("protocol: kind".into()),
                }
            }
            "req_new" => {
                let via = s(call, "via").ok_or("via")?;
                let mut keep: Vec<CString> = Vec::new();
                let mut c = |x: &str| -> *const c_char {
                    keep.push(CString::new(x.replace('\0', "")).unwrap());
                    keep.last().unwrap().as_ptr()
                };
                let (r, twin): (*const Request, Option<Box<Request>>) = match via.as_str() {
                    "from_str" => {
                        let url = s(call, "url").unwrap_or_default().replace('\0', ""); // a C string cannot carry NUL: same text for the twin
                        let p = c(&url);
                        (tracked(ci, || unsafe { redirectionio_request_from_str(p) }), url.parse::<Request>().ok().map(Box::new))
                    }
                    "create" => {
                        let input = pairs(call, "headers");
                        let list = CList::new(&input);
                        let z = |k: &str| s(call, k).unwrap_or_default().replace('\0', "");
                        let (uri, host, scheme, method) = (z("uri"), z("host"), z("scheme"), z("method"));
                        let (pu, ph, ps, pm) = (c(&uri), c(&host), c(&scheme), c(&method));
                        let r = tracked(ci, || unsafe { redirectionio_request_create(pu, ph, ps, pm, list.head()) });
                        let config = redirectionio::RouterConfig::default();
                        let mut t = Request::new(redirectionio::http::PathAndQueryWithSkipped::from_config(&config, &uri), uri.clone(), Some(host), Some(scheme), Some(method), None, None);
                        for (n, v) in &input {
                            t.add_header(n.clone(), v.clone(), config.ignore_header_case);
                        }
                        (r, Some(Box::new(t)))
                    }
                    _ => {
                        let js = s(call, "json").unwrap_or_default().replace('\0', "");
                        let p = c(&js);
                        (tracked(ci, || unsafe { redirectionio_request_json_deserialize(p as *mut c_char) }), serde_json::from_str::<Request>(&js).ok().map(Box::new))
                    }
                };
                if r.is_null() != twin.is_none() {
                    ex.mismatches.push(format!("call {ci}: request constructor NULL={} vs native none={}", r.is_null(), twin.is_none()));
                }
                oracle.push(("ok", json!(!r.is_null())));
                result = json!({"slot": slots.len(), "owned": if r.is_null() { json!([]) } else { owned_sizes(&[r as *const u8]) }});
                slots.push(Slot { h: H::Request(r as *mut Request, twin), released: false });
            }
            "req_addr" => {
                let i = slot!(call, "s");
                let tp = match call.get("tp") {
                    None | Some(Value::Null) => null(),
                    Some(_) => {
                        let t = slot!(call, "tp");
                        match &slots[t].h {
                            H::Tp(p) => *p,
                            _ => return Err("protocol: kind".into()),
                        }
                    }
                };
                let addr = CString::new(s(call, "addr").unwrap_or_default().replace('\0', "")).unwrap();
                match &slots[i].h {
                    H::Request(r, _) => {
                        let r = *r;
                        addr_touched.push(i);
                        tracked(ci, || unsafe { redirectionio_request_set_remote_addr(r, addr.as_ptr(), tp) })
                    }
                    _ => return Err("protocol: kind".into()),
                }
            }
            "log_json" => {
                let ri = slot!(call, "r");
                let (a, atwin): (*mut Action, Option<&Action>) = match call.get("a") {
                    None | Some(Value::Null) => (null_mut(), None),
                    Some(_) => {
                        let ai = slot!(call, "a");
                        match &slots[ai].h {
                            H::Action(a, t) => (*a, t.as_deref()),
                            _ => return Err("protocol: kind".into()),
                        }
                    }
                };
                let input = pairs(call, "headers");
                let list = CList::new(&input);
                let proxy = CString::new(s(call, "proxy").unwrap_or_default().replace('\0', "")).unwrap();
                let ip = CString::new(s(call, "ip").unwrap_or_default().replace('\0', "")).unwrap();
                let time = call.get("time").and_then(|x| x.as_u64()).unwrap_or(0);
                let code = call.get("code").and_then(|x| x.as_u64()).unwrap_or(200) as u16;
                let (r, rtwin) = match &slots[ri].h {
                    H::Request(r, t) => (*r, t.as_deref()),
                    _ => return Err("protocol: kind".into()),
                };
                let p = tracked(ci, || unsafe { redirectionio_api_create_log_in_json(r, code, list.head(), a, proxy.as_ptr(), time, ip.as_ptr()) });
                // the C side reads the ACTION as it is on the C side; the twin has seen the same calls
                let want = rtwin.map(|rt| {
                    let log = Log::from_proxy(rt, code, &to_headers(&input), if a.is_null() { None } else { atwin }, proxy.to_str().unwrap(), time as u128, ip.to_str().unwrap());
                    strip(&serde_json::to_string(&log).unwrap(), &["duration"])
                });
                let got = if p.is_null() { None } else { Some(strip(&unsafe { CStr::from_ptr(p) }.to_string_lossy(), &["duration"])) };
                if got != want {
                    ex.mismatches.push(format!("call {ci}: log JSON differs from the native Log::from_proxy"));
                }
                let len = if p.is_null() { 0 } else { unsafe { CStr::from_ptr(p) }.to_bytes().len() };
                oracle.push(("ok", json!(!p.is_null())));
                oracle.push(("len", json!(len)));
                result = json!({"slot": slots.len(), "owned": if p.is_null() { json!([]) } else { owned_sizes(&[p as *const u8]) }});
                slots.push(Slot { h: H::Str(p), released: false });
            }
            "version" => {
                let p = tracked(ci, || unsafe { redirectionio_api_get_rule_api_version() });
                let len = if p.is_null() { 0 } else { unsafe { CStr::from_ptr(p) }.to_bytes().len() };
                oracle.push(("ok", json!(!p.is_null())));
                oracle.push(("len", json!(len)));
                result = json!({"slot": slots.len(), "owned": if p.is_null() { json!([]) } else { owned_sizes(&[p as *const u8]) }});
                slots.push(Slot { h: H::Str(p), released: false });
            }
            "str_free" => {
                let i = slot!(call, "s");
                let p = match &slots[i].h {
                    H::Str(p) => *p,
                    _ => return Err("protocol: kind".into()),
                };
                {
                    let mut m = Vec::new();
                    tracked(ci, || unsafe { free_cstr_checked(p, "str_free", &mut m) });
                    ex.mismatches.extend(m.into_iter().map(|x| format!("call {ci}: {x}")));
                }
                slots[i].released = true;
            }
            "tp_new" => {
                let l = CString::new(s(call, "list").unwrap_or_default().replace('\0', "")).unwrap();
                let t = tracked(ci, || unsafe { redirectionio_trusted_proxies_create(l.as_ptr()) });
                tp_calls.push(ci);
                let inner = unsafe { (*t).inner } as *const u8;
                tconfig_size = audit_size(inner).unwrap_or(0);
                result = json!({"slot": slots.len(), "owned": owned_sizes(&[t as *const u8, inner])});
                slots.push(Slot { h: H::Tp(t), released: false });
            }
            "tp_add" => {
                let i = slot!(call, "s");
                let p = CString::new(s(call, "proxy").unwrap_or_default().replace('\0', "")).unwrap();
                match &slots[i].h {
                    H::Tp(t) => {
                        let t = *t;
                        tp_calls.push(ci);
                        tracked(ci, || unsafe { redirectionio_trusted_proxies_add_proxy(t as *mut CTrustedProxies, p.as_ptr()) })
                    }
                    _ => return Err("protocol: kind".into()),
                }
            }
            _ => return Err(format!("unknown op {op}")),
        }
        // oracle arguments: fill or compare
        for (k, v) in oracle {
            if fill {
                filled[k] = v;
            } else if call.get(k) != Some(&v) {
                return Err("stale oracle".into());
            }
        }
        ex.filled.push(filled);
        ex.results.push(result);
    }
    ex.unreleased = slots.iter().enumerate().filter(|(_, s)| !s.released).map(|(i, _)| i).collect();
    let _ = &H::Alias;
    // the caller now releases whatever it still holds (trusted proxies cannot be released)
    let base = calls.len();
    for (k, sl) in slots.iter_mut().enumerate() {
        if sl.released {
            continue;
        }
        let mut m = Vec::new();
        tracked((base + 1).min(MAX_CALLS - 1), || unsafe {
            match &sl.h {
                H::Buf(b) => redirectionio_api_buffer_drop(*b),
                H::Str(p) => free_cstr_checked(*p, "final release", &mut m),
                H::Action(a, _) => redirectionio_action_drop(*a),
                H::Filter(f, _) => redirectionio_action_body_filter_drop(*f),
                H::Request(r, _) => redirectionio_request_drop(*r),
                H::Hlist(h) => free_hlist_checked(*h, "final release", &mut m),
                H::Alias | H::Tp(_) => {}
            }
        });
        ex.mismatches.extend(m.into_iter().map(|x| format!("slot {k}: {x}")));
        sl.released = true;
    }
    drop(slots); // native twins
    // what is still live and was allocated inside a call
    let mut leaked = 0;
    let mut detail = Vec::new();
    for c in 0..MAX_CALLS {
        let n = LIVE_BY_CALL[c].load(Ordering::Relaxed);
        if n != 0 && !tp_calls.contains(&c) {
            leaked += n;
            detail.push(format!("call {c} ({}): {n}", calls.get(c).and_then(|x| x.get("op")).and_then(|x| x.as_str()).unwrap_or("release")));
        }
    }
    ex.leaked = leaked;
    ex.leak_detail = detail.join(", ");
    ex.faults = faults();
    ex.sizes = json!({"action": std::mem::size_of::<Action>(), "filter": std::mem::size_of::<FilterBodyAction>(), "request": std::mem::size_of::<Request>(),
        "hnode": std::mem::size_of::<CHeaderMap>(), "tproxies": std::mem::size_of::<CTrustedProxies>(), "tconfig": tconfig_size});
    for c in &calls {
        if let Some(op) = c.get("op").and_then(|o| o.as_str()) {
            ex.tags.push(format!("op:{op}"));
        }
    }
    Ok(ex)
}

fn run(case: &Value) -> Obs {
    w8_watchdog::arm(60);
    if case.get("selftest").is_some() {
        // the auditing allocator checks itself in a child process (corpus/C18/selftest.jsonl: replayed on every run)
        let ok = std::env::current_exe().ok().and_then(|e| std::process::Command::new(e).arg("selftest").stdout(std::process::Stdio::null()).status().ok()).map(|s| s.code() == Some(0)).unwrap_or(false);
        let o = Obs::new(json!({"selftest": if ok { "ok" } else { "failed" }})).tag("selftest");
        return if ok { o } else { o.fail("the auditing allocator does not detect a layout mismatch / double free / leak", "audit-selftest") };
    }
    // first execution warms the lazily initialised statics of the library (they would look like leaks)
    let first = match execute(case, false) {
        Ok(e) => e,
        Err(e) => return Obs::invalid(&e),
    };
    let second = match execute(case, false) {
        Ok(e) => e,
        Err(e) => return Obs::invalid(&e),
    };
    let mut leaked = second.leaked;
    let mut leak_detail = second.leak_detail.clone();
    if leaked != 0 {
        if let Ok(third) = execute(case, false) {
            if third.leaked < leaked {
                leaked = third.leaked.max(0);
                leak_detail = third.leak_detail.clone();
            }
        }
    }
    // the `tconfig` size is only known after a tp_new; the case carries the sizes the generator saw
    if let Some(sz) = case.get("sizes") {
        for k in ["action", "filter", "request", "hnode", "tproxies"] {
            if sz.get(k) != second.sizes.get(k) {
                return Obs::invalid("stale sizes");
            }
        }
        if second.sizes["tconfig"] != json!(0) && sz.get("tconfig") != second.sizes.get("tconfig") {
            return Obs::invalid("stale sizes");
        }
    } else {
        return Obs::invalid("sizes");
    }
    let mut faults = first.faults.clone();
    faults.extend(second.faults.clone());
    let obs = json!({"results": second.results, "unreleased": second.unreleased, "faults": faults, "leaked": leaked});
    let ncalls = case.get("calls").and_then(|c| c.as_array()).map(|a| a.len()).unwrap_or(0);
    let mut o = Obs::new(obs).trivial(ncalls < 2);
    o.tags = second.tags.clone();
    let mut mism = first.mismatches.clone();
    mism.extend(second.mismatches.clone());
    if !faults.is_empty() {
        o = o.fail(format!("allocator audit: {}", faults.join("; ")), "alloc-fault");
    } else if leaked != 0 {
        o = o.fail(format!("{leaked} allocation(s) still live after the caller released every handle: {leak_detail}"), "leak");
    } else if !mism.is_empty() {
        o = o.fail(mism.join("; "), "native-mismatch");
    } else if !second.nul_nodes.is_empty() {
        // known finding (C18): "header lists round-trip their content … results equal those of the native API" fails for a header
        // whose name / value has an interior NUL: it crosses the C boundary as a NULL pointer (redirectionio.h documents none)
        o = o.fail(format!("a header with an interior NUL crosses the C boundary as a NULL pointer and is lost on the way back: {}", second.nul_nodes.join("; ")), "header-nul-null-pointer");
    }
    o
}

/// `c18 selftest`: the allocator audit must see (1) a deallocation with a capacity that differs from the allocation
/// (what `Buffer::from_vec` / `into_vec` did before the repair D15), (2) a double free, (3) a leak.
fn selftest() {
    begin_run();
    unsafe {
        // (1) layout mismatch: allocate 10, give back as 5
        let mut v: Vec<u8> = Vec::with_capacity(10);
        v.extend_from_slice(b"12345");
        let p = v.as_mut_ptr();
        std::mem::forget(v);
        drop(Vec::from_raw_parts(p, 5, 5));
        // (2) double free
        let l = Layout::from_size_align(32, 8).unwrap();
        let q = std::alloc::alloc(l);
        std::alloc::dealloc(q, l);
        std::alloc::dealloc(q, l);
    }
    // (3) leak inside a tracked call
    tracked(3, || std::mem::forget(vec![1u8; 77]));
    let f = faults();
    let leaked: i64 = (0..MAX_CALLS).map(|c| LIVE_BY_CALL[c].load(Ordering::Relaxed)).sum();
    println!("{}", json!({"faults": f, "leaked": leaked}));
    let ok = f.len() == 2 && f[0].contains("layout mismatch: allocated size 10") && f[1].contains("not live") && leaked == 1;
    std::process::exit(if ok { 0 } else { 1 });
}

fn main() {
    let _ = std::mem::size_of::<*const c_void>();
    if std::env::args().nth(1).as_deref() == Some("selftest") {
        selftest();
    }
    main_with(gen, run);
}
