//! C12 — regex caching is transparent: implementation side.
//! Same case format, same runner and same model driver as C08 (see c08.rs); the generator interleaves
//! `cache(limit, level)` densely with updates and the runner adds an oracle evaluated on the
//! implementation alone: the observations of the history are compared with those of the same history with
//! every cache op removed (a cache op must change nothing; later ops must see the same tree behaviour).
#[path = "c08.rs"]
#[allow(dead_code)]
mod base;

use base::*;
use redirectionio::api::Rule;
use redirectionio::http::Request;
use redirectionio::router::Router;
use redirectionio::RouterConfig;
use rio_harness::*;
use serde_json::{json, Value};

// ---------------------------------------------------------------------------------------------
// Unicode-aware constructs: cached (compiled) vs lazily built regexes on non-ASCII haystacks.
// No model is involved (the Lean engine does not know `\w`, `\d`, … nor Unicode classes): these cases are decided by
// oracles evaluated on the implementation alone – the cache-free twin, and the linear scan with the regex crate.
// ---------------------------------------------------------------------------------------------

struct UGroup {
    body: &'static str,
    yes: &'static [&'static str],
    no: &'static [&'static str],
}

/// Marker expressions whose meaning depends on Unicode awareness / Unicode case folding.
const UNI_MENU: &[UGroup] = &[
    UGroup { body: "?:\\w+", yes: &["é", "Ж9", "日本", "٤٢", "straße", "a_b", "ǅ"], no: &["", "-", "é-"] },
    UGroup { body: "?:\\d+", yes: &["٤٢", "42", "４２", "४२"], no: &["", "a", "٤a"] },
    UGroup { body: "?:[^/]+", yes: &["é", "🤘x", "Ünï", "٤٢"], no: &["", "é/"] },
    UGroup { body: "?:.+?", yes: &["é", "日", "🤘", "aé"], no: &[""] },
    UGroup { body: "?:.", yes: &["é", "🤘", "ß", "a"], no: &["", "éé"] },
    UGroup { body: "?:.{2}", yes: &["éa", "🤘日", "ßß"], no: &["é", "ééé"] },
    UGroup { body: "?:\\S+", yes: &["é", "Жук", "🤘"], no: &["", "é\u{a0}x", "é x", "\u{2003}"] },
    UGroup { body: "?:\\w+\\b", yes: &["é", "Жук"], no: &["-"] },
    UGroup { body: "?:\\bé\\w*", yes: &["é", "école"], no: &["aé"] },
    UGroup { body: "?:[^a-z/]+", yes: &["É", "Ж", "٤", "🤘"], no: &["a", ""] },
    UGroup { body: "?:\\W", yes: &["-", "🤘", " "], no: &["é", "٤", "a"] },
    UGroup { body: "?:\\D+", yes: &["é", "ab"], no: &["٤", "4"] },
    UGroup { body: "?:\\s", yes: &[" ", "\u{a0}", "\u{2003}"], no: &["a", ""] },
    UGroup { body: "?:\\pL+", yes: &["é", "Жук", "日本"], no: &["٤", ""] },
    UGroup { body: "?:[[:alpha:]]+", yes: &["ab", "Z"], no: &["é", ""] },
    UGroup { body: "?:[а-я]+", yes: &["жук", "я"], no: &["ЖУК", "z"] },
    UGroup { body: "?:[α-ω]+", yes: &["σ", "ς", "λ"], no: &["Σ", "a"] },
    UGroup { body: "?:é+", yes: &["é", "éé"], no: &["É", "e", "e\u{301}"] },
    UGroup { body: "?:straße", yes: &["straße"], no: &["STRASSE", "STRAẞE", "strasse"] },
    UGroup { body: "?:(?i:жук)", yes: &["жук", "ЖУК", "Жук"], no: &["zhuk"] },
    UGroup { body: "?:[a-z]+", yes: &["a", "xyz"], no: &["é", "A", ""] },
];

/// Literal text (goes through regex::escape) with cased non-ASCII letters, 2/3/4-byte characters, non-ASCII digits.
const UNI_LITS: &[&str] = &["/", "/", "é", "É", "ß", "Ж", "ж", "σ", "Σ", "İ", "ǅ", "k", "s", "日", "🤘", "٤", "-", ".", "a", "B", "straße"];

fn uni_pool(rng: &mut Prng) -> Vec<Pat> {
    let mut pool: Vec<Pat> = Vec::new();
    let mut base: Pat = vec![Tok::L("/".to_string())];
    for _ in 0..rng.range(1, 3) {
        if rng.chance(1, 2) {
            base.push(Tok::G(rng.pick(UNI_MENU).body.to_string()));
        } else {
            base.push(Tok::L((0..rng.range(1, 2)).map(|_| *rng.pick(UNI_LITS)).collect()));
        }
    }
    pool.push(base);
    let target = rng.range(2, 5);
    let mut guard = 0;
    while pool.len() < target && guard < 30 {
        guard += 1;
        let mut p = rng.pick(&pool).clone();
        match rng.below(4) {
            0 => p.push(Tok::G(rng.pick(UNI_MENU).body.to_string())),
            1 => p.push(Tok::L((*rng.pick(UNI_LITS)).to_string())),
            2 => {
                let k = rng.below(p.len());
                p[k] = if rng.chance(1, 2) { Tok::G(rng.pick(UNI_MENU).body.to_string()) } else { Tok::L((*rng.pick(UNI_LITS)).to_string()) };
            }
            _ => {
                // case variant of the literals (Unicode upper/lower-casing)
                for t in p.iter_mut() {
                    if let Tok::L(s) = t {
                        *t = Tok::L(if rng.chance(1, 2) { s.to_uppercase() } else { s.to_lowercase() });
                    }
                }
            }
        }
        if !render(&p).is_empty() && !pool.iter().any(|q| render(q) == render(&p)) {
            pool.push(p);
        }
    }
    pool
}

fn uni_instance(p: &Pat, rng: &mut Prng, near: bool) -> String {
    let mut s = String::new();
    for t in p {
        match t {
            Tok::L(l) => s.push_str(l),
            Tok::G(b) => match UNI_MENU.iter().find(|g| g.body == b) {
                Some(g) => {
                    if near && !g.no.is_empty() && rng.chance(1, 3) {
                        s.push_str(*rng.pick(g.no));
                    } else {
                        s.push_str(*rng.pick(g.yes));
                    }
                }
                None => s.push('x'),
            },
        }
    }
    if near {
        match rng.below(6) {
            0 => s = s.to_uppercase(),
            1 => s = s.to_lowercase(),
            2 => {
                // swap the case of one (possibly non-ASCII) letter
                let cs: Vec<char> = s.chars().collect();
                if !cs.is_empty() {
                    let i = rng.below(cs.len());
                    let c = cs[i];
                    let swapped: String = if c.is_lowercase() { c.to_uppercase().collect() } else { c.to_lowercase().collect() };
                    s = cs[..i].iter().collect::<String>() + &swapped + &cs[i + 1..].iter().collect::<String>();
                }
            }
            3 => s.push('é'),
            4 => s.push('٤'),
            _ => {}
        }
    }
    s
}

fn uni_haystacks(pool: &[Pat], rng: &mut Prng, n: usize) -> Vec<String> {
    let mut hs: Vec<String> = pool.iter().map(|p| uni_instance(p, rng, false)).collect();
    while hs.len() < n {
        let p = rng.pick(pool).clone();
        let near = rng.chance(2, 3);
        hs.push(uni_instance(&p, rng, near));
    }
    // the patterns' own source texts (regex string, doubly escaped, a prefix's string, un-escaped)
    for _ in 0..2.min(pool.len()) {
        let p = rng.pick(pool).clone();
        for h in source_haystacks(&p, rng) {
            if !hs.contains(&h) {
                hs.push(h);
            }
        }
    }
    hs
}

fn gen_twin(rng: &mut Prng, emit: &mut dyn FnMut(Value)) {
    let pool = uni_pool(rng);
    let unique = rng.chance(1, 4);
    let ic = rng.chance(1, 2);
    let nops = rng.range(3, 12);
    let ops = history(&pool, unique, rng, nops, 8);
    let hay = uni_haystacks(&pool, rng, 10);
    emit(json!({"mode": "twin", "ic": ic, "unique": unique, "ops": ops, "hay": hay}));
}

/// Router level: rules whose path / host contain markers with Unicode-aware expressions; requests with non-ASCII paths
/// (percent-encoded by the request normalisation) and non-ASCII hosts (matched as they are).
fn gen_router(rng: &mut Prng, emit: &mut dyn FnMut(Value)) {
    let nrules = rng.range(2, 6);
    let mut rules = Vec::new();
    let mut reqs = Vec::new();
    for i in 0..nrules {
        let g = rng.pick(UNI_MENU);
        let regex = g.body.trim_start_matches("?:").to_string();
        let lit = *rng.pick(&["a", "é", "É", "Ж", "shop", "ß", "日"]);
        let on_host = rng.chance(1, 2);
        let (path, host) = if on_host {
            (format!("/{}", *rng.pick(&["x", "é", "p"])), Some(format!("{lit}@m{i}.example.com")))
        } else {
            (format!("/{lit}/@m{i}{}", *rng.pick(&["", "/z", "/é"])), if rng.chance(1, 4) { Some("example.com".to_string()) } else { None })
        };
        rules.push(json!({"id": format!("r{i}"), "path": path, "host": host, "markers": [{"name": format!("m{i}"), "regex": regex}]}));
        // requests instantiating this rule (and near misses)
        for _ in 0..2 {
            let inst = if rng.chance(2, 3) || g.no.is_empty() { *rng.pick(g.yes) } else { *rng.pick(g.no) };
            let mut lit_r = lit.to_string();
            match rng.below(4) {
                0 => lit_r = lit_r.to_uppercase(),
                1 => lit_r = lit_r.to_lowercase(),
                _ => {}
            }
            if on_host {
                // … and a host equal to the rendered marker regex / the rule text itself
                reqs.push(json!({"path": rules[i]["path"], "host": format!("{}(?:{regex}).example.com", regex::escape(lit))}));
                reqs.push(json!({"path": rules[i]["path"], "host": format!("{lit}@m{i}.example.com")}));
                reqs.push(json!({"path": rules[i]["path"], "host": format!("{lit_r}{inst}.example.com")}));
            } else {
                let tail = rules[i]["path"].as_str().unwrap().split(&format!("@m{i}")).nth(1).unwrap_or("").to_string();
                // a request path equal to the rendered marker regex (the pattern's own source text), to its escaped form and to
                // the rule text with the marker name
                let src = format!("/{}/(?:{regex}){}", regex::escape(lit), regex::escape(&tail));
                reqs.push(json!({"path": src, "host": Value::Null}));
                reqs.push(json!({"path": regex::escape(&src), "host": Value::Null}));
                reqs.push(json!({"path": format!("/{lit}/@m{i}{tail}"), "host": Value::Null}));
                reqs.push(json!({"path": format!("/{lit_r}/{inst}{tail}"), "host": if rng.chance(1, 2) { json!("example.com") } else { Value::Null }}));
            }
        }
    }
    let limits = json!([0, 1, 2, 3, 7, 100, Value::Null]);
    emit(json!({"mode": "router", "cfg": {"ihc": rng.chance(1, 2), "ipc": rng.chance(1, 2), "any": rng.chance(1, 4)}, "rules": rules, "reqs": reqs, "limits": limits}));
}

/// Explain-trace JSON reduced to what must not depend on caching, independent of HashMap iteration order: routes become sorted
/// ids, children are sorted by their canonical text.
fn canon_trace(v: &Value) -> Value {
    match v {
        Value::Object(m) => {
            let mut out = serde_json::Map::new();
            for (k, x) in m {
                if k == "routes" {
                    let mut ids: Vec<String> = x.as_array().map(|a| a.iter().map(|r| r.get("id").and_then(|i| i.as_str()).unwrap_or("?").to_string()).collect()).unwrap_or_default();
                    ids.sort();
                    out.insert(k.clone(), json!(ids));
                } else if k == "final_route" {
                    out.insert(k.clone(), x.get("id").cloned().unwrap_or(Value::Null));
                } else if k == "children" || k == "traces" {
                    let mut cs: Vec<Value> = x.as_array().map(|a| a.iter().map(canon_trace).collect()).unwrap_or_default();
                    cs.sort_by_key(|c| c.to_string());
                    out.insert(k.clone(), Value::Array(cs));
                } else if k == "cached" {
                    // memoisation flag of header / date conditions inside one trace call: not a regex-cache observation
                    out.insert(k.clone(), x.clone());
                } else {
                    out.insert(k.clone(), canon_trace(x));
                }
            }
            Value::Object(out)
        }
        Value::Array(a) => Value::Array(a.iter().map(canon_trace).collect()),
        other => other.clone(),
    }
}

fn run_router(case: &Value) -> Obs {
    let cfg = case.get("cfg").cloned().unwrap_or(json!({}));
    let b = |k: &str| cfg.get(k).and_then(|v| v.as_bool()).unwrap_or(false);
    let config: RouterConfig = match serde_json::from_value(json!({
        "ignore_host_case": b("ihc"), "ignore_header_case": false, "ignore_path_and_query_case": b("ipc"),
        "always_match_any_host": b("any"), "ignore_marketing_query_params": true, "pass_marketing_query_params_to_target": true,
    })) {
        Ok(c) => c,
        Err(e) => return Obs::invalid(&format!("config: {e}")),
    };
    let mut rules: Vec<Rule> = Vec::new();
    for (i, r) in case.get("rules").and_then(|r| r.as_array()).cloned().unwrap_or_default().iter().enumerate() {
        let mut source = serde_json::Map::new();
        match r.get("path").and_then(|p| p.as_str()) {
            Some(p) => {
                source.insert("path".into(), json!(p));
            }
            None => return Obs::invalid("rule path"),
        }
        if let Some(h) = r.get("host").and_then(|h| h.as_str()) {
            source.insert("host".into(), json!(h));
        }
        let rj = json!({"id": r.get("id").cloned().unwrap_or(json!(format!("r{i}"))), "rank": i, "source": Value::Object(source),
            "markers": r.get("markers").cloned().unwrap_or(json!([]))});
        match serde_json::from_value::<Rule>(rj) {
            Ok(rule) => rules.push(rule),
            Err(e) => return Obs::invalid(&format!("rule: {e}")),
        }
    }
    let mut requests = Vec::new();
    for q in case.get("reqs").and_then(|r| r.as_array()).cloned().unwrap_or_default() {
        let path = match q.get("path").and_then(|p| p.as_str()) {
            Some(p) => p.to_string(),
            None => return Obs::invalid("req path"),
        };
        let host = q.get("host").and_then(|h| h.as_str()).map(|h| h.to_string());
        requests.push(Request::from_config(&config, path, host, Some("https".to_string()), Some("GET".to_string()), None, None));
    }
    // per request: [sorted ids of match_request, id of get_route, the explain trace (get_trace: every node with its matched /
    // executed / count fields, the routes stored under it and the final route), canonicalised for HashMap order]
    let observe = |router: &Router<Rule>| -> Vec<Value> {
        requests
            .iter()
            .map(|q| {
                let mut ids: Vec<String> = router.match_request(q).iter().map(|r| r.id().to_string()).collect();
                ids.sort();
                let best = router.get_route(q).map(|r| r.id().to_string());
                let trace = serde_json::to_value(router.get_trace(q)).map(|v| canon_trace(&v)).unwrap_or(json!("unserialisable"));
                json!([ids, best, trace])
            })
            .collect()
    };
    let build = || {
        let mut router = Router::<Rule>::from_config(config.clone());
        for r in &rules {
            router.insert(r.clone());
        }
        router
    };
    let baseline = observe(&build());
    let any_hit = baseline.iter().any(|b| b[0].as_array().map(|a| !a.is_empty()).unwrap_or(false));
    let mut per_limit = Vec::new();
    let mut fail: Option<String> = None;
    for l in case.get("limits").and_then(|l| l.as_array()).cloned().unwrap_or_default() {
        let limit = if l.is_null() { None } else { l.as_u64() };
        let mut router = build();
        router.cache(limit);
        let after = observe(&router);
        // a second warm-up on the same router
        router.cache(Some(1));
        let after2 = observe(&router);
        for (i, ((b, a), a2)) in baseline.iter().zip(after.iter()).zip(after2.iter()).enumerate() {
            if (b != a || b != a2) && fail.is_none() {
                let what = if b[0] != a[0] || b[0] != a2[0] { "match_request" } else if b[1] != a[1] || b[1] != a2[1] { "get_route" } else { "get_trace" };
                fail = Some(format!(
                    "request {i} {:?}: {what} differs between the uncached router and the router after cache({limit:?}) (or after a second warm-up): {} / {} / {}",
                    case["reqs"][i], b, a, a2
                ));
            }
        }
        per_limit.push(json!(after));
    }
    let mut o = Obs::new(json!({"uncached": baseline, "cached": per_limit})).trivial(!any_hit).tag("mode:router");
    if let Some(why) = fail {
        o = o.fail(why, "cache-visible");
    }
    o
}

/// Hint-directed twin / router cases: the hinted strings as literals, hosts, haystacks; the hinted sizes as cache limits.
fn gen_hinted_twin(h: &Hints, rng: &mut Prng, emit: &mut dyn FnMut(Value)) {
    let l = |s: &str| Tok::L(s.to_string());
    let g = |s: &str| Tok::G(s.to_string());
    let mut limits: Vec<Value> = vec![json!(0), json!(1), json!(2), Value::Null];
    for n in h.sizes(1_000_000) {
        limits.push(json!(n));
    }
    // `RegexTreeMap::cache` takes a number; `Router::cache` also `None`
    let tree_limits: Vec<Value> = limits.iter().map(|l| if l.is_null() { json!(100) } else { l.clone() }).collect();
    let mut strs = hint_strings(h);
    if strs.is_empty() {
        strs.push("é".to_string());
    }
    for t in strs {
        for body in ["?:\\w+", "?:\\d+", "?:[^/]+", "?:.+?", "?:\\S+", "?:."] {
            let pool: Vec<Pat> = vec![vec![l("/"), l(&t), g(body)], vec![l("/"), l(&t), g(body), l("/z")], vec![l("/"), g(body), l(&t)], vec![l("/"), l(&t.to_uppercase())]];
            let mut ops: Vec<Value> = Vec::new();
            for (i, p) in pool.iter().enumerate() {
                ops.push(json!(["i", pat_json(p), format!("i{i}"), i]));
                ops.push(json!(["c", tree_limits[i % tree_limits.len()], Value::Null]));
            }
            for lim in &tree_limits {
                ops.push(json!(["c", lim, rng.pick(&[json!(0), json!(1), json!(2), Value::Null]).clone()]));
            }
            ops.push(json!(["r", "i0"]));
            let hay = vec![format!("/{t}é"), format!("/{t}٤٢"), format!("/{t}a/z"), format!("/Ж{t}"), format!("/{}", t.to_uppercase()), format!("/{}", t.to_lowercase()), format!("/{t}{t}"), format!("/{t}")];
            // case-insensitive only when the model's folding table covers the hinted text (else the case would be modelled wrongly)
            for ic in [false, true] {
                if ic && !hint_ic_ok(&t) {
                    continue;
                }
                emit(json!({"mode": "twin", "ic": ic, "unique": false, "ops": ops, "hay": hay}));
            }
        }
        // router: the string in the path literal, in the host literal, in the request
        let rules = json!([
            {"id": "r0", "path": format!("/{t}/@m0"), "host": Value::Null, "markers": [{"name": "m0", "regex": "\\w+"}]},
            {"id": "r1", "path": "/x", "host": format!("{t}@m1.example.com"), "markers": [{"name": "m1", "regex": "[^.]+"}]},
            {"id": "r2", "path": format!("/@m2{t}"), "host": "example.com", "markers": [{"name": "m2", "regex": ".+?"}]},
        ]);
        let reqs = json!([
            {"path": format!("/{t}/é"), "host": Value::Null}, {"path": format!("/{}/Ж9", t.to_uppercase()), "host": Value::Null},
            {"path": "/x", "host": format!("{t}é.example.com")}, {"path": "/x", "host": format!("{}É.EXAMPLE.com", t.to_uppercase())},
            {"path": format!("/é{t}"), "host": "example.com"}, {"path": format!("/{t}"), "host": "example.com"},
        ]);
        for (ihc, ipc) in [(false, false), (true, true)] {
            emit(json!({"mode": "router", "cfg": {"ihc": ihc, "ipc": ipc, "any": false}, "rules": rules, "reqs": reqs, "limits": limits}));
        }
    }
}

fn gen(args: &Args, emit: &mut dyn FnMut(Value)) {
    let mut rng = Prng::new(args.seed ^ 0xC12);
    let h = hints();
    if !h.is_empty() {
        gen_hinted_tree(&h, &mut rng, emit, true);
        gen_hinted_twin(&h, &mut rng, emit);
    }
    if args.tier == "thorough" {
        // exhaustive (limit, level) over every tree built from <=4 patterns of the C08 pool
        let pool = exh_pool();
        let hay = exh_haystacks();
        for k in 1..=4usize {
            for sub in subsets(pool.len(), k) {
                let orders: Vec<Vec<usize>> = if k <= 3 { perms(k) } else { vec![(0..k).collect(), (0..k).rev().collect()] };
                for ord in &orders {
                    let inserts: Vec<Value> = ord.iter().map(|&j| json!(["i", pat_json(&pool[sub[j]]), format!("i{}", sub[j]), sub[j]])).collect();
                    for limit in 0..=(2 * k as u64) {
                        for level in [Value::Null, json!(0), json!(1), json!(2), json!(3)] {
                            let mut ops = inserts.clone();
                            ops.push(json!(["c", limit, level]));
                            // a second warm-up and an update after caching
                            ops.push(json!(["c", 1, Value::Null]));
                            ops.push(json!(["r", format!("i{}", sub[0])]));
                            emit_modes(emit, false, false, &ops, &hay, true, &["beh", "snap", "real", "trace"]);
                        }
                    }
                }
            }
        }
    }
    // Unicode-aware constructs on non-ASCII haystacks: twin / scan oracles only (no model), tree and router level
    for _ in 0..(args.n / 3).max(50) {
        gen_twin(&mut rng, emit);
    }
    for _ in 0..(args.n / 6).max(30) {
        gen_router(&mut rng, emit);
    }
    for _ in 0..args.n {
        let pool = pattern_pool(&mut rng, false);
        let unique = rng.chance(1, 4);
        let ic = rng.chance(1, 2);
        let nops = rng.range(3, 16);
        let ops = history(&pool, unique, &mut rng, nops, 8);
        let hay = haystacks(&pool, &mut rng, 8);
        // trace(haystack) after the history (with its cache calls): vs the model's trace and vs the cache-free twin
        emit_modes(emit, ic, unique, &ops, &hay, false, &["beh", "snap", "real", "trace"]);
    }
}

fn perms(n: usize) -> Vec<Vec<usize>> {
    if n == 0 {
        return vec![vec![]];
    }
    let mut out = Vec::new();
    for p in perms(n - 1) {
        for i in 0..=p.len() {
            let mut q = p.clone();
            q.insert(i, n - 1);
            out.push(q);
        }
    }
    out
}

fn subsets(n: usize, k: usize) -> Vec<Vec<usize>> {
    let mut out = Vec::new();
    for mask in 0u32..(1 << n) {
        if mask.count_ones() as usize == k {
            out.push((0..n).filter(|i| mask & (1 << i) != 0).collect());
        }
    }
    out
}

fn run12(case: &Value) -> Obs {
    let mode = s(case, "mode");
    if mode.as_deref() == Some("router") {
        return run_router(case);
    }
    let twin = mode.as_deref() == Some("twin");
    let mut o = if twin {
        // harness side: exactly a `beh` run (find after every op, scan oracle with the regex crate) …
        let mut c = case.clone();
        c["mode"] = json!("beh");
        let mut o = run(&c);
        o.tags.retain(|t| t != "mode:beh");
        o.tags.push("mode:twin".to_string());
        o
    } else {
        run(case)
    };
    let is_trace = mode.as_deref() == Some("trace");
    if o.oracle != "ok" || !(twin || is_trace || mode.as_deref() == Some("beh")) {
        return o;
    }
    let ops = match case.get("ops").and_then(|o| o.as_array()) {
        Some(a) => a.clone(),
        None => return o,
    };
    // domain of C12 at tree level: no stored pattern is the empty string (DESIGN 6-O3); such cases are only
    // compared with the model
    let unique = case.get("unique").and_then(|b| b.as_bool()).unwrap_or(false);
    if let Some((_, pats)) = parse_ops(case, unique) {
        if pats.iter().any(|p| render(p).is_empty()) {
            return o.tag("empty-pattern");
        }
    }
    let is_cache = |op: &Value| op.as_array().and_then(|a| a.first()).and_then(|k| k.as_str()) == Some("c");
    let ncache = ops.iter().filter(|op| is_cache(op)).count();
    o.tags.push(format!("ncache:{}", ncache.min(6)));
    if ncache == 0 {
        return o.trivial(true);
    }
    let mut stripped = case.clone();
    stripped["mode"] = json!(if is_trace { "trace" } else { "beh" });
    stripped["ops"] = Value::Array(ops.iter().filter(|op| !is_cache(op)).cloned().collect());
    let base = run(&stripped);
    let (full, plain) = match (o.obs.as_array(), base.obs.as_array()) {
        (Some(a), Some(b)) => (a.clone(), b.clone()),
        _ => return o.fail("the history or its cache-free twin did not produce a list of observations", "twin-not-comparable"),
    };
    if is_trace {
        // trace(haystack) of the final tree: the tree that went through the cache calls vs the one that did not
        if full != plain {
            let i = full.iter().zip(plain.iter()).position(|(a, b)| a != b).unwrap_or(0);
            return o.fail(format!("trace of haystack #{i} differs between the tree with cache warm-ups and the tree without: {} vs {}", full.get(i).unwrap_or(&Value::Null), plain.get(i).unwrap_or(&Value::Null)), "cache-visible");
        }
        return o;
    }
    // observation of the empty tree (before the first op)
    let mut j = 0usize; // next step of the cache-free run
    let mut prev: Option<Value> = None;
    for (i, op) in ops.iter().enumerate() {
        if is_cache(op) {
            if let Some(p) = &prev {
                let mut want = p.clone();
                want["rem"] = Value::Null;
                if full[i] != want {
                    return o.fail(format!("op {i} (cache) changed the observable behaviour"), "cache-visible");
                }
            }
        } else {
            if j >= plain.len() || full[i] != plain[j] {
                return o.fail(format!("op {i}: the tree with cache warm-ups answers differently from the tree without"), "cache-visible");
            }
            j += 1;
        }
        prev = Some(full[i].clone());
    }
    o
}

fn main() {
    main_with(gen, run12);
}
