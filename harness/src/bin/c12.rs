//! C12 — regex caching is transparent: implementation side.
//! Same case format, same runner and same model driver as C08 (see c08.rs); the generator interleaves
//! `cache(limit, level)` densely with updates and the runner adds an oracle evaluated on the
//! implementation alone: the observations of the history are compared with those of the same history with
//! every cache op removed (a cache op must change nothing; later ops must see the same tree behaviour).
#[path = "c08.rs"]
#[allow(dead_code)]
mod base;

use base::*;
use rio_harness::*;
use serde_json::{json, Value};

fn gen(args: &Args, emit: &mut dyn FnMut(Value)) {
    let mut rng = Prng::new(args.seed ^ 0xC12);
    if args.tier == "thorough" {
        // exhaustive (limit, level) over every tree built from <=4 patterns of the C08 pool
        let pool = exh_pool();
        let hay = exh_haystacks();
        for k in 1..=4usize {
            for sub in subsets(pool.len(), k) {
                let orders: Vec<Vec<usize>> = if k <= 3 { perms(k) } else { vec![(0..k).collect(), (0..k).rev().collect()] };
                for ord in &orders {
                    let inserts: Vec<Value> = ord.iter().map(|&j| json!(["i", pat_json(&pool[sub[j]]), format!("i{}", sub[j]), sub[j]])).collect();
                    for limit in 0..=(2 * k as u64) {
                        for level in [Value::Null, json!(0), json!(1), json!(2), json!(3)] {
                            let mut ops = inserts.clone();
                            ops.push(json!(["c", limit, level]));
                            // a second warm-up and an update after caching
                            ops.push(json!(["c", 1, Value::Null]));
                            ops.push(json!(["r", format!("i{}", sub[0])]));
                            emit_modes(emit, false, false, &ops, &hay, true, &["beh", "snap", "real"]);
                        }
                    }
                }
            }
        }
    }
    for _ in 0..args.n {
        let pool = pattern_pool(&mut rng, false);
        let unique = rng.chance(1, 4);
        let ic = rng.chance(1, 2);
        let nops = rng.range(3, 16);
        let ops = history(&pool, unique, &mut rng, nops, 8);
        let hay = haystacks(&pool, &mut rng, 8);
        emit_modes(emit, ic, unique, &ops, &hay, false, &["beh", "snap", "real"]);
    }
}

fn perms(n: usize) -> Vec<Vec<usize>> {
    if n == 0 {
        return vec![vec![]];
    }
    let mut out = Vec::new();
    for p in perms(n - 1) {
        for i in 0..=p.len() {
            let mut q = p.clone();
            q.insert(i, n - 1);
            out.push(q);
        }
    }
    out
}

fn subsets(n: usize, k: usize) -> Vec<Vec<usize>> {
    let mut out = Vec::new();
    for mask in 0u32..(1 << n) {
        if mask.count_ones() as usize == k {
            out.push((0..n).filter(|i| mask & (1 << i) != 0).collect());
        }
    }
    out
}

fn run12(case: &Value) -> Obs {
    let mut o = run(case);
    if o.oracle != "ok" || s(case, "mode").as_deref() != Some("beh") {
        return o;
    }
    let ops = match case.get("ops").and_then(|o| o.as_array()) {
        Some(a) => a.clone(),
        None => return o,
    };
    // domain of C12 at tree level: no stored pattern is the empty string (DESIGN 6-O3); such cases are only
    // compared with the model
    let unique = case.get("unique").and_then(|b| b.as_bool()).unwrap_or(false);
    if let Some((_, pats)) = parse_ops(case, unique) {
        if pats.iter().any(|p| render(p).is_empty()) {
            return o.tag("empty-pattern");
        }
    }
    let is_cache = |op: &Value| op.as_array().and_then(|a| a.first()).and_then(|k| k.as_str()) == Some("c");
    let ncache = ops.iter().filter(|op| is_cache(op)).count();
    o.tags.push(format!("ncache:{}", ncache.min(6)));
    if ncache == 0 {
        return o.trivial(true);
    }
    let mut stripped = case.clone();
    stripped["ops"] = Value::Array(ops.iter().filter(|op| !is_cache(op)).cloned().collect());
    let base = run(&stripped);
    let (full, plain) = match (o.obs.as_array(), base.obs.as_array()) {
        (Some(a), Some(b)) => (a.clone(), b.clone()),
        _ => return o,
    };
    // observation of the empty tree (before the first op)
    let mut j = 0usize; // next step of the cache-free run
    let mut prev: Option<Value> = None;
    for (i, op) in ops.iter().enumerate() {
        if is_cache(op) {
            if let Some(p) = &prev {
                let mut want = p.clone();
                want["rem"] = Value::Null;
                if full[i] != want {
                    return o.fail(format!("op {i} (cache) changed the observable behaviour"), "cache-visible");
                }
            }
        } else {
            if j >= plain.len() || full[i] != plain[j] {
                return o.fail(format!("op {i}: the tree with cache warm-ups answers differently from the tree without"), "cache-visible");
            }
            j += 1;
        }
        prev = Some(full[i].clone());
    }
    o
}

fn main() {
    main_with(gen, run12);
}
