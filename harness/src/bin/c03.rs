//! C03 — body filtering is invariant under chunking: implementation side.
//! case: {"body": hex (valid UTF-8), "filters": [..], "headers": [[n,v]..], "scheds": [[cuts]..], "shape": ".."}
//! obs:  {"one": hex of filter(b)+end(), "sch": ["=" | hex of the concatenated output of the schedule, ..]}
//! oracle (implementation alone): every schedule gives the single-chunk output (signature "chunk-variance": a plain
//! VIOLATION since the D4 repair fe7eac6).  The tokenizer context of the cuts (raw-text zone / comment / declaration /
//! CDATA / safe) is computed with the real tokenizer and kept as tags (coverage statistics).
#[path = "../filter_gen.rs"]
mod filter_gen;
use filter_gen::*;
use rio_harness::*;
use serde_json::{json, Value};

/// symbols of the exhaustive small-scope enumeration (thorough tier)
const SYMS: &[&str] = &["<p>", "</p>", "x", "<", ">", "<!--", "-->", "<textarea>", "</textarea>", "\u{e9}"];

fn exh_filters() -> Vec<Vec<FSpec>> {
    let h = |a: &str, sel: Option<&str>| FSpec::Html { action: a.to_string(), path: vec!["p".to_string()], sel: sel.map(|s| s.to_string()), value: "\u{a7}".to_string() };
    vec![
        vec![h("append_child", None)],
        vec![h("append_child", Some("rio-never"))],
        vec![h("prepend_child", None)],
        vec![h("prepend_child", Some("rio-never"))],
        vec![h("replace", None)],
        vec![h("replace", Some("*"))],
        vec![FSpec::Text { action: "prepend_text".to_string(), content: "\u{a7}".to_string() }, h("append_child", None)],
    ]
}

fn gen(args: &Args, emit: &mut dyn FnMut(Value)) {
    let mut rng = seeded(args.seed);
    if args.tier == "thorough" {
        // all bodies of <= 5 symbols over the markup alphabet x 7 filter lists x all single cuts + byte-at-a-time
        let mut seqs: Vec<Vec<usize>> = vec![vec![]];
        let mut frontier: Vec<Vec<usize>> = vec![vec![]];
        for _ in 0..5 {
            let mut next = Vec::new();
            for s in &frontier {
                for k in 0..SYMS.len() {
                    let mut s2 = s.clone();
                    s2.push(k);
                    next.push(s2);
                }
            }
            seqs.extend(next.iter().cloned());
            frontier = next;
        }
        let fl = exh_filters();
        for (n, s) in seqs.iter().enumerate() {
            let body: String = s.iter().map(|k| SYMS[*k]).collect();
            let len = body.len();
            let mut scheds: Vec<Vec<usize>> = (1..len).map(|p| vec![p]).collect();
            if len > 1 {
                scheds.push((1..len).collect());
            }
            scheds.push(vec![len]);
            let f = &fl[n % fl.len()];
            emit(json!({"body": hex(body.as_bytes()), "filters": f.iter().map(|x| x.to_json()).collect::<Vec<_>>(), "headers": [], "scheds": scheds_json(&scheds), "shape": "exh", "exh": true}));
        }
    }
    // Fixed multi-byte bodies, present in EVERY run (both tiers): 2-, 3- and 4-byte characters in ordinary text, in
    // attribute values (quoted and unquoted), in tag-like positions, directly before / after tags, in comments and raw
    // text, with every single cut enumerated — so each intra-character cut (after byte 1 of 2, 1-2 of 3, 1-3 of 4) is hit
    // while the filter is acting, holding a partial tag, or buffering an element.
    let mb_bodies: &[&str] = &[
        "<html><body class=\"\u{1f600}\u{e9}\u{20ac}\" data-\u{20ac}='\u{1d11e}'>\u{e9}<p>\u{20ac}\u{1f600}</p>\u{1f600}<div title=\u{e9}\u{1f600}>x\u{1d11e}</div>\u{1d11e}</body></html>",
        "\u{1f600}<p>\u{1f600}</p>\u{1f600}<div>\u{20ac}</div>\u{20ac}<p>\u{e9}</p>\u{e9}",
        "<div><p>a\u{1f600}<b>\u{1d11e}</b>\u{4e2d}\u{6587}<</p>\u{1f600}<\u{1f600}</div>\u{e9}<",
        "<html><head><title>\u{1f600}\u{20ac}</title><meta name=\"\u{1f600}\"></head><body>\u{1f600}<!-- \u{1d11e} --><div>\u{20ac}<p",
        "<p>\u{e9}\u{e9}\u{e9}</p><p \u{1f600}=\"\u{1f600}\">\u{1f600}\u{1f600}</p\u{20ac}><div/>\u{1d11e}<br>\u{1d11e}",
        "\u{1d11e}\u{1f600}\u{20ac}\u{e9}a\u{e9}\u{20ac}\u{1f600}\u{1d11e}",
    ];
    let h = |a: &str, path: &[&str], sel: Option<&str>, v: &str| FSpec::Html { action: a.to_string(), path: path.iter().map(|x| x.to_string()).collect(), sel: sel.map(|x| x.to_string()), value: v.to_string() };
    let mb_filters: Vec<Vec<FSpec>> = vec![
        vec![h("prepend_child", &["p"], None, "\u{a7}\u{1f600}")],
        vec![h("append_child", &["div"], Some("rio-never"), "<ins>\u{1d11e}</ins>")],
        vec![h("replace", &["p"], None, "\u{20ac}")],
        vec![h("append_child", &["html", "body"], None, "\u{1f600}"), h("prepend_child", &["html", "body", "p"], Some("rio-never"), "\u{e9}")],
        vec![FSpec::Text { action: "prepend_text".to_string(), content: "\u{1f600}".to_string() }, h("replace", &["div"], Some("*"), "\u{1d11e}"), FSpec::Text { action: "append_text".to_string(), content: "\u{20ac}".to_string() }],
        vec![],
    ];
    for (i, b) in mb_bodies.iter().enumerate() {
        for k in 0..3 {
            let f = &mb_filters[(i + 2 * k) % mb_filters.len()];
            let len = b.len();
            let mut scheds: Vec<Vec<usize>> = (0..=len).map(|p| vec![p]).collect();
            scheds.push((1..len).collect());
            scheds.push((1..=(len - 1) / 3).map(|j| j * 3).collect());
            emit(json!({"body": hex(b.as_bytes()), "filters": f.iter().map(|x| x.to_json()).collect::<Vec<_>>(), "headers": [], "scheds": scheds_json(&scheds), "shape": "multibyte-fixed"}));
        }
    }
    // diff-directed hints first (empty on the unchanged tree), then the deterministic boundary families
    // (long held tails, long buffers, many siblings) and the raw-text / white-space family (every raw-text element kind x
    // markup-like content x end tags with white space before '>' x targets on the element / parent / sibling, every single
    // cut): in EVERY run
    let hs = hints();
    let hinted = if hs.is_empty() { Vec::new() } else { hint_cases_html(&hs) };
    for bc in hinted.into_iter().chain(boundary_cases()).chain(rawtext_cases()) {
        emit(json!({"body": hex(&bc.body), "filters": bc.filters.iter().map(|f| f.to_json()).collect::<Vec<_>>(), "headers": [], "scheds": scheds_json(&bc.scheds), "shape": bc.shape}));
    }
    for _ in 0..args.n {
        let (body, shape) = gen_body(&mut rng);
        let filters = if rng.chance(1, 12) {
            // text filters only
            let k = rng.range(1, 3);
            (0..k).map(|i| gen_text_filter(&mut rng, i, true)).collect()
        } else {
            gen_filters_n(&mut rng, true, true, 4)
        };
        let headers = gen_headers(&mut rng);
        let scheds = gen_scheds(&mut rng, body.len(), true, 4);
        emit(json!({
            "body": hex(body.as_bytes()),
            "filters": filters.iter().map(|f| f.to_json()).collect::<Vec<_>>(),
            "headers": headers_json(&headers),
            "scheds": scheds_json(&scheds),
            "shape": shape,
        }));
    }
}

fn run(case: &Value) -> Obs {
    let body = match parse_body(case) {
        Some(b) => b,
        None => return Obs::invalid("body"),
    };
    if std::str::from_utf8(&body).is_err() {
        // outside the quantifier of C03 (C04 covers arbitrary bytes)
        return Obs::invalid("body is not valid UTF-8");
    }
    let fs = match parse_filters(case) {
        Some(f) => f,
        None => return Obs::invalid("filters"),
    };
    let headers = match parse_headers(case) {
        Some(h) => h,
        None => return Obs::invalid("headers"),
    };
    let scheds = match parse_scheds(case, body.len()) {
        Some(s) => s,
        None => return Obs::invalid("scheds"),
    };
    let single = run_chain(&fs, &headers, &[body.clone()]);
    if single.kinds.iter().any(|k| *k == "decode" || *k == "encode") {
        return Obs::invalid("compressed chains belong to C14");
    }
    let one = single.concat();
    let mut sch = Vec::new();
    let mut failing: Vec<usize> = Vec::new();
    for (i, cuts) in scheds.iter().enumerate() {
        let chunks = split_at_cuts(&body, cuts);
        let r = run_chain(&fs, &headers, &chunks);
        let out = r.concat();
        if out == one {
            sch.push(json!("="));
        } else {
            sch.push(json!(hex(&out)));
            failing.push(i);
        }
    }
    let mut o = Obs::new(json!({"one": hex(&one), "sch": sch})).trivial(single.kinds.is_empty() || body.is_empty());
    if let Some(shape) = case.get("shape").and_then(|s| s.as_str()) {
        o.tags.push(format!("shape:{shape}"));
    }
    o.tags.push(format!("chain:{}", single.kinds.join("+")));
    if one != body {
        o.tags.push("acted".to_string());
    }
    // coverage of the cut contexts (first html stage's view = the body itself)
    let zones = unsafe_zones(&body);
    let mut seen: Vec<&str> = Vec::new();
    for cuts in &scheds {
        for p in cuts {
            let c = classify_cut(&zones, *p).unwrap_or("safe");
            if !seen.contains(&c) {
                seen.push(c);
            }
        }
    }
    for c in seen {
        o.tags.push(format!("ctx:{c}"));
    }
    // The hypothesis of Rio.C03.chunk_invariant_partial (semantic safe cut: prefix stability + restart + held token),
    // evaluated with the REAL tokenizer at every single cut of a one-html-stage chain, against the syntactic classes.
    // "sem-unsafe@syn-safe" would mean the syntactic SafeCuts of DESIGN is wider than what the splitting lemma covers.
    if single.kinds == ["html"] {
        let mut counts = [0usize; 4];
        for cuts in &scheds {
            if cuts.len() == 1 && cuts[0] > 0 && cuts[0] < body.len() {
                let p = cuts[0];
                let sem = safe_cut_sem(&[], &body[..p], &body[p..]);
                let syn = classify_cut(&zones, p).is_none();
                counts[(if syn { 0 } else { 2 }) + (if sem { 0 } else { 1 })] += 1;
            }
        }
        for (i, name) in ["sem-safe@syn-safe", "sem-unsafe@syn-safe", "sem-safe@syn-unsafe", "sem-unsafe@syn-unsafe"].iter().enumerate() {
            if counts[i] > 0 {
                o.tags.push(format!("{name}:cases"));
            }
        }
        if counts[1] > 0 {
            o.tags.push(format!("sem-unsafe@syn-safe:cuts={}", counts[1].min(9)));
        }
    }
    if !failing.is_empty() {
        // Since fe7eac6 (tokenizer context carried across chunks) chunk invariance holds at EVERY cut: any difference is a
        // violation.  The tokenizer context of the cuts is kept as a tag (statistics only).
        let i = failing[0];
        let chunks = split_at_cuts(&body, &scheds[i]);
        let class = classify_schedule(&fs, &headers, &chunks).unwrap_or("safe-cuts");
        o.tags.push(format!("fail-context:{class}"));
        return o.fail(format!("schedule {:?} differs from the single-chunk run (context of the cuts: {class})", scheds[i]), "chunk-variance");
    }
    o
}

fn main() {
    main_with(gen, run);
}
