//! C02 — incremental rule updates ≡ rebuilding; clones are isolated: implementation side.
//!
//! case: {"cfg":CFG, "pool":[RULE…], "probes":[REQ…], "ops":[OP…]}        (CFG/RULE/REQ: src/router_gen.rs)
//!   OP = {"op":"insert","r":i}                         Router::insert(pool[i])            (id must not be live)
//!      | {"op":"remove","id":s}                        Router::remove(s)                  (live or not)
//!      | {"op":"batch","ids":[s…]}                     Router::batch_remove(set)
//!      | {"op":"change","a":[i…],"u":[i…],"d":[s…]}    Router::apply_change_set(added, updated, deleted)
//!      | {"op":"derive","a":[i…],"u":[i…],"d":[s…]}    RuleChangeSet::update_existing_router(Arc<current>) -> new current;
//!                                                      the Arc'd original is retained and re-probed after every later op
//!      | {"op":"cache","n":k|null}                     Router::cache(Some(k) | None)
//!      | {"op":"clone","keep":"clone"|"orig","ops":[OP…]}   clone the current router, run the (non-clone) ops on the CLONE,
//!                                                      re-probe the original; then continue with the clone (original
//!                                                      retained) or with the original (clone dropped)
//!   ids of `pool` entries may repeat (two versions of one rule); a history is valid when live ids stay unique:
//!   an inserted / added id is not live at that point, added and updated ids are pairwise distinct.
//! obs:  per op {"k":kind, "len":Router::len, "m":[sorted match ids per probe], "ret": id|null (remove only),
//!               "sub":[per sub-op obs on the clone], "orig":{"len","m"} (clone only: the original afterwards)}
//! Oracles evaluated on the implementation alone, after EVERY op (first failure wins):
//!   remove-return          remove(id) of a live id returns that very rule, of a dead id returns None
//!   len-differs            len() == number of live rules
//!   removed-still-matches  no probe is answered with an id that is not live
//!   incremental-differs    every probe is answered as by a router rebuilt from scratch from the live rules
//!   clone-aliasing         retained originals of clones still give the answers (and len) they gave when cloned; W12: and
//!                          their FULL observation (Ctx::full_obs: routes() ids, get_route, the routes listed by
//!                          trace_request, and Route::capture of every matched route for every probe — the capture regex
//!                          cells ARE shared with the clone and ARE written by the clone's cache(): Rio.C02.clone_isolation)
#[path = "../router_gen.rs"]
mod router_gen;

use redirectionio::api::{Rule, RuleChangeSet};
use redirectionio::http::Request;
use redirectionio::router::Router;
use redirectionio::RouterConfig;
use rio_harness::*;
use router_gen::*;
use serde_json::{json, Map, Value};
use std::collections::{BTreeMap, HashSet};
use std::sync::Arc;

// ------------------------------------------------------------------------------------------------
// generator
// ------------------------------------------------------------------------------------------------

const MARKER_HOSTS: &[&str] = &["@l.com", "@s.a.com", "a@d.com", "shop-@d.a.com", "@x"];

/// Pool: rules from the trigger grammar (+ forced marker hosts, the D2 class), and second versions of
/// some ids (same id, other triggers) for re-insertion / update with different content.
fn gen_pool(rng: &mut Prng) -> Vec<Value> {
    let n = rng.range(3, 9);
    let mut pool = gen_rules(rng, n, "r");
    for r in pool.iter_mut() {
        if rng.chance(1, 4) {
            r["host"] = json!(*rng.pick(MARKER_HOSTS));
            r["markers"] = json!("dlsx");
        }
    }
    let versions = rng.below(4);
    for _ in 0..versions {
        let src = rng.below(n);
        let id = pool[src]["id"].as_str().unwrap().to_string();
        let mut v = if rng.chance(1, 2) { gen_rule(rng, &id) } else { pool[rng.below(n)].clone() };
        v["id"] = json!(id);
        if rng.chance(1, 3) {
            v["host"] = json!(*rng.pick(MARKER_HOSTS));
            v["markers"] = json!("dlsx");
        }
        pool.push(v);
    }
    pool
}

fn id_of(pool: &[Value], i: usize) -> String {
    pool[i]["id"].as_str().unwrap().to_string()
}

/// Generator-side view of the live set: id -> pool index.
type Live = BTreeMap<String, usize>;

fn all_ids(pool: &[Value]) -> Vec<String> {
    let mut ids: Vec<String> = (0..pool.len()).map(|i| id_of(pool, i)).collect();
    ids.sort();
    ids.dedup();
    ids
}

fn pick_ids(rng: &mut Prng, pool: &[Value], live: &Live, max: usize) -> Vec<String> {
    // mostly live ids, sometimes dead or unknown ones
    let ids = all_ids(pool);
    let live_ids: Vec<&String> = live.keys().collect();
    let k = rng.range(0, max);
    let mut out = Vec::new();
    for _ in 0..k {
        let id = if !live_ids.is_empty() && rng.chance(3, 4) {
            (*rng.pick(&live_ids)).clone()
        } else if rng.chance(1, 8) {
            "nope".to_string()
        } else {
            rng.pick(&ids).clone()
        };
        if !out.contains(&id) {
            out.push(id);
        }
    }
    out
}

fn gen_change(rng: &mut Prng, pool: &[Value], live: &mut Live) -> (Vec<usize>, Vec<usize>, Vec<String>) {
    let deleted = pick_ids(rng, pool, live, 3);
    // updated: pool entries whose id is (mostly) live; distinct ids
    let mut updated: Vec<usize> = Vec::new();
    let mut used: HashSet<String> = HashSet::new();
    for _ in 0..rng.range(0, 3) {
        let i = rng.below(pool.len());
        let id = id_of(pool, i);
        if (live.contains_key(&id) || rng.chance(1, 5)) && used.insert(id) {
            updated.push(i);
        }
    }
    for id in &deleted {
        live.remove(id);
    }
    for &i in &updated {
        live.remove(&id_of(pool, i));
    }
    for &i in &updated {
        live.insert(id_of(pool, i), i);
    }
    let mut added: Vec<usize> = Vec::new();
    for _ in 0..rng.range(0, 3) {
        let i = rng.below(pool.len());
        let id = id_of(pool, i);
        if !live.contains_key(&id) && used.insert(id.clone()) {
            added.push(i);
            live.insert(id, i);
        }
    }
    (added, updated, deleted)
}

fn gen_op(rng: &mut Prng, pool: &[Value], live: &mut Live, allow_clone: bool) -> Value {
    loop {
        match rng.below(20) {
            0..=6 => {
                // insert a pool entry whose id is not live
                let cands: Vec<usize> = (0..pool.len()).filter(|&i| !live.contains_key(&id_of(pool, i))).collect();
                if cands.is_empty() {
                    continue;
                }
                let i = *rng.pick(&cands);
                live.insert(id_of(pool, i), i);
                return json!({"op":"insert","r":i});
            }
            7..=10 => {
                let ids = pick_ids(rng, pool, live, 1);
                let id = match ids.first() {
                    Some(id) => id.clone(),
                    None => continue,
                };
                live.remove(&id);
                return json!({"op":"remove","id":id});
            }
            11 | 12 => {
                let ids = pick_ids(rng, pool, live, 4);
                for id in &ids {
                    live.remove(id);
                }
                return json!({"op":"batch","ids":ids});
            }
            13..=15 => {
                let (a, u, d) = gen_change(rng, pool, live);
                return json!({"op":"change","a":a,"u":u,"d":d});
            }
            16 => {
                return json!({"op":"cache","n": if rng.chance(1, 3) { Value::Null } else { json!(*rng.pick(&[0u64, 1, 2, 5, 1000])) }});
            }
            17 => {
                if !allow_clone {
                    continue;
                }
                let (a, u, d) = gen_change(rng, pool, live);
                return json!({"op":"derive","a":a,"u":u,"d":d});
            }
            _ => {
                if !allow_clone {
                    continue;
                }
                let keep_clone = rng.chance(1, 2);
                let mut sub_live = live.clone();
                let k = rng.range(1, 5);
                let mut sub: Vec<Value> = (0..k).map(|_| gen_op(rng, pool, &mut sub_live, false)).collect();
                if rng.chance(1, 2) {
                    sub.push(json!({"op":"cache","n": null}));
                }
                if keep_clone {
                    *live = sub_live;
                }
                return json!({"op":"clone","keep": if keep_clone { "clone" } else { "orig" },"ops":sub});
            }
        }
    }
}


// ------------------------------------------------------------------------------------------------
// scenario histories (W2, second pass): shapes the random histories reach too rarely
// ------------------------------------------------------------------------------------------------

fn shuffle<T>(rng: &mut Prng, v: &mut Vec<T>) {
    for i in (1..v.len()).rev() {
        let j = rng.below(i + 1);
        v.swap(i, j);
    }
}

/// Scenario A — a regex tree (marker paths of one bucket, or the marker hosts of a HostMatcher) is
/// emptied by SINGLE removes (sometimes by a batch), then a marker rule is inserted again.  The literal
/// parts of the patterns contain upper-case letters and the probes come in every letter case, so under
/// ignore_path_and_query_case / ignore_host_case the tree must still match case-insensitively after
/// having been empty (and case-sensitively when the flag is off).
fn gen_case_flag_scenario(rng: &mut Prng) -> Value {
    let mut cfg = gen_cfg(rng);
    let on_path = rng.chance(1, 2);
    if rng.chance(5, 6) {
        cfg[if on_path { "ipc" } else { "ihc" }] = json!(true);
    }
    const MPATHS: &[&str] = &["/A/@d", "/A/@l", "/Ab@x", "/A/@d/C", "/B/@d-@l", "/a/@d"];
    const MHOSTS: &[&str] = &["Shop-@d.A.com", "A@d.com", "@l.COM", "@l.A.com", "shop-@d.a.com"];
    let shared_host: Value = if rng.chance(1, 2) { Value::Null } else { json!(*rng.pick(&["A.com", "a.com", "@l.COM"])) };
    let nm = rng.range(1, 3);
    let mut pool: Vec<Value> = Vec::new();
    let p0 = rng.below(MPATHS.len());
    let h0 = rng.below(MHOSTS.len());
    for i in 0..nm {
        let mut r = json!({"id": format!("m{i}"), "rank": i, "markers": "dlsx"});
        if on_path {
            // distinct patterns: the tree is a node over several leaves
            r["path"] = json!(MPATHS[(p0 + i) % MPATHS.len()]);
            if !shared_host.is_null() {
                r["host"] = shared_host.clone();
            }
        } else {
            r["host"] = json!(MHOSTS[(h0 + i) % MHOSTS.len()]);
            r["path"] = json!(*rng.pick(&["/X", "/x", "/A/@d"]));
        }
        pool.push(r);
    }
    // a static companion in the same matcher (keeps the matcher alive while its tree is empty), sometimes
    let companion = rng.chance(1, 2);
    let ci = pool.len();
    {
        let mut r = json!({"id": "st", "rank": 7, "path": *rng.pick(&["/A/B", "/X", "/a"])});
        if on_path && !shared_host.is_null() {
            r["host"] = shared_host.clone();
        } else if !on_path {
            r["host"] = json!(*rng.pick(&["A.com", "b.com"]));
        }
        pool.push(r);
    }
    // second versions (same ids, other upper-case patterns) for the re-insertion
    let first_version = pool.len();
    for i in 0..nm {
        let mut r = pool[i].clone();
        if on_path {
            r["path"] = json!(*rng.pick(MPATHS));
        } else {
            r["host"] = json!(*rng.pick(MHOSTS));
        }
        pool.push(r);
    }
    let mut ops: Vec<Value> = Vec::new();
    let mut order: Vec<usize> = (0..nm).collect();
    shuffle(rng, &mut order);
    if companion && rng.chance(1, 2) {
        ops.push(json!({"op":"insert","r":ci}));
    }
    for &i in &order {
        ops.push(json!({"op":"insert","r":i}));
    }
    if companion && !ops.iter().any(|o| o["r"] == json!(ci)) {
        ops.push(json!({"op":"insert","r":ci}));
    }
    if rng.chance(1, 4) {
        ops.push(json!({"op":"cache","n": if rng.chance(1, 2) { Value::Null } else { json!(2) }}));
    }
    // empty the tree
    shuffle(rng, &mut order);
    if nm >= 2 && rng.chance(1, 2) {
        ops.push(json!({"op":"batch","ids": order.iter().map(|i| format!("m{i}")).collect::<Vec<String>>()}));
    } else {
        for &i in &order {
            ops.push(json!({"op":"remove","id": format!("m{i}")}));
        }
    }
    if companion && rng.chance(1, 3) {
        ops.push(json!({"op":"remove","id":"st"}));
    }
    // insert marker rules again (either version), then a few more steps
    shuffle(rng, &mut order);
    let back = rng.range(1, nm);
    let mut back_in: Vec<usize> = Vec::new();
    for &i in order.iter().take(back) {
        let r = if rng.chance(1, 2) { i } else { first_version + i };
        back_in.push(r);
        ops.push(json!({"op":"insert","r": r}));
    }
    if rng.chance(1, 2) {
        let i = order[0];
        let r = if rng.chance(1, 2) { i } else { first_version + i };
        back_in.push(r);
        ops.push(json!({"op":"remove","id": format!("m{i}")}));
        ops.push(json!({"op":"insert","r": r}));
    }
    // probes: instances (in upper, lower and written case) of the patterns inserted after the tree was empty,
    // plus fixed ones in every letter case
    let mut probes: Vec<Value> = Vec::new();
    for k in 0..4 {
        let one = vec![pool[back_in[k % back_in.len()]].clone()];
        probes.push(gen_request(rng, &one));
    }
    let fixed_paths = ["/a/1", "/A/1", "/a/x", "/ABq", "/abq", "/a/1/c", "/A/1/C", "/b/1-x", "/B/1-x", "/X", "/x"];
    let fixed_hosts = ["shop-7.a.com", "SHOP-7.A.COM", "Shop-7.A.com", "a1.com", "A1.com", "abc.com", "abc.COM", "x.a.com", "X.A.com", "A.com", "a.com"];
    for _ in 0..4 {
        let mut q = json!({"path": *rng.pick(&fixed_paths)});
        if !on_path || !shared_host.is_null() || rng.chance(1, 3) {
            q["host"] = json!(*rng.pick(&fixed_hosts));
        }
        probes.push(q);
    }
    json!({"cfg": cfg, "pool": pool, "probes": probes, "ops": ops})
}

/// Scenario B — two or three live rules share the SAME static path in the SAME innermost bucket (all
/// other triggers identical, incl. header / date-time condition groups, method lists, ip ranges), another
/// rule is removed by batch_remove / a change-set (which leaves the `count`s stale), then one of the
/// sharers is removed by a single remove; probes hit the sharers, `len` is observed after every step.
fn gen_sharers_scenario(rng: &mut Prng) -> Value {
    let cfg = gen_cfg(rng);
    let mut base = gen_rule(rng, "s0");
    base["path"] = json!(*rng.pick(&["/a", "/a/b", "/A", "/x_y"]));
    if rng.chance(1, 2) {
        // make sure a condition-group layer is involved half of the time
        if rng.chance(1, 2) {
            base["headers"] = json!([gen_header_cond(rng)]);
        } else {
            base["weekdays"] = json!([rng.below(7), rng.below(7), rng.below(7)]);
        }
    }
    let k = rng.range(2, 3);
    let mut pool: Vec<Value> = Vec::new();
    for i in 0..k {
        let mut r = base.clone();
        r["id"] = json!(format!("s{i}"));
        r["rank"] = json!(i);
        pool.push(r);
    }
    // others: one in the same bucket chain but another path, one unrelated, one second version of s0 elsewhere
    let mut o0 = base.clone();
    o0["id"] = json!("o0");
    o0["path"] = json!(*rng.pick(&["/zzz", "/a/@d", "/a/1"]));
    o0["markers"] = json!("d");
    pool.push(o0);
    pool.push(gen_rule(rng, "o1"));
    let mut v = gen_rule(rng, "s0");
    v["id"] = json!("s0");
    pool.push(v);
    let (io0, io1, iv) = (k, k + 1, k + 2);
    let mut ops: Vec<Value> = Vec::new();
    let mut ins: Vec<usize> = (0..k).chain([io0, io1]).collect();
    shuffle(rng, &mut ins);
    for i in ins {
        ops.push(json!({"op":"insert","r":i}));
    }
    // touch another rule with a batch removal or a change-set
    match rng.below(4) {
        0 => ops.push(json!({"op":"batch","ids":["o0"]})),
        1 => ops.push(json!({"op":"batch","ids":["o1","nope"]})),
        2 => ops.push(json!({"op":"change","a":[],"u":[io1],"d":["o0"]})),
        _ => ops.push(json!({"op":"change","a":[],"u":[],"d":["o1"]})),
    }
    if rng.chance(1, 4) {
        ops.push(json!({"op":"cache","n":null}));
    }
    // single removes of sharers, one by one, sometimes re-inserting
    let mut order: Vec<usize> = (0..k).collect();
    shuffle(rng, &mut order);
    let first = order[0];
    ops.push(json!({"op":"remove","id": format!("s{first}")}));
    match rng.below(4) {
        0 => ops.push(json!({"op":"insert","r": first})),
        1 => {
            if first == 0 {
                ops.push(json!({"op":"insert","r": iv}));
            } else {
                ops.push(json!({"op":"insert","r": first}));
            }
        }
        2 => {
            let second = order[1];
            ops.push(json!({"op":"remove","id": format!("s{second}")}));
        }
        _ => {}
    }
    if rng.chance(1, 2) {
        let last = order[k - 1];
        ops.push(json!({"op":"remove","id": format!("s{last}")}));
    }
    let sharer = vec![pool[1].clone()];
    let mut probes: Vec<Value> = (0..4).map(|_| gen_request(rng, &sharer)).collect();
    probes.push(gen_request(rng, &pool));
    probes.push(gen_request(rng, &pool));
    json!({"cfg": cfg, "pool": pool, "probes": probes, "ops": ops})
}

fn gen_case(rng: &mut Prng) -> Value {
    let cfg = gen_cfg(rng);
    let pool = gen_pool(rng);
    let probes: Vec<Value> = (0..6).map(|_| gen_request(rng, &pool)).collect();
    let len = match rng.below(4) {
        0 => rng.range(1, 8),
        1 => rng.range(8, 20),
        _ => rng.range(20, 40),
    };
    let mut live = Live::new();
    let mut ops = Vec::new();
    while ops.len() < len {
        ops.push(gen_op(rng, &pool, &mut live, true));
    }
    json!({"cfg": cfg, "pool": pool, "probes": probes, "ops": ops})
}

/// The 4-rule pool of the exhaustive tier (+ a second version of p0 and of p2): a marker host (D2 class),
/// the same marker path under a static host, duplicate method entries, an any-host rule with a header
/// condition — every pair shares at least one bucket.
fn small_pool() -> Vec<Value> {
    vec![
        json!({"id":"p0","rank":1,"host":"@l.com","markers":"dl","path":"/a/@d"}),
        json!({"id":"p1","rank":2,"host":"a.com","markers":"d","path":"/a/@d"}),
        json!({"id":"p2","rank":3,"host":"a.com","methods":["GET","GET"],"path":"/a/1"}),
        json!({"id":"p3","rank":4,"headers":[{"name":"X-A","kind":"is_defined","value":null}],"path":"/a/1"}),
        json!({"id":"p0","rank":5,"host":"a.com","path":"/a/1"}),
        json!({"id":"p2","rank":6,"host":"@l.com","markers":"l","path":"/a/@d","methods":["GET"],"exclude":true}),
    ]
}

fn small_probes() -> Vec<Value> {
    vec![
        json!({"host":"a.com","method":"GET","headers":[["X-A","v"]],"path":"/a/1"}),
        json!({"host":"abc.com","method":"POST","path":"/a/1"}),
        json!({"host":"a.com","method":"POST","path":"/a/12"}),
        json!({"host":"x.org","headers":[["x-a",""]],"path":"/a/1"}),
        json!({"path":"/a/1"}),
        json!({"host":"abc.com","method":"GET","path":"/a/x"}),
    ]
}

/// Does the op keep live ids unique?  Updates `live` (id -> pool index).
fn step_live(pool: &[Value], live: &mut Live, op: &Value) -> bool {
    let idx = |v: &Value| -> Vec<usize> { v.as_array().map(|a| a.iter().filter_map(|x| x.as_u64().map(|x| x as usize)).collect()).unwrap_or_default() };
    let strs = |v: &Value| -> Vec<String> { v.as_array().map(|a| a.iter().filter_map(|x| x.as_str().map(|x| x.to_string())).collect()).unwrap_or_default() };
    match op["op"].as_str() {
        Some("insert") => {
            let i = op["r"].as_u64().unwrap() as usize;
            live.insert(id_of(pool, i), i).is_none()
        }
        Some("remove") => {
            live.remove(op["id"].as_str().unwrap());
            true
        }
        Some("batch") => {
            for id in strs(&op["ids"]) {
                live.remove(&id);
            }
            true
        }
        Some("change") | Some("derive") => {
            let (a, u, d) = (idx(&op["a"]), idx(&op["u"]), strs(&op["d"]));
            let mut seen = HashSet::new();
            for &i in a.iter().chain(u.iter()) {
                if !seen.insert(id_of(pool, i)) {
                    return false;
                }
            }
            for id in d {
                live.remove(&id);
            }
            for &i in &u {
                live.remove(&id_of(pool, i));
            }
            for &i in &u {
                live.insert(id_of(pool, i), i);
            }
            for &i in &a {
                if live.insert(id_of(pool, i), i).is_some() {
                    return false;
                }
            }
            true
        }
        Some("cache") => true,
        _ => false,
    }
}

fn gen_exhaustive(emit: &mut dyn FnMut(Value)) {
    let pool = small_pool();
    let probes = small_probes();
    let cfg = json!({"ihc": false, "ihdc": true, "ipc": false, "any": false});
    let ids = ["p0", "p1", "p2", "p3"];
    // alphabet A (length <= 4): every op kind
    let mut alpha: Vec<Value> = Vec::new();
    for i in 0..pool.len() {
        alpha.push(json!({"op":"insert","r":i}));
    }
    for id in ids {
        alpha.push(json!({"op":"remove","id":id}));
    }
    alpha.push(json!({"op":"batch","ids":["p0","p1"]}));
    alpha.push(json!({"op":"batch","ids":["p2","p3","p0"]}));
    alpha.push(json!({"op":"change","a":[1],"u":[4],"d":["p3"]}));
    alpha.push(json!({"op":"change","a":[3],"u":[5, 0],"d":["p1"]}));
    alpha.push(json!({"op":"derive","a":[2],"u":[],"d":["p0"]}));
    alpha.push(json!({"op":"cache","n":null}));
    // alphabet B (length 5): insert / remove only
    let alpha_b: Vec<Value> = alpha.iter().filter(|o| matches!(o["op"].as_str(), Some("insert" | "remove"))).cloned().collect();
    fn rec(pool: &[Value], alpha: &[Value], max: usize, min_emit: usize, hist: &mut Vec<Value>, live: &Live, emit: &mut dyn FnMut(&[Value])) {
        if hist.len() >= min_emit && !hist.is_empty() {
            emit(hist);
        }
        if hist.len() == max {
            return;
        }
        for op in alpha {
            let mut l2 = live.clone();
            if !step_live(pool, &mut l2, op) {
                continue;
            }
            // removing a dead id twice in a row explores nothing new
            if op["op"] == "remove" && hist.last() == Some(op) {
                continue;
            }
            hist.push(op.clone());
            rec(pool, alpha, max, min_emit, hist, &l2, emit);
            hist.pop();
        }
    }
    let mut out = |h: &[Value]| {
        // observations are per prefix, so only maximal histories (and those that cannot be extended) are needed;
        // emitting every history keeps replays short — the number stays small enough
        emit(json!({"cfg": cfg, "pool": pool, "probes": probes, "ops": h, "exh": true}));
    };
    // only complete histories of the maximal length carry new information (every prefix is observed on the way),
    // plus shorter ones that are dead ends; emit histories of length max, and all of length < max that are leaves
    rec(&pool, &alpha, 4, 4, &mut Vec::new(), &Live::new(), &mut out);
    rec(&pool, &alpha_b, 5, 5, &mut Vec::new(), &Live::new(), &mut out);
    // clone-then-mutate over the small pool: every pair (prefix op, sub op) inside a clone, both continuations
    for first in &alpha {
        let mut live = Live::new();
        if !step_live(&pool, &mut live, &json!({"op":"insert","r":0})) || !step_live(&pool, &mut live, &json!({"op":"insert","r":2})) {
            continue;
        }
        let mut l1 = live.clone();
        if first["op"] == "derive" || !step_live(&pool, &mut l1, first) {
            continue;
        }
        for second in &alpha {
            let mut l2 = l1.clone();
            if second["op"] == "derive" || !step_live(&pool, &mut l2, second) {
                continue;
            }
            for keep in ["clone", "orig"] {
                let after = if keep == "clone" { &l2 } else { &live };
                let mut l3 = after.clone();
                let tail = json!({"op":"insert","r":3});
                let mut ops = vec![json!({"op":"insert","r":0}), json!({"op":"insert","r":2}), json!({"op":"clone","keep":keep,"ops":[first, second, {"op":"cache","n":null}]})];
                if step_live(&pool, &mut l3, &tail) {
                    ops.push(tail);
                }
                ops.push(json!({"op":"remove","id":"p0"}));
                emit(json!({"cfg": cfg, "pool": pool, "probes": probes, "ops": ops, "exh": true}));
            }
        }
    }
}

fn gen(args: &Args, emit0: &mut dyn FnMut(Value)) {
    let mut rng = Prng::new(args.seed);
    // sub-second bounds that the model cannot tell apart are written alike (router_gen::fix_frac)
    let emit = &mut |mut v: Value| {
        fix_case(&mut v);
        emit0(v)
    };
    if args.tier == "thorough" {
        gen_exhaustive(emit);
    }
    // diff-directed block (only when the library differs from the baseline; see router_gen::hint_block):
    // the hinted rule sets as pools, histories of n-1 / n / n+1 operations for every hinted number n
    if !the_hints().is_empty() {
        let mut lens = the_hints().sizes(300);
        for (cfg, pool, probes) in hint_block(&mut rng, (args.n / 4).clamp(40, 1000)) {
            if pool.len() > 80 {
                continue;
            }
            let probes: Vec<Value> = probes.into_iter().take(8).collect();
            let len = lens.pop().unwrap_or_else(|| rng.range(8, 30));
            let mut live = Live::new();
            let mut ops = Vec::new();
            while ops.len() < len {
                ops.push(gen_op(&mut rng, &pool, &mut live, true));
            }
            emit(json!({"cfg": cfg, "pool": pool, "probes": probes, "ops": ops}));
        }
        set_hint_level(1);
    }
    for i in 0..args.n {
        // a quarter of the cases are scenario histories (see above), the rest random histories
        match i % 8 {
            3 => emit(gen_case_flag_scenario(&mut rng)),
            7 => emit(gen_sharers_scenario(&mut rng)),
            _ => emit(gen_case(&mut rng)),
        }
    }
}

// ------------------------------------------------------------------------------------------------
// run
// ------------------------------------------------------------------------------------------------

struct Ctx {
    config: RouterConfig,
    pool: Vec<Rule>,
    probes: Vec<Request>,
    failure: Option<(String, &'static str)>,
    stats: BTreeMap<&'static str, usize>,
}

#[derive(Clone)]
struct Sys {
    router: Router<Rule>,
    live: BTreeMap<String, usize>,
}

struct Retained {
    router: Arc<Router<Rule>>,
    len: usize,
    answers: Vec<Vec<String>>,
    full: Value,
    since: String,
}

impl Ctx {
    fn fail(&mut self, why: String, sig: &'static str) {
        if self.failure.is_none() {
            self.failure = Some((why, sig));
        }
    }

    fn answers(&self, router: &Router<Rule>) -> Vec<Vec<String>> {
        self.probes.iter().map(|q| sorted_ids(&router.match_request(q))).collect()
    }

    /// Everything `Rio.RouterShare.Obs` lists, on the implementation: ids of routes(), and per probe the sorted match
    /// ids, get_route, the ids listed by the trace, and the captures of every matched route (sorted maps).
    fn full_obs(&self, router: &Router<Rule>) -> Value {
        let mut ids: Vec<String> = router.routes().keys().cloned().collect();
        ids.sort();
        let per_probe: Vec<Value> = self
            .probes
            .iter()
            .map(|q| {
                let matched = router.match_request(q);
                let mut caps: Vec<(String, BTreeMap<String, String>)> =
                    matched.iter().map(|r| (r.id().to_string(), r.capture(q).into_iter().collect())).collect();
                caps.sort();
                let listed = redirectionio::router::Trace::<Rule>::get_routes_from_traces(&router.trace_request(q));
                json!({
                    "m": sorted_ids(&matched),
                    "r": router.get_route(q).map(|r| r.id().to_string()),
                    "t": sorted_ids(&listed),
                    "c": caps,
                })
            })
            .collect();
        json!({"len": router.len(), "ids": ids, "q": per_probe})
    }

    /// does the router hold a route whose path or host carries markers (= owns shared capture cells)?
    fn has_marker_route(router: &Router<Rule>) -> bool {
        use redirectionio::marker::StaticOrDynamic;
        router.routes().values().any(|r| {
            matches!(r.path_and_query(), StaticOrDynamic::Dynamic(_)) || matches!(r.host(), Some(StaticOrDynamic::Dynamic(_)))
        })
    }

    /// The oracles that compare the incremental router with its live set.
    fn check(&mut self, sys: &Sys, at: &str) -> (usize, Vec<Vec<String>>) {
        let len = sys.router.len();
        let answers = self.answers(&sys.router);
        if len != sys.live.len() {
            self.fail(format!("{at}: len() = {len} but {} rules are live", sys.live.len()), "len-differs");
        }
        for (qi, a) in answers.iter().enumerate() {
            if let Some(id) = a.iter().find(|id| !sys.live.contains_key(*id)) {
                self.fail(format!("{at}: probe {qi} is answered with `{id}`, which is not live"), "removed-still-matches");
            }
        }
        // rebuild from scratch, in id order (not the order of the history)
        let mut rebuilt = Router::<Rule>::from_config(self.config.clone());
        for (_, &i) in sys.live.iter() {
            rebuilt.insert(self.pool[i].clone());
        }
        let expected = self.answers(&rebuilt);
        if expected != answers {
            let qi = (0..answers.len()).find(|&i| answers[i] != expected[i]).unwrap();
            self.fail(format!("{at}: probe {qi}: incremental router answers {:?}, rebuilt router {:?}", answers[qi], expected[qi]), "incremental-differs");
        }
        if answers.iter().any(|a| !a.is_empty()) {
            *self.stats.entry("probe-hit").or_default() += 1;
        }
        (len, answers)
    }
}

fn idx_list(v: Option<&Value>, n: usize) -> Option<Vec<usize>> {
    let mut out = Vec::new();
    for x in v?.as_array()? {
        let i = x.as_u64()? as usize;
        if i >= n {
            return None;
        }
        out.push(i);
    }
    Some(out)
}

fn str_list(v: Option<&Value>) -> Option<Vec<String>> {
    let mut out = Vec::new();
    for x in v?.as_array()? {
        out.push(x.as_str()?.to_string());
    }
    Some(out)
}

/// Validates a change set against the live set and returns the new live set.
fn change_live(ctx: &Ctx, live: &BTreeMap<String, usize>, a: &[usize], u: &[usize], d: &[String]) -> Result<BTreeMap<String, usize>, String> {
    let mut seen = HashSet::new();
    for &i in a.iter().chain(u.iter()) {
        if !seen.insert(ctx.pool[i].id.clone()) {
            return Err("change set names an id twice in added/updated".into());
        }
    }
    let mut l = live.clone();
    for id in d {
        l.remove(id);
    }
    for &i in u {
        l.remove(&ctx.pool[i].id);
    }
    for &i in u {
        l.insert(ctx.pool[i].id.clone(), i);
    }
    for &i in a {
        if l.insert(ctx.pool[i].id.clone(), i).is_some() {
            return Err("added id is live".into());
        }
    }
    Ok(l)
}

/// One non-clone op on `sys`; returns the observation (without len / answers).
fn apply_simple(ctx: &mut Ctx, sys: &mut Sys, retained: &mut Vec<Retained>, op: &Value, at: &str, top: bool) -> Result<Map<String, Value>, String> {
    let kind = op.get("op").and_then(|k| k.as_str()).ok_or("op")?;
    let mut o = Map::new();
    o.insert("k".into(), json!(kind));
    match kind {
        "insert" => {
            let i = op.get("r").and_then(|x| x.as_u64()).ok_or("r")? as usize;
            let rule = ctx.pool.get(i).ok_or("pool index")?.clone();
            if sys.live.contains_key(&rule.id) {
                return Err("insert of a live id".into());
            }
            sys.live.insert(rule.id.clone(), i);
            sys.router.insert(rule);
            *ctx.stats.entry("op:insert").or_default() += 1;
        }
        "remove" => {
            let id = op.get("id").and_then(|x| x.as_str()).ok_or("id")?;
            let was = sys.live.remove(id);
            let ret = sys.router.remove(id);
            match (&was, &ret) {
                (Some(i), Some(route)) => {
                    let want = serde_json::to_value(&ctx.pool[*i]).unwrap();
                    let got = serde_json::to_value(route.handler()).unwrap();
                    if route.id() != id || want != got {
                        ctx.fail(format!("{at}: remove({id}) returned another rule: {got}"), "remove-return");
                    }
                    *ctx.stats.entry("op:remove-live").or_default() += 1;
                }
                (Some(_), None) => ctx.fail(format!("{at}: remove({id}) of a live rule returned None"), "remove-return"),
                (None, Some(route)) => ctx.fail(format!("{at}: remove({id}) of a dead id returned rule {}", route.id()), "remove-return"),
                (None, None) => {
                    *ctx.stats.entry("op:remove-dead").or_default() += 1;
                }
            }
            o.insert("ret".into(), match ret { Some(r) => json!(r.id()), None => Value::Null });
        }
        "batch" => {
            let ids = str_list(op.get("ids")).ok_or("ids")?;
            for id in &ids {
                sys.live.remove(id);
            }
            sys.router.batch_remove(&ids.iter().cloned().collect::<HashSet<String>>());
            *ctx.stats.entry("op:batch").or_default() += 1;
        }
        "change" | "derive" => {
            let n = ctx.pool.len();
            let a = idx_list(op.get("a"), n).ok_or("a")?;
            let u = idx_list(op.get("u"), n).ok_or("u")?;
            let d = str_list(op.get("d")).ok_or("d")?;
            let live = change_live(ctx, &sys.live, &a, &u, &d)?;
            let added: Vec<Rule> = a.iter().map(|&i| ctx.pool[i].clone()).collect();
            let updated: Vec<Rule> = u.iter().map(|&i| ctx.pool[i].clone()).collect();
            let deleted: HashSet<String> = d.into_iter().collect();
            if kind == "change" {
                sys.router.apply_change_set(added, updated, deleted);
                *ctx.stats.entry("op:change").or_default() += 1;
            } else {
                if !top {
                    return Err("derive inside a clone".into());
                }
                // the production path: the existing router is shared behind an Arc, the new one is derived from it
                let existing = Arc::new(std::mem::replace(&mut sys.router, Router::<Rule>::from_config(ctx.config.clone())));
                let answers = ctx.answers(&existing);
                let full = ctx.full_obs(&existing);
                retained.push(Retained { len: existing.len(), answers, full, router: existing.clone(), since: at.to_string() });
                sys.router = RuleChangeSet { added, updated, deleted }.update_existing_router(existing);
                *ctx.stats.entry("op:derive").or_default() += 1;
            }
            sys.live = live;
        }
        "cache" => {
            let n = match op.get("n") {
                None | Some(Value::Null) => None,
                Some(v) => Some(v.as_u64().ok_or("n")?),
            };
            sys.router.cache(n);
            *ctx.stats.entry("op:cache").or_default() += 1;
        }
        _ => return Err(format!("op kind {kind}")),
    }
    Ok(o)
}

fn run(case: &Value) -> Obs {
    let config = match case.get("cfg").and_then(config_of) {
        Some(c) => c,
        None => return Obs::invalid("cfg"),
    };
    let pool_d = match case.get("pool").and_then(|r| r.as_array()) {
        Some(r) => r,
        None => return Obs::invalid("pool"),
    };
    let mut pool = Vec::new();
    for d in pool_d {
        match rule_of(d, None) {
            Some(r) => pool.push(r),
            None => return Obs::invalid("rule"),
        }
    }
    let mut probes = Vec::new();
    for qd in case.get("probes").and_then(|r| r.as_array()).map(|a| a.as_slice()).unwrap_or(&[]) {
        match request_of(&config, qd) {
            Some(q) => probes.push(q),
            None => return Obs::invalid("request"),
        }
    }
    let ops = match case.get("ops").and_then(|r| r.as_array()) {
        Some(r) => r,
        None => return Obs::invalid("ops"),
    };
    if ops.len() > 320 {
        return Obs::invalid("history too long");
    }
    let mut ctx = Ctx { config: config.clone(), pool, probes, failure: None, stats: BTreeMap::new() };
    let mut sys = Sys { router: Router::<Rule>::from_config(config.clone()), live: BTreeMap::new() };
    let mut retained: Vec<Retained> = Vec::new();
    let mut obs = Vec::new();
    let mut reinserted = false;
    let mut ever_removed: HashSet<String> = HashSet::new();
    for (n, op) in ops.iter().enumerate() {
        let at = format!("op {n}");
        let before: HashSet<String> = sys.live.keys().cloned().collect();
        let kind = op.get("op").and_then(|k| k.as_str()).unwrap_or("");
        let mut o = if kind == "clone" {
            let keep_clone = match op.get("keep").and_then(|k| k.as_str()) {
                Some("clone") => true,
                Some("orig") => false,
                _ => return Obs::invalid("keep"),
            };
            let sub = match op.get("ops").and_then(|r| r.as_array()) {
                Some(r) => r,
                None => return Obs::invalid("clone ops"),
            };
            let orig_answers = ctx.answers(&sys.router);
            let orig_len = sys.router.len();
            let orig_full = ctx.full_obs(&sys.router);
            let shared_cells = Ctx::has_marker_route(&sys.router);
            let mut clone_cached = false;
            let mut clone = sys.clone(); // Router: Clone (deep copy of the matchers, routes shared behind Arc)
            let mut sub_obs = Vec::new();
            for (k, sop) in sub.iter().enumerate() {
                let sat = format!("op {n}.{k} (on the clone)");
                if sop.get("op").and_then(|k| k.as_str()) == Some("cache") {
                    clone_cached = true;
                }
                let mut so = match apply_simple(&mut ctx, &mut clone, &mut retained, sop, &sat, false) {
                    Ok(o) => o,
                    Err(e) => return Obs::invalid(&e),
                };
                let (len, answers) = ctx.check(&clone, &sat);
                so.insert("len".into(), json!(len));
                so.insert("m".into(), json!(answers));
                sub_obs.push(Value::Object(so));
            }
            // the original must not have noticed
            let now = ctx.answers(&sys.router);
            let now_len = sys.router.len();
            if now != orig_answers || now_len != orig_len {
                ctx.fail(format!("{at}: mutating the clone changed the original: answers {:?} -> {:?}, len {orig_len} -> {now_len}", orig_answers, now), "clone-aliasing");
            }
            let now_full = ctx.full_obs(&sys.router);
            if now_full != orig_full {
                ctx.fail(format!("{at}: mutating the clone changed an observation of the original: {orig_full} -> {now_full}"), "clone-aliasing");
            }
            *ctx.stats.entry("clone-full-obs").or_default() += 1;
            if shared_cells && clone_cached {
                // the clone's cache() reached (budget permitting) the capture cells the original shares
                *ctx.stats.entry("clone-cache-shared-cells").or_default() += 1;
            }
            let mut o = Map::new();
            o.insert("k".into(), json!("clone"));
            o.insert("sub".into(), Value::Array(sub_obs));
            o.insert("orig".into(), json!({"len": now_len, "m": now}));
            if keep_clone {
                let original = std::mem::replace(&mut sys, clone);
                retained.push(Retained { len: orig_len, answers: orig_answers, full: orig_full, router: Arc::new(original.router), since: at.clone() });
            }
            *ctx.stats.entry("op:clone").or_default() += 1;
            o
        } else {
            match apply_simple(&mut ctx, &mut sys, &mut retained, op, &at, true) {
                Ok(o) => o,
                Err(e) => return Obs::invalid(&e),
            }
        };
        let (len, answers) = ctx.check(&sys, &at);
        o.insert("len".into(), json!(len));
        o.insert("m".into(), json!(answers));
        obs.push(Value::Object(o));
        // retained originals (bounded: the oldest are dropped)
        if retained.len() > 4 {
            retained.remove(0);
        }
        for r in &retained {
            let now = ctx.answers(&r.router);
            if now != r.answers || r.router.len() != r.len {
                ctx.fail(format!("{at}: the original retained at {} changed: answers {:?} -> {:?}, len {} -> {}", r.since, r.answers, now, r.len, r.router.len()), "clone-aliasing");
            }
            let now_full = ctx.full_obs(&r.router);
            if now_full != r.full {
                ctx.fail(format!("{at}: an observation of the original retained at {} changed: {} -> {}", r.since, r.full, now_full), "clone-aliasing");
            }
        }
        let after: HashSet<String> = sys.live.keys().cloned().collect();
        for id in before.difference(&after) {
            ever_removed.insert(id.clone());
        }
        if after.difference(&before).any(|id| ever_removed.contains(id)) {
            reinserted = true;
        }
    }
    let nontrivial = ops.len() >= 2 && ctx.stats.keys().any(|k| k.starts_with("op:remove-live") || k.starts_with("op:batch") || k.starts_with("op:change") || k.starts_with("op:derive"));
    let mut o = Obs::new(Value::Array(obs)).trivial(!nontrivial);
    o.tags.extend(rule_tags(pool_d));
    for (k, _) in ctx.stats.iter() {
        o.tags.push(k.to_string());
    }
    if reinserted {
        o.tags.push("reinsert-removed-id".into());
    }
    o.tags.push(format!("ops:{}", match ops.len() { 0..=5 => "1-5", 6..=19 => "6-19", _ => "20-40" }));
    match ctx.failure {
        Some((why, sig)) => o.fail(why, sig),
        None => o,
    }
}

fn main() {
    main_with(gen, run);
}
