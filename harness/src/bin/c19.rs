//! C19 — project-level analyses: implementation side of the correspondence + the oracles that are
//! evaluated on the implementation alone.
//!
//! case: {"config": RouterConfig, "base": [Rule], "added": [Rule], "updated": [Rule], "deleted": [id],
//!        "cache": bool, "max_hops": u8, "domains": [str], "probes": [Example],
//!        "impact": {"rule": Rule, "action": str, "with_loop": bool} | null,
//!        "tables": [ [ [url, method, kind, status, location|null, ext] ... ] per probe ] | null }
//!   B = base, D = (added, updated, deleted); apply(B, D) = (B without deleted/updated ids) ++ updated ++ added.
//!   `tables[i]` is the step table the REAL pipeline (Router + Action, proxy order, as in
//!   `RedirectionLoop::compute`) produced at generation time for every (url, method) on the orbit of
//!   probe i; `run` recomputes it: a difference on a case exactly as generated ("digest" = FNV-1a of the case intact) is an
//!   oracle failure (`nondeterministic-pipeline`), on a shrunk candidate (digest broken) the table is stale and the case is
//!   invalid, so the model is never compared against a table that is not the implementation's.
//! obs:  {"loops": [ {"hops": [[url, status, method]..], "error": null|"Loop"|..} | {"error_message": ..} per probe ]}
//!   = the `redirection_loop` of `ExplainRequestOutput` (standalone family) per probe; the model
//!   (Model/Loop.lean) must produce exactly this from the table.
//!   Optional case fields written by `gen --with-an`: `an` (W4: per-example pipeline table of the final router; obs.an = the projection
//!   of TestExamplesOutput / UnitIdsOutput the model's glue must equal) and `an2` (W10: the same plus, per example, url / method, the
//!   explain-convention result, trace ids and the walker's step table; also one entry per probe and per example of the impact rule;
//!   obs.an2 = the projection of TestExamplesOutput with whole chains, UnitIdsOutput, ExplainRequestOutput per probe and ImpactOutput
//!   that the model's testExamples / unitIds / explain / computeImpacts, run on the table, must equal — compute_an2 / observe_an2).
//!   Cases without these fields (corpus) replay as before.
//! oracles on the implementation (`.fail`):
//!   project-vs-standalone  analysis_project(router(B), D, e) == analysis_standalone(apply(B, D), e), canonical JSON,
//!                          for test-examples, explain, impact, unit-ids
//!   order-independence     analysis_standalone(reverse(apply(B, D))) == analysis_standalone(apply(B, D))
//!   pipeline-agreement     the response reported by explain / impact (status, backend status, headers, body, log
//!                          decision, unit trace) and the verdicts/ids of test-examples / unit-ids == the same
//!                          calls made directly on Router + Action by the harness
//!   loop-bound / loop-iff-repeat / loop-chain   on every RedirectionLoop that appears in any output
//! Canonical JSON: object keys sorted (serde_json Map is a BTreeMap); trace `count` fields dropped (stale
//! after batch_remove by construction of the code); trace `children`, `routes` and `unit_ids_seen` sorted
//! (HashMap iteration order); `first_ten_*` are compared in full (the analysis visits rules in id order since 9993ef8).
use redirectionio::action::{Action, UnitTrace};
use redirectionio::api::{
    Example, ExplainRequestInput, ExplainRequestOutput, ExplainRequestProjectInput, ImpactInput, ImpactOutput, ImpactProjectInput, Rule,
    TestExamplesInput, TestExamplesOutput, TestExamplesProjectInput, UnitIdsInput, UnitIdsOutput, UnitIdsProjectInput,
};
use redirectionio::http::Request;
use redirectionio::router::Router;
use redirectionio::RouterConfig;
use rio_harness::*;
use serde_json::{json, Map, Value};
use std::sync::Arc;

include!("w8_common.inc");

const BODY: &str = "<!DOCTYPE html>\n<html>\n    <head>\n    </head>\n    <body>\n    </body>\n</html>";

// ------------------------------------------------------------------------------------------------
// generator

const PATHS: &[&str] = &["/a", "/b", "/c", "/d", "/e", "/A", "/x/@m", "/a b", "/é"];
const HOSTS: &[&str] = &["example.org", "www.example.org", "other.net", "Example.org"];
const TARGETS: &[&str] = &[
    "/a", "/b", "/c", "/d", "/e", "/a", "/b", "/c", "https://example.org/b", "http://example.org/a", "http://other.net/a", "//example.org/c",
    "b", "?x=1", "/x/@m", "/x/abc", "mailto:x@y", "", "http://[bad", "/é", "/a?utm_source=t", "https://www.example.org/d", "/A",
];
const REQ_URLS: &[&str] = &[
    "/a", "/b", "/c", "/d", "/e", "/a", "/b", "/A", "/a?utm_source=x", "/b?z=1&a=2", "http://example.org/a", "https://example.org/b",
    "https://www.example.org/x/abc", "http://other.net/a", "/x/abc", "/x/ab/c", "", "http://[::1", " /a", "/é", "/a b", "//example.org/c",
    "example.org/a",
];
const STATUS: &[u16] = &[301, 302, 307, 308, 301, 302, 307, 308, 200, 404, 410, 0];
const UNIT_IDS: &[&str] = &["u1", "u2", "u3", "u4", "u5", "u6"];

fn opt<T>(rng: &mut Prng, num: usize, den: usize, f: impl FnOnce(&mut Prng) -> T) -> Option<T> {
    if rng.chance(num, den) {
        Some(f(rng))
    } else {
        None
    }
}

fn gen_example(rng: &mut Prng, hint_url: Option<&str>) -> Value {
    let url = match hint_url {
        Some(u) if rng.chance(3, 4) => {
            let p = u.replace("@m", "abc");
            match rng.below(8) {
                0 => format!("http://example.org{p}"),
                1 => format!("https://other.net{p}"),
                _ => p,
            }
        }
        _ => rng.pick(REQ_URLS).to_string(),
    };
    let method: Value = match rng.below(6) {
        0 | 1 => Value::Null,
        2 | 3 => json!("GET"),
        4 => json!("POST"),
        _ => json!("get"),
    };
    let headers: Value = match rng.below(4) {
        0 => Value::Null,
        1 => json!([]),
        2 => json!([{"name": "X-T", "value": "1"}]),
        _ => json!([{"name": "x-t", "value": "ABC"}, {"name": "X-U", "value": "é"}]),
    };
    let ip: Value = match rng.below(6) {
        0 | 1 | 2 => Value::Null,
        3 => json!("10.1.2.3"),
        4 => json!("192.168.0.1"),
        _ => json!("not-an-ip"),
    };
    let mut ex = json!({
        "url": url,
        "method": method,
        "headers": headers,
        "ip_address": ip,
        "response_status_code": match rng.below(8) { 0 | 1 => Value::Null, 2 => json!(200), 3 | 4 | 5 => json!(404), 6 => json!(301), _ => json!(0) },
        "must_match": rng.chance(3, 4),
        "unit_ids_applied": match rng.below(5) {
            0 => Value::Null,
            1 => json!([]),
            _ => {
                let k = rng.below(3) + 1;
                Value::Array((0..k).map(|_| json!(*rng.pick(UNIT_IDS))).collect())
            }
        },
    });
    match rng.below(5) {
        0 => {
            ex["datetime"] = json!("2000-06-01T00:00:00Z");
        }
        1 => {
            ex["datetime"] = json!("garbage");
        }
        _ => {}
    }
    ex
}

/// a plain redirect between the five short paths (so that chains and cycles form), sometimes bound to a method
/// (the 301/302 => GET rewrite then decides whether the chain goes on) or answering with an absolute url
fn gen_simple_redirect(rng: &mut Prng, id: &str) -> Value {
    let short = ["/a", "/b", "/c", "/d", "/e"];
    let path = *rng.pick(&short);
    let t = *rng.pick(&short);
    let target = match rng.below(8) {
        0 => format!("http://example.org{t}"),
        1 => format!("https://other.net{t}"),
        2 => t[1..].to_string(),
        _ => t.to_string(),
    };
    let n_ex = rng.below(3);
    // a third of the redirects are CONDITIONED on the backend response code (include and exclude lists): the chain analysis
    // must then evaluate the request-time status (0 => not decided yet), the backend code of the example, and filter the
    // headers with the BACKEND code — like the proxies do
    let (codes, exclude): (Value, Value) = if rng.chance(1, 3) {
        (
            match rng.below(5) { 0 => json!([404]), 1 => json!([200]), 2 => json!([404, 500]), 3 => json!([302, 404]), _ => json!([200, 404]) },
            match rng.below(4) { 0 => json!(true), 1 => json!(false), _ => Value::Null },
        )
    } else {
        (Value::Null, Value::Null)
    };
    json!({
        "id": id,
        "source": {
            "scheme": null, "host": null, "path": path, "query": null, "ips": null, "headers": null,
            "methods": match rng.below(5) { 0 => json!(["GET"]), 1 => json!(["POST"]), _ => Value::Null },
            "exclude_methods": null, "response_status_codes": codes, "exclude_response_status_codes": exclude, "sampling": null,
        },
        "target": target,
        "status_code": *rng.pick(&[301u16, 302, 307, 308]),
        "rank": rng.below(3),
        "body_filters": null, "header_filters": null, "log_override": null, "reset": null, "stop": null,
        "examples": Value::Array((0..n_ex).map(|_| gen_example(rng, Some(path))).collect()),
        "redirect_unit_id": opt(rng, 2, 3, |r| r.pick(UNIT_IDS).to_string()),
        "configuration_log_unit_id": null, "configuration_reset_unit_id": null,
        "target_hash": opt(rng, 1, 2, |r| format!("t{}", r.below(3))),
    })
}

fn gen_rule(rng: &mut Prng, id: &str) -> Value {
    if rng.chance(1, 2) {
        return gen_simple_redirect(rng, id);
    }
    let path = *rng.pick(PATHS);
    let has_marker = path.contains("@m");
    let target = *rng.pick(TARGETS);
    let status = *rng.pick(STATUS);
    let mut source = json!({
        "scheme": match rng.below(8) { 0 => json!("https"), 1 => json!("http"), _ => Value::Null },
        "host": match rng.below(4) { 0 => json!(*rng.pick(HOSTS)), _ => Value::Null },
        "path": path,
        "query": match rng.below(8) { 0 => json!("z=1&a=2"), 1 => json!(""), _ => Value::Null },
        "ips": match rng.below(8) { 0 => json!([{"in_range": "10.0.0.0/8"}]), 1 => json!([{"not_in_range": "10.0.0.0/8"}, {"in_range": "bad"}]), _ => Value::Null },
        "headers": match rng.below(8) {
            0 => json!([{"type": "is_defined", "name": "X-T", "value": null}]),
            1 => json!([{"type": "is_equals", "name": "X-T", "value": "abc"}]),
            2 => json!([{"type": "is_not_defined", "name": "X-T", "value": null}]),
            _ => Value::Null,
        },
        "methods": match rng.below(6) { 0 => json!(["GET"]), 1 => json!(["POST"]), 2 => json!(["GET", "POST"]), 3 => json!([]), _ => Value::Null },
        "exclude_methods": match rng.below(6) { 0 => json!(true), 1 => json!(false), _ => Value::Null },
        "response_status_codes": match rng.below(6) { 0 => json!([404]), 1 => json!([200, 301]), 2 => json!([302]), 3 => json!([]), _ => Value::Null },
        "exclude_response_status_codes": match rng.below(8) { 0 => json!(true), 1 => json!(false), _ => Value::Null },
        "sampling": match rng.below(12) { 0 => json!(100), 1 => json!(0), _ => Value::Null },
    });
    if rng.chance(1, 10) {
        source["datetime"] = json!([["1999-01-01T00:00:00Z", "2001-01-01T00:00:00Z"]]);
    }
    let hf_value = *rng.pick(TARGETS);
    let header_filters: Value = match rng.below(8) {
        0 => json!([{"action": "add", "header": "Location", "value": hf_value, "id": *rng.pick(UNIT_IDS), "target_hash": "h-loc"}]),
        1 => json!([{"action": "remove", "header": "location", "value": "", "id": *rng.pick(UNIT_IDS), "target_hash": "h-loc"}]),
        2 => json!([{"action": "override", "header": "LOCATION", "value": hf_value, "id": null, "target_hash": null}]),
        3 => json!([{"action": "add", "header": "X-Foo", "value": "@m", "id": *rng.pick(UNIT_IDS), "target_hash": "h-foo"},
                    {"action": "default", "header": "Location", "value": hf_value, "id": *rng.pick(UNIT_IDS), "target_hash": null}]),
        4 => json!([]),
        _ => Value::Null,
    };
    let body_filters: Value = match rng.below(10) {
        0 => json!([{"action": "append_text", "content": "<!--t-->", "id": *rng.pick(UNIT_IDS), "target_hash": "b-t"}]),
        1 => json!([{"action": "append_child", "value": "<p>x</p>", "inner_value": null, "element_tree": ["html", "body"], "css_selector": null, "id": *rng.pick(UNIT_IDS), "target_hash": "b-h"}]),
        2 => json!([{"action": "replace", "value": "<title>t</title>", "inner_value": null, "element_tree": ["html", "head", "title"], "css_selector": "", "id": *rng.pick(UNIT_IDS), "target_hash": null}]),
        3 => json!([]),
        _ => Value::Null,
    };
    let n_ex = match rng.below(6) { 0 => 0, 1 | 2 | 3 => 1, 4 => 2, _ => 3 };
    let examples: Value = if n_ex == 0 && rng.chance(1, 2) {
        Value::Null
    } else {
        Value::Array((0..n_ex).map(|_| gen_example(rng, Some(path))).collect())
    };
    let mut rule = json!({
        "id": id,
        "source": source,
        "target": match rng.below(10) { 0 => Value::Null, _ => json!(target) },
        "status_code": if status == 0 && rng.chance(1, 2) { Value::Null } else { json!(status) },
        "rank": rng.below(4),
        "body_filters": body_filters,
        "header_filters": header_filters,
        "log_override": match rng.below(8) { 0 => json!(true), 1 => json!(false), _ => Value::Null },
        "reset": match rng.below(12) { 0 => json!(true), 1 => json!(false), _ => Value::Null },
        "stop": match rng.below(12) { 0 => json!(true), 1 => json!(false), _ => Value::Null },
        "examples": examples,
        "redirect_unit_id": opt(rng, 2, 3, |r| r.pick(UNIT_IDS).to_string()),
        "configuration_log_unit_id": opt(rng, 1, 3, |r| r.pick(UNIT_IDS).to_string()),
        "configuration_reset_unit_id": opt(rng, 1, 3, |r| r.pick(UNIT_IDS).to_string()),
        "target_hash": opt(rng, 1, 2, |r| format!("t{}", r.below(3))),
    });
    if has_marker || rng.chance(1, 6) {
        rule["markers"] = json!([{"name": "m", "regex": if rng.chance(4, 5) { "[a-c]+" } else { "[a-z/]+?" }, "transformers": if rng.chance(1, 3) { json!([{"type": "uppercase", "options": null}]) } else { json!([]) }}]);
    }
    rule
}

fn gen_config(rng: &mut Prng) -> Value {
    if rng.chance(1, 3) {
        // the default configuration of the agent
        return json!({"ignore_host_case": false, "ignore_header_case": false, "ignore_path_and_query_case": false, "ignore_marketing_query_params": true,
            "marketing_query_params": ["utm_campaign", "utm_content", "utm_medium", "utm_source", "utm_term"], "pass_marketing_query_params_to_target": true, "always_match_any_host": true});
    }
    json!({
        "ignore_host_case": rng.chance(1, 2),
        "ignore_header_case": rng.chance(1, 2),
        "ignore_path_and_query_case": rng.chance(1, 2),
        "ignore_marketing_query_params": rng.chance(1, 2),
        "marketing_query_params": if rng.chance(1, 2) { json!(["utm_source"]) } else { json!(["utm_campaign", "utm_content", "utm_medium", "utm_source", "utm_term"]) },
        "pass_marketing_query_params_to_target": rng.chance(1, 2),
        "always_match_any_host": rng.chance(2, 3),
    })
}

/// A rule whose effect is visible in every analysis (redirect to a target carrying `tag`, a header `X-V: tag`, unit ids)
/// and whose triggers put it in the matcher bucket `shape` = (scheme, host, method, path index): two versions of one id
/// with different shapes live in different buckets of the router.
fn gen_versioned(rng: &mut Prng, id: &str, tag: &str, shape: (usize, usize, usize, usize)) -> Value {
    let schemes = [Value::Null, json!("http"), json!("https")];
    let hosts = [Value::Null, json!("example.org"), json!("other.net")];
    let methods = [Value::Null, json!(["GET"]), json!(["POST"])];
    let paths = ["/a", "/b", "/c", "/d", "/x/@m"];
    let path = paths[shape.3 % paths.len()];
    let mut rule = json!({
        "id": id,
        "source": {
            "scheme": schemes[shape.0 % 3], "host": hosts[shape.1 % 3], "path": path, "query": null, "ips": null, "headers": null,
            "methods": methods[shape.2 % 3], "exclude_methods": null, "response_status_codes": null, "exclude_response_status_codes": null, "sampling": null,
        },
        "target": format!("/t-{tag}"),
        "status_code": *rng.pick(&[301u16, 302, 307, 308, 200, 404]),
        "rank": rng.below(3),
        "body_filters": if rng.chance(1, 4) { json!([{"action": "append_text", "content": format!("<!--{tag}-->"), "id": format!("ub-{tag}"), "target_hash": "b"}]) } else { Value::Null },
        "header_filters": [{"action": "add", "header": "X-V", "value": tag, "id": format!("uh-{tag}"), "target_hash": null}],
        "log_override": null, "reset": null, "stop": null,
        "examples": [],
        "redirect_unit_id": format!("ur-{tag}"),
        "configuration_log_unit_id": null, "configuration_reset_unit_id": null,
        "target_hash": "t0",
    });
    if path.contains("@m") {
        rule["markers"] = json!([{"name": "m", "regex": "[a-c]+", "transformers": []}]);
    }
    rule
}

fn random_shape(rng: &mut Prng) -> (usize, usize, usize, usize) {
    // mostly unconstrained scheme / host so that requests are easy to aim
    (if rng.chance(1, 4) { rng.below(3) } else { 0 }, if rng.chance(1, 3) { rng.below(3) } else { 0 }, rng.below(3), rng.below(5))
}

fn different_shape(rng: &mut Prng, from: (usize, usize, usize, usize)) -> (usize, usize, usize, usize) {
    // change exactly one or two dimensions: host / method / scheme / path
    let mut s = from;
    for _ in 0..rng.below(2) + 1 {
        match rng.below(4) {
            0 => s.0 = (s.0 + 1 + rng.below(2)) % 3,
            1 => s.1 = (s.1 + 1 + rng.below(2)) % 3,
            2 => s.2 = (s.2 + 1 + rng.below(2)) % 3,
            _ => s.3 = (s.3 + 1 + rng.below(4)) % 5,
        }
    }
    if s == from {
        s.3 = (s.3 + 1) % 5;
    }
    s
}

/// an example this very version of a rule matches (scheme / host / method / path of its source)
fn example_for(rng: &mut Prng, rule: &Value) -> Value {
    let src = &rule["source"];
    let path = src["path"].as_str().unwrap_or("/a").replace("@m", "abc");
    let url = match (src["host"].as_str(), src["scheme"].as_str()) {
        (Some(h), sc) => format!("{}://{}{}", sc.unwrap_or("http"), h, path),
        (None, Some(sc)) => format!("{sc}://example.org{path}"),
        (None, None) => path,
    };
    let method = src["methods"].as_array().and_then(|m| m.first()).cloned().unwrap_or(Value::Null);
    json!({
        "url": url, "method": method, "headers": null, "ip_address": null,
        "response_status_code": match rng.below(3) { 0 => Value::Null, 1 => json!(200), _ => json!(404) },
        "must_match": rng.chance(1, 2),
        "unit_ids_applied": match rng.below(3) {
            0 => Value::Null,
            1 => json!([]),
            _ => match rule["redirect_unit_id"].as_str() {
                Some(u) => json!([u]),
                None => json!(["u1"]),
            },
        },
    })
}

fn gen_case(rng: &mut Prng) -> Value {
    let nb = match rng.below(10) { 0 => 0, 1 => 1, 2 | 3 => 2, 4 | 5 => 3, 6 | 7 => 5, 8 => 8, _ => 14 };
    let mut base: Vec<Value> = (0..nb).map(|i| gen_rule(rng, &format!("r{i}"))).collect();
    if rng.chance(1, 12) {
        // more than eleven failing (and some errored) rules: the sample kept by test-examples is truncated (O10)
        let n = 14 + rng.below(6);
        base = (0..n)
            .map(|i| {
                let mut r = gen_versioned(rng, &format!("r{i}"), &format!("f{i}"), (0, 0, 0, i % 4));
                r["source"]["path"] = json!(format!("/many/{i}"));
                let mut ex = example_for(rng, &r);
                ex["must_match"] = json!(true);
                ex["unit_ids_applied"] = json!(["never-applied"]);
                if rng.chance(1, 6) {
                    ex["url"] = json!("http://[::1"); // errored example
                }
                r["examples"] = json!([ex]);
                r
            })
            .collect();
    }
    let mut cond_probes: Vec<Value> = Vec::new();
    if rng.chance(1, 7) {
        // a chain / cycle of redirects of which the first, a middle or every hop is CONDITIONED on the backend code (include and
        // exclude lists, codes in and out of the list), with 301 / 302 / 307 / 308 mixes (method rewrite) and examples that pass the
        // unit-id check, so that test-examples reaches the redirect analysis
        let len = 2 + rng.below(4);
        let cyclic = rng.chance(1, 2);
        let which = rng.below(4); // 0 first hop, 1 a middle hop, 2 every hop, 3 last hop
        let backend = *rng.pick(&[404u16, 404, 200, 500]);
        let mut chain: Vec<Value> = Vec::new();
        for i in 0..len {
            let conditional = match which { 0 => i == 0, 1 => i == len / 2, 2 => true, _ => i + 1 == len };
            let (codes, exclude): (Value, Value) = if conditional {
                match rng.below(6) {
                    0 | 1 => (json!([404]), Value::Null),          // include, backend 404 in the list
                    2 => (json!([200, 500]), json!(true)),          // exclude list that does not contain 404
                    3 => (json!([404]), json!(true)),               // exclude list that contains 404: no hop for a 404 backend
                    4 => (json!([302, 404]), json!(false)),         // `false` is treated as an exclusion too (O5)
                    _ => (json!([200]), Value::Null),               // include, matches the default backend code 200
                }
            } else {
                (Value::Null, Value::Null)
            };
            let next = if i + 1 < len { format!("/q{}", i + 1) } else if cyclic { "/q0".to_string() } else { "/end".to_string() };
            let ex = json!({"url": format!("/q{i}"), "method": *rng.pick(&[Value::Null, json!("GET"), json!("POST")]), "headers": null, "ip_address": null,
                "response_status_code": *rng.pick(&[json!(backend), json!(backend), Value::Null, json!(200)]), "must_match": true, "unit_ids_applied": []});
            cond_probes.push(ex.clone());
            chain.push(json!({
                "id": format!("r{}", base.len() + i),
                "source": {"scheme": null, "host": null, "path": format!("/q{i}"), "query": null, "ips": null, "headers": null,
                    "methods": match rng.below(6) { 0 => json!(["GET"]), 1 => json!(["POST"]), _ => Value::Null },
                    "exclude_methods": null, "response_status_codes": codes, "exclude_response_status_codes": exclude, "sampling": null},
                "target": if rng.chance(1, 6) { format!("http://example.org{next}") } else { next },
                "status_code": *rng.pick(&[301u16, 302, 307, 308]),
                "rank": rng.below(3), "body_filters": null, "header_filters": null, "log_override": null, "reset": null, "stop": null,
                "examples": [ex], "redirect_unit_id": format!("uq{i}"), "configuration_log_unit_id": null, "configuration_reset_unit_id": null, "target_hash": null,
            }));
        }
        base.extend(chain);
    }
    let nb = base.len();
    let mut deleted: Vec<Value> = Vec::new();
    let mut updated: Vec<Value> = Vec::new();
    // probes / examples aimed at superseded versions of rules (the OLD version still matches them)
    let mut old_probes: Vec<Value> = Vec::new();
    for i in 0..nb {
        match rng.below(6) {
            0 => {
                if rng.chance(1, 2) {
                    // a visible rule is deleted: a request it matched must not see it any more
                    let shape = random_shape(rng);
                    base[i] = gen_versioned(rng, &format!("r{i}"), &format!("del{i}"), shape);
                    old_probes.push(example_for(rng, &base[i]));
                }
                deleted.push(json!(format!("r{i}")));
            }
            1 => {
                if rng.chance(2, 3) {
                    // same id, different triggers: the two versions live in different buckets of the matcher
                    let shape = random_shape(rng);
                    base[i] = gen_versioned(rng, &format!("r{i}"), &format!("old{i}"), shape);
                    let new_shape = if rng.chance(3, 4) { different_shape(rng, shape) } else { shape };
                    let mut u = gen_versioned(rng, &format!("r{i}"), &format!("new{i}"), new_shape);
                    let (e_old, e_new) = (example_for(rng, &base[i]), example_for(rng, &u));
                    u["examples"] = json!([e_old.clone(), e_new.clone()]);
                    old_probes.push(e_old);
                    old_probes.push(e_new);
                    updated.push(u);
                } else {
                    updated.push(gen_rule(rng, &format!("r{i}")));
                }
            }
            _ => {}
        }
    }
    let na = match rng.below(4) { 0 => 0, 1 => 1, 2 => 2, _ => 3 };
    let mut added: Vec<Value> = (0..na).map(|i| gen_rule(rng, &format!("n{i}"))).collect();
    if rng.chance(1, 8) {
        deleted.clear();
        updated.clear();
        added.clear();
        old_probes.clear();
    }

    // ---- impact: every combination of action x where the draft rule's id already lives x same / different source
    let mut impact: Value = if rng.chance(4, 5) {
        let action = *rng.pick(&["add", "update", "delete", "add", "update", "delete", "nope"]);
        let cat = rng.below(5); // 0 new id, 1 in base only, 2 in change_set.added, 3 in change_set.updated (and base), 4 in change_set.deleted (and base)
        let old_shape = random_shape(rng);
        let visible_old = rng.chance(3, 4);
        let mut olds: Vec<Value> = Vec::new(); // the versions of the id that exist before the draft
        let id: String = match cat {
            0 => "imp".to_string(),
            1 => {
                // an id that the change-set does not touch
                let touched: Vec<String> = deleted.iter().filter_map(|d| d.as_str().map(|s| s.to_string())).chain(updated.iter().filter_map(|u| u["id"].as_str().map(|s| s.to_string()))).collect();
                let free: Vec<usize> = (0..base.len()).filter(|i| !touched.contains(&format!("r{i}"))).collect();
                let i = if free.is_empty() {
                    base.push(gen_rule(rng, &format!("r{}", base.len())));
                    base.len() - 1
                } else {
                    *rng.pick(&free)
                };
                if visible_old {
                    base[i] = gen_versioned(rng, &format!("r{i}"), "oldbase", old_shape);
                }
                olds.push(base[i].clone());
                format!("r{i}")
            }
            2 => {
                if added.is_empty() {
                    added.push(gen_rule(rng, "n0"));
                }
                let i = rng.below(added.len());
                if visible_old {
                    added[i] = gen_versioned(rng, &format!("n{i}"), "oldadded", old_shape);
                }
                olds.push(added[i].clone());
                format!("n{i}")
            }
            3 => {
                if updated.is_empty() {
                    if base.is_empty() {
                        base.push(gen_rule(rng, "r0"));
                    }
                    let free: Vec<usize> = (0..base.len()).filter(|i| !deleted.contains(&json!(format!("r{i}")))).collect();
                    let i = if free.is_empty() {
                        base.push(gen_rule(rng, &format!("r{}", base.len())));
                        base.len() - 1
                    } else {
                        *rng.pick(&free)
                    };
                    updated.push(gen_rule(rng, &format!("r{i}")));
                }
                let k = rng.below(updated.len());
                let id = updated[k]["id"].as_str().unwrap().to_string();
                let bi: usize = id[1..].parse().unwrap();
                if visible_old {
                    // the base version and the updated version in two different buckets
                    base[bi] = gen_versioned(rng, &id, "oldbase", old_shape);
                    let s2 = different_shape(rng, old_shape);
                    updated[k] = gen_versioned(rng, &id, "oldupdated", s2);
                }
                olds.push(base[bi].clone());
                olds.push(updated[k].clone());
                id
            }
            _ => {
                if deleted.is_empty() {
                    let touched: Vec<String> = updated.iter().filter_map(|u| u["id"].as_str().map(|s| s.to_string())).collect();
                    let free: Vec<usize> = (0..base.len()).filter(|i| !touched.contains(&format!("r{i}"))).collect();
                    let i = if free.is_empty() {
                        base.push(gen_rule(rng, &format!("r{}", base.len())));
                        base.len() - 1
                    } else {
                        *rng.pick(&free)
                    };
                    deleted.push(json!(format!("r{i}")));
                }
                let id = rng.pick(&deleted).as_str().unwrap().to_string();
                let bi: usize = id[1..].parse().unwrap();
                if visible_old {
                    base[bi] = gen_versioned(rng, &id, "olddeleted", old_shape);
                }
                olds.push(base[bi].clone());
                id
            }
        };
        // the draft: same source as an old version (1/3) or a different bucket (2/3)
        let same_source = !olds.is_empty() && rng.chance(1, 3);
        let mut rule = if rng.chance(1, 6) {
            gen_rule(rng, &id)
        } else {
            let shape = different_shape(rng, old_shape);
            gen_versioned(rng, &id, "draft", shape)
        };
        if same_source {
            let src = rng.pick(&olds)["source"].clone();
            rule["source"] = src;
            if let Some(m) = olds[0].get("markers") {
                rule["markers"] = m.clone();
            }
        }
        // examples: what every old version matches, what the draft matches, and some noise
        let mut examples: Vec<Value> = Vec::new();
        for o in &olds {
            examples.push(example_for(rng, o));
        }
        examples.push(example_for(rng, &rule));
        if rng.chance(1, 3) {
            examples.push(gen_example(rng, rule["source"]["path"].as_str()));
        }
        rule["examples"] = Value::Array(examples);
        json!({"rule": rule, "action": action, "with_loop": rng.chance(3, 4), "cat": (["new", "base", "added", "updated", "deleted"][cat]), "same_source": same_source})
    } else {
        Value::Null
    };

    // ---- siblings in ONE innermost bucket (seed r8f-2): two base rules with the same triggers — same static (or marker) path below
    // the same date-time condition group — of which one is the rule under impact analysis with update / delete.  The incremental
    // family removes that rule from an `apply_change_set` router by `Router::remove`; a per-layer counter that is wrong by then
    // (only `batch_remove` + `remove` in this order shows it) prunes the bucket with the sibling still inside.
    let mut sibling_probe: Option<Value> = None;
    if rng.chance(1, 6) {
        let n = base.len();
        let shape = random_shape(rng);
        let mut a = gen_versioned(rng, &format!("r{n}"), "sibA", shape);
        let mut b = gen_versioned(rng, &format!("r{}", n + 1), "sibB", shape);
        let with_window = rng.chance(3, 4);
        for r in [&mut a, &mut b] {
            if with_window {
                r["source"]["datetime"] = json!([["1999-01-01T00:00:00Z", "2001-01-01T00:00:00Z"]]);
            }
        }
        let mut ex_b = example_for(rng, &b);
        let mut ex_a = example_for(rng, &a);
        if with_window {
            ex_b["datetime"] = json!("2000-06-01T00:00:00Z");
            ex_a["datetime"] = json!("2000-06-01T00:00:00Z");
        }
        b["examples"] = json!([ex_b.clone()]);
        let draft_shape = different_shape(rng, shape);
        let mut draft = if rng.chance(1, 2) { a.clone() } else { gen_versioned(rng, &format!("r{n}"), "sibDraft", draft_shape) };
        draft["examples"] = json!([ex_b.clone(), ex_a]);
        base.push(a);
        base.push(b);
        impact = json!({"rule": draft, "action": *rng.pick(&["update", "delete", "update", "delete", "add"]), "with_loop": rng.chance(1, 2), "cat": "base", "same_source": true, "siblings": true});
        sibling_probe = Some(ex_b);
    }

    let np = rng.below(3) + 1;
    let mut probes: Vec<Value> = (0..np)
        .map(|_| {
            // mostly a url some rule of the final set is about
            let pool: Vec<&Value> = base.iter().chain(added.iter()).chain(updated.iter()).collect();
            let hint = if pool.is_empty() { None } else { rng.pick(&pool)["source"]["path"].as_str().map(|s| s.to_string()) };
            gen_example(rng, hint.as_deref())
        })
        .collect();
    // requests that a superseded / deleted version matched
    for p in old_probes.into_iter().take(2) {
        probes.push(p);
    }
    if let Some(p) = sibling_probe {
        probes.push(p);
    }
    // the start and one inner url of the conditional chain, with the backend code the chain is conditioned on
    if !cond_probes.is_empty() {
        probes.push(cond_probes[0].clone());
        let k = rng.below(cond_probes.len());
        probes.push(cond_probes[k].clone());
    }
    let max_hops = match rng.below(8) { 0 => 0, 1 => 1, 2 => 2, 3 => 3, 4 => 5, 5 => 10, 6 => 255, _ => 4 };
    let domains: Value = match rng.below(4) {
        0 | 1 => json!([]),
        2 => json!(["example.org"]),
        _ => json!(["example.org", "www.example.org", ""]),
    };
    json!({
        "config": gen_config(rng), "base": base, "added": added, "updated": updated, "deleted": deleted,
        "cache": rng.chance(1, 3), "max_hops": max_hops, "domains": domains, "probes": probes, "impact": impact,
    })
}

/// FNV-1a of the case without its derived fields: tells a case as generated (digest matches) from a shrunk candidate
fn case_digest(case: &Value) -> String {
    let mut c = case.clone();
    if let Some(o) = c.as_object_mut() {
        o.remove("tables");
        o.remove("an");
        o.remove("an2");
        o.remove("digest");
    }
    let mut h: u64 = 0xcbf29ce484222325;
    for b in c.to_string().bytes() {
        h ^= b as u64;
        h = h.wrapping_mul(0x100000001b3);
    }
    format!("{h:016x}")
}

fn finish_case(mut case: Value) -> Value {
    // the step tables of the probes, from the real pipeline (a panic here is reproduced by `run`)
    let tables = std::panic::catch_unwind(std::panic::AssertUnwindSafe(|| compute_tables(&case))).ok().flatten();
    case["tables"] = tables.unwrap_or(Value::Null);
    // `gen … --with-an` (gen_args): the per-example pipeline table for the analysis model (see compute_an)
    if std::env::args().any(|a| a == "--with-an") {
        let an = std::panic::catch_unwind(std::panic::AssertUnwindSafe(|| compute_an(&case))).ok().flatten();
        case["an"] = an.unwrap_or(Value::Null);
        // W10: the extended table (step table, explain-convention result and traces per example; probes; impact examples)
        let an2 = std::panic::catch_unwind(std::panic::AssertUnwindSafe(|| compute_an2(&case))).ok().flatten();
        case["an2"] = an2.unwrap_or(Value::Null);
    }
    case["digest"] = json!(case_digest(&case));
    case
}

/// Diff-directed block (VERIF_HINTS): hinted strings as ids, paths, targets, hosts, methods, domains, unit ids, header names /
/// values, probe urls; hinted sizes as hop limits, chain lengths, numbers of (failing) rules, of examples, of domains.
fn gen_hinted(h: &Hints, rng: &mut Prng) -> Vec<Value> {
    let mut out = Vec::new();
    let cfg = json!({"ignore_host_case": false, "ignore_header_case": false, "ignore_path_and_query_case": false, "ignore_marketing_query_params": true, "marketing_query_params": ["utm_source"], "pass_marketing_query_params_to_target": true, "always_match_any_host": true});
    for t in w8_hint_strs(h) {
        let t = t.as_str();
        let mut r0 = gen_versioned(rng, t, "h0", (0, 0, 0, 0));
        r0["source"]["path"] = json!(format!("/{t}"));
        r0["target"] = json!(format!("/{t}/2"));
        r0["redirect_unit_id"] = json!(t);
        r0["header_filters"] = json!([{"action": "add", "header": t, "value": t, "id": t, "target_hash": t}]);
        let mut r1 = gen_versioned(rng, "h1", t, (0, 0, 0, 1));
        r1["source"]["path"] = json!(format!("/{t}/2"));
        r1["source"]["host"] = json!(t);
        r1["source"]["methods"] = json!([t]);
        r1["target"] = json!(t);
        let ex = json!({"url": format!("/{t}"), "method": t, "headers": [{"name": t, "value": t}], "ip_address": t, "datetime": t, "response_status_code": null, "must_match": true, "unit_ids_applied": [t]});
        r0["examples"] = json!([ex.clone()]);
        let mut upd = r0.clone();
        upd["source"]["path"] = json!(format!("/moved/{t}"));
        out.push(json!({"config": cfg, "base": [r0.clone(), r1], "added": [], "updated": [upd], "deleted": [], "cache": true, "max_hops": 5, "domains": [t], "probes": [ex.clone(), {"url": format!("/{t}/2"), "method": null, "must_match": true}],
            "impact": {"rule": r0, "action": t, "with_loop": true}}));
    }
    for n in h.sizes(400) {
        // a redirect chain of n hops, walked with hop limits n-1, n, n+1
        let chain: Vec<Value> = (0..n.min(300)).map(|i| { let mut r = gen_versioned(rng, &format!("c{i:03}"), "c", (0, 0, 0, 0)); r["source"]["path"] = json!(format!("/c{i}")); r["target"] = json!(format!("/c{}", i + 1)); r["status_code"] = json!(302); r }).collect();
        for hops in [n.saturating_sub(1), n, n + 1] {
            out.push(json!({"config": cfg, "base": chain, "added": [], "updated": [], "deleted": [], "cache": false, "max_hops": hops.min(255), "domains": [], "probes": [{"url": "/c0", "method": null, "must_match": true}], "impact": null}));
        }
        // n failing rules (the sample of test-examples holds eleven)
        let failing: Vec<Value> = (0..n.min(60)).map(|i| { let mut r = gen_versioned(rng, &format!("f{i:03}"), "f", (0, 0, 0, 0)); r["source"]["path"] = json!(format!("/f{i}"));
            r["examples"] = Value::Array((0..(n.min(12))).map(|_| json!({"url": format!("/f{i}"), "method": null, "must_match": true, "unit_ids_applied": ["never-applied"]})).collect()); r }).collect();
        out.push(json!({"config": cfg, "base": failing, "added": [], "updated": [], "deleted": [], "cache": false, "max_hops": 2, "domains": (0..n.min(50)).map(|i| format!("d{i}.org")).collect::<Vec<_>>(), "probes": [{"url": "/f0", "must_match": true}], "impact": null}));
    }
    out
}

fn gen(args: &Args, emit: &mut dyn FnMut(Value)) {
    let mut rng = Prng::new(args.seed);
    std::panic::set_hook(Box::new(|_| {}));
    let h = hints();
    if !h.is_empty() {
        for case in gen_hinted(&h, &mut rng) {
            w8_watchdog::arm(120);
            emit(finish_case(case));
        }
    }
    for _ in 0..args.n {
        w8_watchdog::arm(120);
        emit(finish_case(gen_case(&mut rng)));
    }
}

// ------------------------------------------------------------------------------------------------
// parsing a case

struct Case {
    config: RouterConfig,
    config_json: Value,
    base: Vec<Rule>,
    added: Vec<Rule>,
    updated: Vec<Rule>,
    deleted: Vec<String>,
    cache: bool,
    max_hops: u8,
    domains: Vec<String>,
    probes: Vec<Example>,
    impact: Option<(Rule, String, bool)>,
}

fn parse_rules(v: Option<&Value>) -> Option<Vec<Rule>> {
    let mut out = Vec::new();
    for r in v?.as_array()? {
        out.push(serde_json::from_value::<Rule>(r.clone()).ok()?);
    }
    Some(out)
}

fn parse_case(case: &Value) -> Result<Case, String> {
    let config_json = case.get("config").cloned().ok_or("config")?;
    let config: RouterConfig = serde_json::from_value(config_json.clone()).map_err(|e| format!("config: {e}"))?;
    let base = parse_rules(case.get("base")).ok_or("base")?;
    let added = parse_rules(case.get("added")).ok_or("added")?;
    let updated = parse_rules(case.get("updated")).ok_or("updated")?;
    let deleted: Vec<String> = case.get("deleted").and_then(|d| d.as_array()).ok_or("deleted")?.iter().filter_map(|x| x.as_str().map(|s| s.to_string())).collect();
    // ids consistent: base ids distinct; deleted, updated ⊆ base ids and disjoint; added ids fresh and distinct
    let mut base_ids = std::collections::HashSet::new();
    for r in &base {
        if !base_ids.insert(r.id.clone()) {
            return Err("duplicate base id".into());
        }
    }
    let mut touched = std::collections::HashSet::new();
    for id in deleted.iter().chain(updated.iter().map(|r| &r.id)) {
        if !base_ids.contains(id) || !touched.insert(id.clone()) {
            return Err("inconsistent change-set".into());
        }
    }
    let mut added_ids = std::collections::HashSet::new();
    for r in &added {
        if base_ids.contains(&r.id) || !added_ids.insert(r.id.clone()) {
            return Err("inconsistent change-set (added)".into());
        }
    }
    let max_hops = case.get("max_hops").and_then(|x| x.as_u64()).ok_or("max_hops")?;
    if max_hops > 255 {
        return Err("max_hops".into());
    }
    let domains: Vec<String> = case.get("domains").and_then(|d| d.as_array()).ok_or("domains")?.iter().filter_map(|x| x.as_str().map(|s| s.to_string())).collect();
    let mut probes = Vec::new();
    for p in case.get("probes").and_then(|d| d.as_array()).ok_or("probes")? {
        probes.push(serde_json::from_value::<Example>(p.clone()).map_err(|e| format!("probe: {e}"))?);
    }
    let impact = match case.get("impact") {
        None | Some(Value::Null) => None,
        Some(i) => {
            let rule: Rule = serde_json::from_value(i.get("rule").cloned().ok_or("impact.rule")?).map_err(|e| format!("impact rule: {e}"))?;
            Some((rule, s(i, "action").ok_or("impact.action")?, i.get("with_loop").and_then(|b| b.as_bool()).unwrap_or(false)))
        }
    };
    Ok(Case { config, config_json, base, added, updated, deleted, cache: case.get("cache").and_then(|b| b.as_bool()).unwrap_or(false), max_hops: max_hops as u8, domains, probes, impact })
}

impl Case {
    /// apply(B, D)
    fn applied(&self) -> Vec<Rule> {
        let gone: std::collections::HashSet<&String> = self.deleted.iter().chain(self.updated.iter().map(|r| &r.id)).collect();
        let mut out: Vec<Rule> = self.base.iter().filter(|r| !gone.contains(&r.id)).cloned().collect();
        out.extend(self.updated.iter().cloned());
        out.extend(self.added.iter().cloned());
        out
    }
    fn base_router(&self) -> Arc<Router<Rule>> {
        let mut router = Router::<Rule>::from_config(self.config.clone());
        for r in &self.base {
            router.insert(r.clone());
        }
        if self.cache {
            router.cache(None);
        }
        Arc::new(router)
    }
    fn change_set(&self) -> Value {
        json!({"added": self.added, "updated": self.updated, "deleted": self.deleted})
    }
}

fn router_of(config: &RouterConfig, rules: &[Rule]) -> Router<Rule> {
    let mut router = Router::<Rule>::from_config(config.clone());
    for r in rules {
        router.insert(r.clone());
    }
    router
}

// ------------------------------------------------------------------------------------------------
// canonical JSON

/// ids of the routes stored in the `storage` nodes of a trace forest (what `Trace::get_routes_from_traces` collects)
fn trace_route_ids(v: &Value, out: &mut Vec<String>) {
    match v {
        Value::Object(m) => {
            if m.get("type").and_then(|t| t.as_str()) == Some("storage") {
                for r in m.get("routes").and_then(|r| r.as_array()).cloned().unwrap_or_default() {
                    out.push(r["handler"]["id"].as_str().unwrap_or("?").to_string());
                }
            }
            if let Some(c) = m.get("children") {
                trace_route_ids(c, out);
            }
        }
        Value::Array(a) => a.iter().for_each(|x| trace_route_ids(x, out)),
        _ => {}
    }
}

fn canon(v: &Value) -> Value {
    match v {
        Value::Object(m) => {
            let mut out = Map::new();
            let is_trace = m.contains_key("matched") && m.contains_key("executed") && m.contains_key("children");
            for (k, x) in m {
                if is_trace && k == "count" {
                    continue;
                }
                if k == "match_traces" {
                    // the shape of the trace forest is not part of the property (buckets emptied by batch_remove stay in the
                    // matcher and show up as extra nodes): compare the routes it reaches
                    let mut ids = Vec::new();
                    trace_route_ids(x, &mut ids);
                    ids.sort();
                    out.insert("match_traces:route_ids".to_string(), json!(ids));
                    continue;
                }
                let mut c = canon(x);
                if (is_trace && (k == "children" || k == "routes")) || k == "unit_ids_seen" || k == "match_traces" {
                    if let Value::Array(a) = &mut c {
                        a.sort_by_key(|e| e.to_string());
                    }
                }
                out.insert(k.clone(), c);
            }
            Value::Object(out)
        }
        Value::Array(a) => Value::Array(a.iter().map(canon).collect()),
        other => other.clone(),
    }
}

/// test-examples: compared in full.  Since 9993ef8 the analysis visits the rules in id order, so the sample kept in
/// `first_ten_failures` / `first_ten_errors` (up to eleven rules: `len() <= 10`) is a function of the input (before, beyond
/// eleven failing rules, its membership followed the HashMap iteration order: finding O10, signature first-ten-nondeterministic).
fn canon_test_examples(v: &Value) -> Value {
    canon(v)
}

// ------------------------------------------------------------------------------------------------
// the pipeline computed directly with Router + Action

#[derive(PartialEq, Clone, Copy)]
enum Convention {
    /// request-time status, else backend status (`test_example`, `unit_ids`, `RedirectionLoop::compute`, the proxies)
    ProxyOrder,
    /// `get_final_status_code_with_fallback(example status or 0, 200)` (explain, impact)
    Fallback,
}

struct Direct {
    final_status: u16,
    backend_status: u16,
    headers: Vec<redirectionio::http::Header>,
    body: String,
    log: bool,
    unit_trace: UnitTrace,
}

fn direct(router: &Router<Rule>, example: &Example, conv: Convention, with_log: bool) -> Result<Direct, String> {
    let request = Request::from_example(&router.config, example).map_err(|e| e.to_string())?;
    let mut unit_trace = UnitTrace::default();
    let routes = router.match_request(&request);
    let mut action = Action::from_routes_rule(routes, &request, Some(&mut unit_trace));
    let (final_status, backend_status) = match conv {
        Convention::ProxyOrder => {
            let s0 = action.get_status_code(0, Some(&mut unit_trace));
            if s0 != 0 {
                (s0, s0)
            } else {
                let b = example.response_status_code.unwrap_or(200);
                (action.get_status_code(b, Some(&mut unit_trace)), b)
            }
        }
        Convention::Fallback => {
            let e = example.response_status_code.unwrap_or(0);
            let a = action.get_status_code(e, Some(&mut unit_trace));
            if e == 0 && a == 0 {
                (action.get_status_code(200, Some(&mut unit_trace)), 200)
            } else {
                (a, e)
            }
        }
    };
    let headers = action.filter_headers(Vec::new(), backend_status, false, Some(&mut unit_trace));
    let mut body = BODY.as_bytes().to_vec();
    if let Some(mut f) = action.create_filter_body(backend_status, &[]) {
        let mut b1 = f.filter(BODY.into(), Some(&mut unit_trace));
        b1.extend(f.end(Some(&mut unit_trace)));
        body = b1;
    }
    // `UnitIdsOutput::create_result` is the one analysis that does not ask for the log decision
    let log = if with_log { action.should_log_request(true, final_status, Some(&mut unit_trace)) } else { true };
    unit_trace.squash_with_target_unit_traces();
    Ok(Direct { final_status, backend_status, headers, body: String::from_utf8_lossy(&body).to_string(), log, unit_trace })
}

fn response_json(d: &Direct) -> Value {
    json!({
        "backend_status_code": d.backend_status,
        "response": {"status_code": d.final_status, "headers": d.headers.iter().map(|h| json!({"name": h.name, "value": h.value})).collect::<Vec<_>>(), "body": d.body},
        "should_log_request": d.log,
        "unit_trace": canon(&serde_json::to_value(&d.unit_trace).unwrap()),
    })
}

fn response_of_output(o: &Value) -> Value {
    json!({
        "backend_status_code": o["backend_status_code"],
        "response": o["response"],
        "should_log_request": o["should_log_request"],
        "unit_trace": canon(&o["unit_trace"]),
    })
}

// ------------------------------------------------------------------------------------------------
// the step table of RedirectionLoop::compute, observed on the real pipeline

fn join_url(base: &str, path: &str) -> String {
    let b = match url::Url::parse(base) {
        Ok(u) => u,
        Err(_) => return path.to_string(),
    };
    match b.join(path) {
        Ok(u) => u.to_string(),
        Err(_) => path.to_string(),
    }
}

fn external(domains: &[String], u: &str) -> bool {
    match url::Url::parse(u) {
        Ok(url) => !domains.is_empty() && !domains.contains(&url.host_str().unwrap_or_default().to_string()),
        Err(_) => false,
    }
}

/// one turn: (kind, status, joined location, ext)
fn step(router: &Router<Rule>, example: &Example, domains: &[String], u: &str, m: &str) -> (String, u16, Option<String>, bool) {
    let ex = example.with_url(u.to_string()).with_method(Some(m.to_string()));
    let request = match Request::from_example(&router.config, &ex) {
        Ok(r) => r,
        Err(_) => return ("req_err".into(), 0, None, false),
    };
    let routes = router.match_request(&request);
    let mut action = Action::from_routes_rule(routes, &request, None);
    let s0 = action.get_status_code(0, None);
    let (fin, backend) = if s0 != 0 {
        (s0, s0)
    } else {
        let b = ex.response_status_code.unwrap_or(200);
        (action.get_status_code(b, None), b)
    };
    let headers = action.filter_headers(Vec::new(), backend, false, None);
    let mut loc = None;
    for h in headers.iter() {
        if h.name.to_lowercase() == "location" {
            loc = Some(join_url(u, h.value.as_str()));
            break;
        }
    }
    let ext = loc.as_deref().map(|l| external(domains, l)).unwrap_or(false);
    ("resp".into(), fin, loc, ext)
}

/// the orbit of (url, method) under the real pipeline, up to `max_hops + 1` distinct keys
fn table_for(router: &Router<Rule>, example: &Example, domains: &[String], max_hops: u8) -> Value {
    let mut rows: Vec<Value> = Vec::new();
    let mut seen: Vec<(String, String)> = Vec::new();
    let mut u = example.url.clone();
    let mut m = example.method.clone().unwrap_or_else(|| "GET".to_string());
    for _ in 0..=(max_hops as usize) {
        if seen.contains(&(u.clone(), m.clone())) {
            break;
        }
        seen.push((u.clone(), m.clone()));
        let (kind, st, loc, ext) = step(router, example, domains, &u, &m);
        rows.push(json!([u, m, kind, st, loc, ext]));
        match loc {
            Some(l) if [301u16, 302, 307, 308].contains(&st) => {
                if st == 301 || st == 302 {
                    m = "GET".to_string();
                }
                u = l;
            }
            _ => break,
        }
    }
    Value::Array(rows)
}

/// The redirect chain the PROXY-ORDER pipeline gives: `RedirectionLoop::compute` re-enacted by the harness over its own `step`
/// (request-time status, else the example's backend code; headers filtered with the backend code; first Location; join_url;
/// 301/302 => GET; repeat => Loop; project domains; hop limit).  -> (hops [[url, status, method]..], error, a conditional hop was followed)
fn walk(router: &Router<Rule>, example: &Example, domains: &[String], max_hops: u8) -> (Vec<Value>, Value, bool) {
    let mut u = example.url.clone();
    let mut m = example.method.clone().unwrap_or_else(|| "GET".to_string());
    let mut hops: Vec<(String, u16, String)> = vec![(u.clone(), 0, m.clone())];
    let mut error = Value::Null;
    let mut conditional = false;
    for i in 1..=(max_hops as usize) {
        let (kind, st, loc, ext) = step(router, example, domains, &u, &m);
        if kind != "resp" || ![301u16, 302, 307, 308].contains(&st) {
            break;
        }
        let l = match loc {
            Some(l) => l,
            None => break,
        };
        // was this redirect decided by the backend code (request-time status 0)?
        {
            let ex = example.with_url(u.clone()).with_method(Some(m.clone()));
            if let Ok(request) = Request::from_example(&router.config, &ex) {
                let mut a = Action::from_routes_rule(router.match_request(&request), &request, None);
                if a.get_status_code(0, None) == 0 {
                    conditional = true;
                }
            }
        }
        u = l;
        if i > 1 {
            error = json!("AtLeastOneHop");
        }
        if st == 301 || st == 302 {
            m = "GET".to_string();
        }
        let repeat = hops.iter().any(|(hu, _, hm)| *hu == u && *hm == m);
        hops.push((u.clone(), st, m.clone()));
        if repeat {
            error = json!("Loop");
            break;
        }
        if ext {
            break;
        }
        if i >= max_hops as usize {
            error = json!("TooManyHops");
            break;
        }
    }
    (hops.into_iter().map(|(a, b, c)| json!([a, b, c])).collect(), error, conditional)
}

fn compute_tables(case: &Value) -> Option<Value> {
    let c = parse_case(case).ok()?;
    let router = router_of(&c.config, &c.applied());
    Some(Value::Array(c.probes.iter().map(|p| table_for(&router, p, &c.domains, c.max_hops)).collect()))
}

// ------------------------------------------------------------------------------------------------
// the per-example pipeline table for the analysis model of W4 (Model/LoopAnalysis.lean, driver key "an"): what the
// real pipeline answers for every example of every rule of the FINAL router; the model supplies the glue of
// test-examples / unit-ids (rule order, skipping, counters, failing condition, loop attachment, truncation, error path)

fn compute_an(case: &Value) -> Option<Value> {
    let c = parse_case(case).ok()?;
    let applied = c.applied();
    let router = router_of(&c.config, &applied);
    let mut rules = Vec::new();
    for (id, route) in router.routes() {
        let rule = route.handler();
        let exs: Value = match &rule.examples {
            None => Value::Null,
            Some(examples) => Value::Array(
                examples
                    .iter()
                    .map(|ex| {
                        let mut e = json!({"expected": ex.unit_ids_applied, "must_match": ex.must_match});
                        match direct(&router, ex, Convention::ProxyOrder, true) {
                            Err(msg) => e["req"] = json!({"err": msg}),
                            Ok(t) => {
                                e["req"] = json!("ok");
                                e["test_rule_ids"] = json!(t.unit_trace.get_rule_ids_applied().into_iter().collect::<Vec<_>>());
                                e["test_unit_ids"] = json!(t.unit_trace.get_unit_ids_applied().into_iter().collect::<Vec<_>>());
                                let u = direct(&router, ex, Convention::ProxyOrder, false).ok();
                                e["unit_unit_ids"] = json!(u.map(|u| u.unit_trace.get_unit_ids_applied().into_iter().collect::<Vec<_>>()));
                                // RedirectionLoop is not exported: its error is read from the explain analysis of the example
                                let input: Option<ExplainRequestInput> = serde_json::from_value(json!({"router_config": c.config_json, "example": ex, "rules": applied, "max_hops": c.max_hops, "project_domains": c.domains})).ok();
                                let out = input.map(|i| explain_value(ExplainRequestOutput::create_result_without_project(i))).unwrap_or(Value::Null);
                                e["loop_error"] = out["redirection_loop"]["error"].clone();
                            }
                        }
                        e
                    })
                    .collect(),
            ),
        };
        rules.push(json!({"id": id, "examples": exs}));
    }
    Some(json!({"max_hops": c.max_hops, "rules": rules}))
}

/// the projection of the real TestExamplesOutput / UnitIdsOutput (standalone family, final rule list) the model must equal
fn observe_an(applied: &[Rule], te: &Value, ui: &Value) -> Value {
    // indices of the reported (failed / errored) examples within their rule: reported examples keep the example order
    let index_of = |rule: &Rule, reported: &[Value]| -> Vec<usize> {
        let exs: Vec<Value> = rule.examples.clone().unwrap_or_default().iter().map(|e| serde_json::to_value(e).unwrap()).collect();
        let mut out = Vec::new();
        let mut k = 0;
        for r in reported {
            while k < exs.len() && exs[k] != r["example"] {
                k += 1;
            }
            out.push(k);
            k += 1;
        }
        out
    };
    let by_id = |id: &str| applied.iter().find(|r| r.id == id);
    let mut failures = Vec::new();
    if let Some(m) = te["first_ten_failures"].as_object() {
        for (id, fr) in m {
            let rep = fr["failed_examples"].as_array().cloned().unwrap_or_default();
            let idx = by_id(id).map(|r| index_of(r, &rep)).unwrap_or_default();
            let items: Vec<Value> = rep.iter().zip(idx.iter()).map(|(fe, i)| json!([i, fe["rule_ids_applied"], fe["unit_ids_applied"], fe["unit_ids_not_applied_anymore"], fe["redirection_loop"]["error"]])).collect();
            failures.push(json!([id, items]));
        }
    }
    let mut errors = Vec::new();
    if let Some(m) = te["first_ten_errors"].as_object() {
        for (id, er) in m {
            let rep = er["errored_examples"].as_array().cloned().unwrap_or_default();
            let idx = by_id(id).map(|r| index_of(r, &rep)).unwrap_or_default();
            let items: Vec<Value> = rep.iter().zip(idx.iter()).map(|(ee, i)| json!([i, ee["error"]])).collect();
            errors.push(json!([id, items]));
        }
    }
    let mut unit_ids = Vec::new();
    if let Some(m) = ui["rules"].as_object() {
        for (id, ro) in m {
            let items: Vec<Value> = ro["examples"].as_array().cloned().unwrap_or_default().iter().enumerate().map(|(i, e)| json!([i, e["unit_ids_applied"]])).collect();
            unit_ids.push(json!([id, items]));
        }
    }
    json!({"example_count": te["example_count"], "failure_count": te["failure_count"], "error_count": te["error_count"], "failures": failures, "errors": errors, "unit_ids": unit_ids})
}

// ------------------------------------------------------------------------------------------------
// W10: the extended per-example table (driver key "an2", Model/LoopAnalysisTable2.lean): on it the model runs its OWN walker
// (Loop.compute over the step table of every example), explain and compute_impacts; format in the header of the Lean file

/// sorted ids of the routes in the storage nodes of `router.trace_request(&request)`
fn trace_ids(router: &Router<Rule>, request: &Request) -> Vec<String> {
    let mut ids = Vec::new();
    trace_route_ids(&serde_json::to_value(router.trace_request(request)).unwrap_or(Value::Null), &mut ids);
    ids.sort();
    ids
}

/// one entry E: `router` is the analysed router, `trace_router` the router whose `trace_request` the analysis reports
/// when that is another one (impact); `with_ids`: the test-examples / unit-ids conventions (rule tables only)
fn an2_entry(router: &Router<Rule>, trace_router: Option<&Router<Rule>>, ex: &Example, domains: &[String], max_hops: u8, with_ids: bool) -> Value {
    let mut e = json!({"url": ex.url, "method": ex.method, "expected": ex.unit_ids_applied, "must_match": ex.must_match});
    match Request::from_example(&router.config, ex) {
        Err(err) => e["req"] = json!({"err": err.to_string()}),
        Ok(request) => {
            e["req"] = json!("ok");
            if with_ids {
                if let Ok(t) = direct(router, ex, Convention::ProxyOrder, true) {
                    e["test_rule_ids"] = json!(t.unit_trace.get_rule_ids_applied().into_iter().collect::<Vec<_>>());
                    e["test_unit_ids"] = json!(t.unit_trace.get_unit_ids_applied().into_iter().collect::<Vec<_>>());
                }
                if let Ok(u) = direct(router, ex, Convention::ProxyOrder, false) {
                    e["unit_unit_ids"] = json!(u.unit_trace.get_unit_ids_applied().into_iter().collect::<Vec<_>>());
                }
            }
            if let Ok(d) = direct(router, ex, Convention::Fallback, true) {
                e["core"] = response_json(&d);
            }
            e["trace"] = json!(trace_ids(router, &request));
            if let Some(t) = trace_router {
                e["trace_t"] = json!(trace_ids(t, &request));
            }
        }
    }
    e["rows"] = table_for(router, ex, domains, max_hops);
    e
}

/// the routers of the impact analysis: (apply(B, D) without the rule's id, plus the rule for add / update; the trace-unique router)
fn impact_routers(c: &Case, applied: &[Rule], rule: &Rule, action: &str) -> (Router<Rule>, Router<Rule>) {
    let mut rules: Vec<Rule> = applied.iter().filter(|r| r.id != rule.id).cloned().collect();
    let mut unique: Vec<Rule> = Vec::new();
    if action == "add" || action == "update" {
        rules.push(rule.clone());
        unique.push(rule.clone());
    }
    (router_of(&c.config, &rules), router_of(&c.config, &unique))
}

fn compute_an2(case: &Value) -> Option<Value> {
    let c = parse_case(case).ok()?;
    let applied = c.applied();
    let router = router_of(&c.config, &applied);
    let mut rules = Vec::new();
    for (id, route) in router.routes() {
        let exs: Value = match &route.handler().examples {
            None => Value::Null,
            Some(examples) => Value::Array(examples.iter().map(|ex| an2_entry(&router, None, ex, &c.domains, c.max_hops, true)).collect()),
        };
        rules.push(json!({"id": id, "examples": exs}));
    }
    let explain: Vec<Value> = c.probes.iter().map(|p| an2_entry(&router, None, p, &c.domains, c.max_hops, false)).collect();
    let impact = match &c.impact {
        None => Value::Null,
        Some((rule, action, with_loop)) => {
            let (ir, tr) = impact_routers(&c, &applied, rule, action);
            let exs: Value = match &rule.examples {
                None => Value::Null,
                Some(examples) => Value::Array(examples.iter().map(|ex| an2_entry(&ir, Some(&tr), ex, &c.domains, c.max_hops, false)).collect()),
            };
            json!({"with_loop": with_loop, "examples": exs})
        }
    };
    Some(json!({"max_hops": c.max_hops, "rules": rules, "explain": explain, "impact": impact}))
}

/// `RedirectionLoop` as the model prints it
fn loop_proj(rl: &Value) -> Value {
    if rl.is_null() {
        return Value::Null;
    }
    json!({"hops": rl["hops"].as_array().cloned().unwrap_or_default().iter().map(|h| json!([h["url"], h["status_code"], h["method"]])).collect::<Vec<_>>(), "error": rl["error"]})
}

fn route_ids_of(traces: &Value) -> Vec<String> {
    let mut ids = Vec::new();
    trace_route_ids(traces, &mut ids);
    ids.sort();
    ids
}

/// the projection of the real outputs (standalone family, final rule list) the model run on "an2" must equal
fn observe_an2(c: &Case, applied: &[Rule], te: &Value, ui: &Value, explains: &[Value], impact: &Option<Value>) -> Value {
    let base = observe_an(applied, te, ui);
    // test-examples: as `an`, with the whole redirect chain of a chain failure instead of its error
    let mut failures = Vec::new();
    if let (Some(m), Some(b)) = (te["first_ten_failures"].as_object(), base["failures"].as_array()) {
        for ((id, fr), bf) in m.iter().zip(b.iter()) {
            let rep = fr["failed_examples"].as_array().cloned().unwrap_or_default();
            let items: Vec<Value> = rep.iter().zip(bf[1].as_array().cloned().unwrap_or_default().iter()).map(|(fe, bi)| json!([bi[0], bi[1], bi[2], bi[3], loop_proj(&fe["redirection_loop"])])).collect();
            failures.push(json!([id, items]));
        }
    }
    let te_obs = json!({"example_count": te["example_count"], "failure_count": te["failure_count"], "error_count": te["error_count"], "failures": failures, "errors": base["errors"]});
    let explain: Vec<Value> = explains
        .iter()
        .enumerate()
        .map(|(pi, e)| {
            if let Some(msg) = e.get("error_message") {
                return json!({"error_message": msg});
            }
            let same = c.probes.get(pi).map(|p| serde_json::to_value(p).unwrap() == e["example"]).unwrap_or(false);
            json!({"idx": if same { json!(pi) } else { json!(-1) }, "core": response_of_output(e), "trace": route_ids_of(&e["match_traces"]), "loop": loop_proj(&e["redirection_loop"])})
        })
        .collect();
    let impact_obs = match (impact, &c.impact) {
        (Some(out), Some((rule, _, _))) => {
            let examples: Vec<Value> = rule.examples.clone().unwrap_or_default().iter().map(|e| serde_json::to_value(e).unwrap()).collect();
            let default_trace = serde_json::to_value(UnitTrace::default()).unwrap();
            Value::Array(
                out["impacts"]
                    .as_array()
                    .cloned()
                    .unwrap_or_default()
                    .iter()
                    .enumerate()
                    .map(|(k, imp)| {
                        let idx = if examples.get(k) == Some(&imp["example"]) { json!(k) } else { json!(-1) };
                        if !imp["error"].is_null() {
                            let defaults = imp["unit_trace"] == default_trace
                                && imp["backend_status_code"] == json!(0)
                                && imp["response"] == json!({"status_code": 0, "headers": [], "body": ""})
                                && imp["redirection_loop"].is_null()
                                && imp["match_traces"] == json!([])
                                && imp["should_log_request"] == json!(false);
                            json!({"idx": idx, "error": imp["error"], "defaults": defaults})
                        } else {
                            json!({"idx": idx, "core": response_of_output(imp), "trace": route_ids_of(&imp["match_traces"]), "loop": loop_proj(&imp["redirection_loop"])})
                        }
                    })
                    .collect(),
            )
        }
        _ => Value::Null,
    };
    json!({"te": te_obs, "unit_ids": base["unit_ids"], "explain": explain, "impact": impact_obs})
}

// ------------------------------------------------------------------------------------------------
// checks on a RedirectionLoop value found in an output

fn check_loop(l: &Value, max_hops: u8) -> Result<(), (String, &'static str)> {
    if l.is_null() {
        return Ok(());
    }
    let hops = l["hops"].as_array().ok_or(("loop without hops".to_string(), "loop-shape"))?;
    if hops.is_empty() || hops.len() > max_hops as usize + 1 {
        return Err((format!("{} hops with max_hops {}", hops.len(), max_hops), "loop-bound"));
    }
    let keys: Vec<(String, String)> = hops.iter().map(|h| (h["url"].as_str().unwrap_or("").to_string(), h["method"].as_str().unwrap_or("").to_string())).collect();
    let last = keys.last().unwrap();
    let last_repeats = keys[..keys.len() - 1].contains(last);
    let mut prefix_dup = false;
    for i in 0..keys.len() - 1 {
        if keys[..i].contains(&keys[i]) {
            prefix_dup = true;
        }
    }
    let is_loop = l["error"].as_str() == Some("Loop");
    if is_loop != last_repeats || prefix_dup {
        return Err((format!("error={} but last hop repeats={} (repeat before the last hop: {})", l["error"], last_repeats, prefix_dup), "loop-iff-repeat"));
    }
    if l["error"].as_str() == Some("TooManyHops") && hops.len() != max_hops as usize + 1 {
        return Err((format!("TooManyHops with {} hops, max_hops {}", hops.len(), max_hops), "loop-too-many"));
    }
    Ok(())
}

fn loops_in(v: &Value, out: &mut Vec<Value>) {
    match v {
        Value::Object(m) => {
            for (k, x) in m {
                if k == "redirection_loop" && !x.is_null() {
                    out.push(x.clone());
                } else {
                    loops_in(x, out);
                }
            }
        }
        Value::Array(a) => a.iter().for_each(|x| loops_in(x, out)),
        _ => {}
    }
}

// ------------------------------------------------------------------------------------------------
// run

/// paths (array indices erased) at which two JSON values differ: used to report which serialised fields of an analysis
/// are not a function of its input (two evaluations of the same input differ only through HashMap iteration order)
fn diff_paths(path: &str, a: &Value, b: &Value, out: &mut Vec<String>) {
    if out.len() > 8 {
        return;
    }
    match (a, b) {
        (Value::Object(x), Value::Object(y)) => {
            for k in x.keys().chain(y.keys().filter(|k| !x.contains_key(*k))) {
                match (x.get(k), y.get(k)) {
                    (Some(p), Some(q)) => diff_paths(&format!("{path}.{k}"), p, q, out),
                    _ => out.push(format!("{path}.{k}")),
                }
            }
        }
        (Value::Array(x), Value::Array(y)) => {
            if x.len() != y.len() {
                out.push(format!("{path}[]"));
            } else {
                for (p, q) in x.iter().zip(y.iter()) {
                    diff_paths(&format!("{path}[]"), p, q, out);
                }
            }
        }
        _ => {
            if a != b && !out.contains(&path.to_string()) {
                out.push(path.to_string());
            }
        }
    }
}

/// `C19_DEBUG=1`: print the first differing path of two values on stderr (development aid).
fn dbg_diff(what: &str, a: &Value, b: &Value) {
    if std::env::var("C19_DEBUG").is_err() {
        return;
    }
    fn first(path: String, a: &Value, b: &Value) -> Option<String> {
        match (a, b) {
            (Value::Object(x), Value::Object(y)) => {
                for k in x.keys().chain(y.keys()) {
                    match (x.get(k), y.get(k)) {
                        (Some(p), Some(q)) => {
                            if let Some(d) = first(format!("{path}.{k}"), p, q) {
                                return Some(d);
                            }
                        }
                        (p, q) => return Some(format!("{path}.{k}: {:?} vs {:?}", p.map(|v| v.to_string()), q.map(|v| v.to_string()))),
                    }
                }
                None
            }
            (Value::Array(x), Value::Array(y)) => {
                if x.len() != y.len() {
                    return Some(format!("{path}: len {} vs {}\n   {}\n   {}", x.len(), y.len(), a, b));
                }
                for (i, (p, q)) in x.iter().zip(y.iter()).enumerate() {
                    if let Some(d) = first(format!("{path}[{i}]"), p, q) {
                        return Some(d);
                    }
                }
                None
            }
            _ => {
                if a != b {
                    Some(format!("{path}: {a} vs {b}"))
                } else {
                    None
                }
            }
        }
    }
    eprintln!("DIFF {what}: {}", first(String::new(), a, b).unwrap_or_default());
}

fn explain_value(r: Result<ExplainRequestOutput, redirectionio::api::ExplainRequestOutputError>) -> Value {
    match r {
        Ok(o) => serde_json::to_value(&o).unwrap(),
        Err(e) => json!({"error_message": e.message}),
    }
}

fn run(case: &Value) -> Obs {
    w8_watchdog::arm(60);
    let strict_proxy_order = std::env::args().any(|a| a == "--strict-proxy-order");
    let c = match parse_case(case) {
        Ok(c) => c,
        Err(e) => return Obs::invalid(&e),
    };
    let applied = c.applied();
    let mut reversed = applied.clone();
    reversed.reverse();
    let mut fails: Vec<(String, &'static str)> = Vec::new();
    let mut tags: Vec<String> = Vec::new();
    let changed = !(c.added.is_empty() && c.updated.is_empty() && c.deleted.is_empty());
    tags.push(format!("changeset:{}", if changed { "yes" } else { "empty" }));
    let final_router = router_of(&c.config, &applied);

    // ---- the step tables must be the implementation's (see the module comment)
    let tables_now = Value::Array(c.probes.iter().map(|p| table_for(&final_router, p, &c.domains, c.max_hops)).collect());
    match case.get("tables") {
        Some(t) if *t == tables_now => {}
        _ => {
            // A case exactly as generated (digest intact) whose table differs from what this process observes: the pipeline
            // is not a function of its input (HashMap order, clock, …) — an oracle failure.  Nothing the generator emits is
            // legitimately time-dependent: `sampling` is 0 / 100 only, no `time` / `weekdays` triggers, and the only datetime
            // trigger is the range 1999–2001, far from `Utc::now()` (examples without `datetime`).  A shrunk candidate (digest
            // broken: its rules / probes changed, the table is simply stale) stays invalid.
            if case.get("digest").and_then(|d| d.as_str()) == Some(case_digest(case).as_str()) {
                return Obs::new(json!({"loops": "table differs"})).fail("the step table the generator observed differs from the one this process observes for the same case", "nondeterministic-pipeline");
            }
            return Obs::invalid("stale table");
        }
    }

    // ---- test examples
    let te_std = |rules: &[Rule]| -> Value {
        let input: TestExamplesInput = serde_json::from_value(json!({"router_config": c.config_json, "rules": rules, "max_hops": c.max_hops, "project_domains": c.domains})).unwrap();
        serde_json::to_value(TestExamplesOutput::create_result_without_project(input)).unwrap()
    };
    let te_s = te_std(&applied);
    let te_r = te_std(&reversed);
    let te_p = {
        let input: TestExamplesProjectInput = serde_json::from_value(json!({"change_set": c.change_set(), "max_hops": c.max_hops, "project_domains": c.domains})).unwrap();
        serde_json::to_value(TestExamplesOutput::from_project(input, c.base_router())).unwrap()
    };
    if std::env::var("C19_DEBUG").is_ok() {
        let keys = |v: &Value| -> Vec<String> { v["first_ten_failures"].as_object().map(|m| m.keys().cloned().collect()).unwrap_or_default() };
        eprintln!("first_ten_failures keys: standalone {:?} | same input again {:?} | project {:?}", keys(&te_s), keys(&te_std(&applied)), keys(&te_p));
    }
    if canon_test_examples(&te_p) != canon_test_examples(&te_s) {
        fails.push(("test-examples: project != standalone".into(), "project-vs-standalone"));
    }
    // the sample of failing rules is a function of the input: a second evaluation of the same input gives the same value
    {
        let again = te_std(&applied);
        if canon(&again) != canon(&te_s) {
            fails.push(("test-examples: first_ten_failures / first_ten_errors differ between two evaluations of the same input".into(), "first-ten-nondeterministic"));
        }
        let failing = te_s["first_ten_failures"].as_object().map(|m| m.len()).unwrap_or(0);
        tags.push(format!("te-sample:{}", if te_s["failure_count"].as_u64().unwrap_or(0) as usize > failing && failing >= 11 { "truncated" } else if failing >= 11 { "full-11" } else { "small" }));
    }
    // round trip unit-ids -> test-examples: an example carrying exactly the unit ids the unit-ids analysis reports for it
    // is never reported with "unit ids not applied any more" (the two analyses replay the same pipeline; test-examples
    // additionally asks for the log decision, which can only ADD unit ids — observation O9)
    {
        let ui: UnitIdsInput = serde_json::from_value(json!({"router_config": c.config_json, "rules": applied})).unwrap();
        let ui_out = serde_json::to_value(UnitIdsOutput::create_result_without_project(ui)).unwrap();
        let mut rules2: Vec<Value> = Vec::new();
        for r in &applied {
            let mut rj = serde_json::to_value(r).unwrap();
            if let Some(exs) = ui_out["rules"].get(&r.id).and_then(|x| x.get("examples")) {
                rj["examples"] = exs.clone();
            }
            rules2.push(rj);
        }
        let input: TestExamplesInput = serde_json::from_value(json!({"router_config": c.config_json, "rules": rules2, "max_hops": c.max_hops, "project_domains": c.domains})).unwrap();
        let out = serde_json::to_value(TestExamplesOutput::create_result_without_project(input)).unwrap();
        if let Some(m) = out["first_ten_failures"].as_object() {
            for (id, fr) in m {
                for fe in fr["failed_examples"].as_array().cloned().unwrap_or_default() {
                    if fe["unit_ids_not_applied_anymore"].as_array().map(|a| !a.is_empty()).unwrap_or(false) {
                        fails.push((format!("rule {id}: the unit ids reported by unit-ids are not all applied according to test-examples: {}", fe["unit_ids_not_applied_anymore"]), "unit-ids-roundtrip"));
                    }
                }
            }
        }
    }
    if canon_test_examples(&te_r) != canon_test_examples(&te_s) {
        fails.push(("test-examples: depends on rule order".into(), "order-independence"));
    }
    // verdicts recomputed directly
    {
        let (mut n_ex, mut n_fail, mut n_err) = (0u64, 0u64, 0u64);
        let mut expected_loop_failures = 0u64;
        let mut expected_loop_chains: Vec<Value> = Vec::new();
        let mut expected_failures: Map<String, Value> = Map::new();
        for rule in &applied {
            let examples = match &rule.examples {
                Some(e) => e,
                None => continue,
            };
            for ex in examples {
                if ex.unit_ids_applied.is_none() {
                    continue;
                }
                let d = match direct(&final_router, ex, Convention::ProxyOrder, true) {
                    Ok(d) => d,
                    Err(_) => {
                        n_err += 1;
                        continue;
                    }
                };
                let not_applied = d.unit_trace.diff(ex.unit_ids_applied.clone().unwrap());
                let contains = d.unit_trace.rule_ids_contains(rule.id.as_str());
                let failed = ex.must_match && (!not_applied.is_empty() || !contains) || !ex.must_match && contains;
                if !failed {
                    // the redirect analysis of a passing example: TooManyHops / Loop make it a failure
                    let (whops, werr, wcond) = walk(&final_router, ex, &c.domains, c.max_hops);
                    if werr == json!("TooManyHops") || werr == json!("Loop") {
                        expected_loop_failures += 1;
                        expected_loop_chains.push(json!([rule.id, whops, werr]));
                        if wcond {
                            tags.push("te-loop-failure:conditional-hop".into());
                        }
                    }
                }
                if failed {
                    n_fail += 1;
                    let entry = expected_failures.entry(rule.id.clone()).or_insert_with(|| json!([]));
                    entry.as_array_mut().unwrap().push(json!({
                        "rule_ids_applied": d.unit_trace.get_rule_ids_applied().into_iter().collect::<Vec<_>>(),
                        "unit_ids_applied": d.unit_trace.get_unit_ids_applied().into_iter().collect::<Vec<_>>(),
                        "unit_ids_not_applied_anymore": not_applied.into_iter().collect::<Vec<_>>(),
                    }));
                }
                n_ex += 1;
            }
        }
        // failures caused by the redirect analysis only (TooManyHops / Loop) are counted by the implementation too
        let mut loop_only = 0u64;
        let mut got_failures: Map<String, Value> = Map::new();
        if let Some(m) = te_s["first_ten_failures"].as_object() {
            for (id, fr) in m {
                for fe in fr["failed_examples"].as_array().cloned().unwrap_or_default() {
                    if fe["redirection_loop"].is_null() {
                        got_failures.entry(id.clone()).or_insert_with(|| json!([])).as_array_mut().unwrap().push(json!({
                            "rule_ids_applied": fe["rule_ids_applied"], "unit_ids_applied": fe["unit_ids_applied"], "unit_ids_not_applied_anymore": fe["unit_ids_not_applied_anymore"]}));
                    } else {
                        loop_only += 1;
                    }
                }
            }
        }
        // the failure counter is exact whatever the size of the sample: unit-id failures + passing examples whose redirect chain,
        // computed by the harness with the proxy-order pipeline, ends in TooManyHops / Loop
        if te_s["failure_count"].as_u64() != Some(n_fail + expected_loop_failures) {
            fails.push((format!("test-examples failure_count {} but the proxy-order pipeline gives {} unit-id failures + {} redirect-chain failures", te_s["failure_count"], n_fail, expected_loop_failures), "loop-vs-pipeline"));
        }
        // the chains attached to the reported failures are the pipeline's chains
        if let Some(m) = te_s["first_ten_failures"].as_object() {
            for (id, fr) in m {
                for fe in fr["failed_examples"].as_array().cloned().unwrap_or_default() {
                    let rl = &fe["redirection_loop"];
                    if !rl.is_null() {
                        let got = json!([id, rl["hops"].as_array().cloned().unwrap_or_default().iter().map(|h| json!([h["url"], h["status_code"], h["method"]])).collect::<Vec<_>>(), rl["error"]]);
                        if !expected_loop_chains.contains(&got) {
                            fails.push((format!("test-examples reports the redirect chain {got}, which the proxy-order pipeline does not give"), "loop-vs-pipeline"));
                        }
                    }
                }
            }
        }
        let small = te_s["first_ten_failures"].as_object().map(|m| m.len() <= 10).unwrap_or(true);
        if te_s["example_count"].as_u64() != Some(n_ex) || te_s["error_count"].as_u64() != Some(n_err) {
            fails.push((format!("test-examples counts {}/{} but the pipeline gives {}/{}", te_s["example_count"], te_s["error_count"], n_ex, n_err), "pipeline-agreement"));
        } else if small && (te_s["failure_count"].as_u64() != Some(n_fail + loop_only) || Value::Object(got_failures) != Value::Object(expected_failures)) {
            fails.push((format!("test-examples failures differ from the pipeline ({} vs {} + {} loop)", te_s["failure_count"], n_fail, loop_only), "pipeline-agreement"));
        }
        tags.push(format!("te-failures:{}", n_fail.min(3)));
        if loop_only > 0 {
            tags.push("te-loop-failure".into());
        }
    }

    // ---- unit ids
    let ui_std = |rules: &[Rule]| -> Value {
        let input: UnitIdsInput = serde_json::from_value(json!({"router_config": c.config_json, "rules": rules})).unwrap();
        serde_json::to_value(UnitIdsOutput::create_result_without_project(input)).unwrap()
    };
    let ui_s = ui_std(&applied);
    let ui_r = ui_std(&reversed);
    {
        let mut d = Vec::new();
        diff_paths("unit-ids", &ui_s, &ui_std(&applied), &mut d);
        for p in d.iter().take(3) {
            tags.push(format!("raw-order:{}", p.split('.').take(2).collect::<Vec<_>>().join(".")));
        }
    }
    let ui_p = {
        let input: UnitIdsProjectInput = serde_json::from_value(json!({"change_set": c.change_set()})).unwrap();
        serde_json::to_value(UnitIdsOutput::create_result_from_project(input, c.base_router())).unwrap()
    };
    if canon(&ui_p) != canon(&ui_s) {
        fails.push(("unit-ids: project != standalone".into(), "project-vs-standalone"));
    }
    if canon(&ui_r) != canon(&ui_s) {
        fails.push(("unit-ids: depends on rule order".into(), "order-independence"));
    }
    {
        let mut expected: Map<String, Value> = Map::new();
        for rule in &applied {
            if let Some(examples) = &rule.examples {
                let mut outs = Vec::new();
                for ex in examples {
                    let mut e2 = ex.clone();
                    if let Ok(d) = direct(&final_router, ex, Convention::ProxyOrder, false) {
                        e2.unit_ids_applied = Some(d.unit_trace.get_unit_ids_applied().into_iter().collect());
                    }
                    outs.push(serde_json::to_value(&e2).unwrap());
                }
                expected.insert(rule.id.clone(), json!({"examples": outs}));
            }
        }
        if ui_s["rules"] != Value::Object(expected.clone()) {
            dbg_diff("unit-ids s/direct", &ui_s["rules"], &Value::Object(expected));
            fails.push(("unit-ids differ from the pipeline".into(), "pipeline-agreement"));
        }
    }

    // ---- explain, per probe
    let mut loops = Vec::new();
    let mut explain_outs: Vec<Value> = Vec::new();
    let mut impact_out: Option<Value> = None;
    for (pi, probe) in c.probes.iter().enumerate() {
        let ex_std = |rules: &[Rule]| -> Value {
            let input: ExplainRequestInput = serde_json::from_value(json!({"router_config": c.config_json, "example": probe, "rules": rules, "max_hops": c.max_hops, "project_domains": c.domains})).unwrap();
            explain_value(ExplainRequestOutput::create_result_without_project(input))
        };
        let e_s = ex_std(&applied);
        explain_outs.push(e_s.clone());
        let e_r = ex_std(&reversed);
        {
            // statistic: which serialised fields change between two evaluations of the SAME input (array order only)
            let mut d = Vec::new();
            diff_paths("explain", &e_s, &ex_std(&applied), &mut d);
            d.sort();
            d.dedup();
            for p in d.iter().take(3) {
                tags.push(format!("raw-order:{}", p.split('.').take(3).collect::<Vec<_>>().join(".")));
            }
        }
        let e_p = {
            let input: ExplainRequestProjectInput = serde_json::from_value(json!({"example": probe, "change_set": c.change_set(), "max_hops": c.max_hops, "project_domains": c.domains})).unwrap();
            explain_value(ExplainRequestOutput::create_result_from_project(input, c.base_router()))
        };
        if canon(&e_p) != canon(&e_s) {
            dbg_diff("explain p/s", &canon(&e_p), &canon(&e_s));
            fails.push((format!("explain probe {pi}: project != standalone"), "project-vs-standalone"));
        }
        if canon(&e_r) != canon(&e_s) {
            fails.push((format!("explain probe {pi}: depends on rule order"), "order-independence"));
        }
        match direct(&final_router, probe, Convention::Fallback, true) {
            Err(e) => {
                if e_s.get("error_message").and_then(|m| m.as_str()) != Some(&format!("Invalid example: {e}")) {
                    fails.push((format!("explain probe {pi}: request cannot be built but explain answered"), "pipeline-agreement"));
                }
                tags.push("probe:invalid-example".into());
            }
            Ok(d) => {
                if e_s.get("error_message").is_some() || response_of_output(&e_s) != response_json(&d) {
                    fails.push((format!("explain probe {pi}: response differs from the pipeline"), "pipeline-agreement"));
                }
                // the proxy-order convention (what a proxy does) – statistic, strict only on request
                if let Ok(p) = direct(&final_router, probe, Convention::ProxyOrder, true) {
                    let same = p.headers.iter().map(|h| (&h.name, &h.value)).eq(d.headers.iter().map(|h| (&h.name, &h.value)))
                        && p.body == d.body
                        && p.log == d.log
                        && (p.final_status == d.final_status || (d.final_status == 0 && p.final_status == p.backend_status));
                    tags.push(format!("explain-vs-proxy-order:{}", if same { "same" } else { "differs" }));
                    if !same && strict_proxy_order {
                        fails.push((format!("explain probe {pi}: response differs from the proxy-order pipeline"), "explain-fallback-convention"));
                    }
                }
            }
        }
        let l = if e_s.get("error_message").is_some() {
            json!({"error_message": true})
        } else {
            let rl = &e_s["redirection_loop"];
            json!({
                "hops": rl["hops"].as_array().cloned().unwrap_or_default().iter().map(|h| json!([h["url"], h["status_code"], h["method"]])).collect::<Vec<_>>(),
                "error": rl["error"],
            })
        };
        if l.get("hops").is_some() {
            let (hops, error, conditional) = walk(&final_router, probe, &c.domains, c.max_hops);
            if l["hops"] != Value::Array(hops.clone()) || l["error"] != error {
                fails.push((format!("explain probe {pi}: the redirect chain {} / {} differs from the proxy-order pipeline {} / {}", l["hops"], l["error"], Value::Array(hops), error), "loop-vs-pipeline"));
            }
            if conditional {
                tags.push(format!("loop:conditional-hop/{}", l["error"].as_str().unwrap_or("none")));
            }
        }
        if let Some(e) = l["error"].as_str() {
            tags.push(format!("loop:{e}"));
        } else if l.get("hops").is_some() {
            tags.push(format!("loop:none/{}hops", l["hops"].as_array().map(|a| a.len().min(4)).unwrap_or(0)));
        }
        loops.push(l);
        let mut found = Vec::new();
        loops_in(&e_s, &mut found);
        loops_in(&e_p, &mut found);
        for l in found {
            if let Err(f) = check_loop(&l, c.max_hops) {
                fails.push(f);
            }
        }
    }

    // ---- impact
    if let Some((rule, action, with_loop)) = &c.impact {
        let im_std = |rules: &[Rule]| -> Value {
            let input: ImpactInput = serde_json::from_value(json!({"router_config": c.config_json, "max_hops": c.max_hops, "with_redirection_loop": with_loop, "domains": c.domains, "rule": rule, "action": action, "rules": rules})).unwrap();
            serde_json::to_value(ImpactOutput::create_result(input)).unwrap()
        };
        let i_s = im_std(&applied);
        impact_out = Some(i_s.clone());
        let i_r = im_std(&reversed);
        {
            let mut d = Vec::new();
            diff_paths("impact", &i_s, &im_std(&applied), &mut d);
            d.sort();
            d.dedup();
            for p in d.iter().take(3) {
                tags.push(format!("raw-order:{}", p.split('.').take(4).collect::<Vec<_>>().join(".")));
            }
        }
        let i_p = {
            let input: ImpactProjectInput = serde_json::from_value(json!({"max_hops": c.max_hops, "with_redirection_loop": with_loop, "domains": c.domains, "rule": rule, "action": action, "change_set": c.change_set()})).unwrap();
            serde_json::to_value(ImpactOutput::from_impact_project(input, c.base_router())).unwrap()
        };
        if canon(&i_p) != canon(&i_s) {
            fails.push(("impact: project != standalone".into(), "project-vs-standalone"));
        }
        if canon(&i_r) != canon(&i_s) {
            fails.push(("impact: depends on rule order".into(), "order-independence"));
        }
        // the router the impact analysis evaluates: apply(B, D) without the rule's id, plus the rule for add / update
        let mut rules: Vec<Rule> = applied.iter().filter(|r| r.id != rule.id).cloned().collect();
        if action == "add" || action == "update" {
            rules.push(rule.clone());
        }
        let impact_router = router_of(&c.config, &rules);
        let impacts = i_s["impacts"].as_array().cloned().unwrap_or_default();
        let examples = rule.examples.clone().unwrap_or_default();
        if impacts.len() != examples.len() {
            fails.push((format!("impact: {} impacts for {} examples", impacts.len(), examples.len()), "pipeline-agreement"));
        } else {
            for (k, (ex, imp)) in examples.iter().zip(impacts.iter()).enumerate() {
                match direct(&impact_router, ex, Convention::Fallback, true) {
                    Err(e) => {
                        if imp["error"].as_str() != Some(&format!("Cannot create query from example: {e}")) {
                            fails.push((format!("impact example {k}: request cannot be built but no error is reported"), "pipeline-agreement"));
                        }
                    }
                    Ok(d) => {
                        if !imp["error"].is_null() || response_of_output(imp) != response_json(&d) {
                            fails.push((format!("impact example {k}: response differs from the pipeline"), "pipeline-agreement"));
                        }
                        if *with_loop == imp["redirection_loop"].is_null() {
                            fails.push((format!("impact example {k}: with_redirection_loop={with_loop} but loop null={}", imp["redirection_loop"].is_null()), "pipeline-agreement"));
                        }
                    }
                }
            }
        }
        let mut found = Vec::new();
        loops_in(&i_s, &mut found);
        loops_in(&i_p, &mut found);
        for l in found {
            if let Err(f) = check_loop(&l, c.max_hops) {
                fails.push(f);
            }
        }
        tags.push(format!("impact:{action}"));
        let imp = case.get("impact").cloned().unwrap_or(Value::Null);
        tags.push(format!("impact:{action}/id-{}/{}", imp["cat"].as_str().unwrap_or("?"), if imp["same_source"].as_bool().unwrap_or(false) { "same-source" } else { "other-source" }));
    } else {
        tags.push("impact:none".into());
    }
    {
        let mut found = Vec::new();
        loops_in(&te_s, &mut found);
        loops_in(&te_p, &mut found);
        for l in found {
            if let Err(f) = check_loop(&l, c.max_hops) {
                fails.push(f);
            }
        }
    }

    // run_args --strict-order: array order in the serialised outputs must be a function of the input too (observation O11)
    if std::env::args().any(|a| a == "--strict-order") {
        if tags.iter().any(|t| t.starts_with("raw-order:") && t.contains("unit_ids_seen")) {
            fails.push(("unit_trace.unit_ids_seen is ordered differently by two evaluations of the same input".into(), "unit-ids-seen-order"));
        } else if tags.iter().any(|t| t.starts_with("raw-order:") && t.contains("match_traces")) {
            fails.push(("match_traces are ordered differently by two evaluations of the same input".into(), "match-traces-order"));
        }
    }
    let nontrivial = !applied.is_empty() && !c.probes.is_empty();
    let mut obs = json!({"loops": loops});
    if let Some(an) = case.get("an").filter(|a| !a.is_null()) {
        // `router.routes()` is a HashMap: compare the table up to the order of the rules
        let sorted = |v: &Value| -> Value {
            let mut v = v.clone();
            if let Some(a) = v["rules"].as_array_mut() {
                a.sort_by_key(|r| r["id"].as_str().unwrap_or("").to_string());
            }
            v
        };
        let now = compute_an(case).unwrap_or(Value::Null);
        if sorted(&now) != sorted(an) {
            if case.get("digest").and_then(|d| d.as_str()) == Some(case_digest(case).as_str()) {
                return Obs::new(json!({"an": "table differs"})).fail("the per-example pipeline table the generator observed differs from the one this process observes for the same case", "nondeterministic-pipeline");
            }
            return Obs::invalid("stale analysis table");
        }
        obs["an"] = observe_an(&applied, &te_s, &ui_s);
        tags.push("an-compared".into());
    } else if case.get("digest").and_then(|d| d.as_str()) == Some(case_digest(case).as_str()) && std::env::args().any(|a| a == "--require-an") {
        // floor (run_args --require-an): a case exactly as generated must carry the analysis table; a generator that silently
        // stops producing it (parse failure, panic in compute_an) is an oracle failure, not a quietly weaker run
        return Obs::new(json!({"an": "missing"})).fail("the generated case carries no analysis table (`an`)", "an-missing");
    }
    if let Some(an2) = case.get("an2").filter(|a| !a.is_null()) {
        let sorted = |v: &Value| -> Value {
            let mut v = v.clone();
            if let Some(a) = v["rules"].as_array_mut() {
                a.sort_by_key(|r| r["id"].as_str().unwrap_or("").to_string());
            }
            v
        };
        let now = compute_an2(case).unwrap_or(Value::Null);
        if sorted(&now) != sorted(an2) {
            if case.get("digest").and_then(|d| d.as_str()) == Some(case_digest(case).as_str()) {
                return Obs::new(json!({"an2": "table differs"})).fail("the extended per-example table the generator observed differs from the one this process observes for the same case", "nondeterministic-pipeline");
            }
            return Obs::invalid("stale analysis table 2");
        }
        obs["an2"] = observe_an2(&c, &applied, &te_s, &ui_s, &explain_outs, &impact_out);
        tags.push("an2-compared".into());
        if c.impact.as_ref().map(|(r, _, _)| r.examples.as_ref().map(|e| !e.is_empty()).unwrap_or(false)).unwrap_or(false) {
            tags.push("an2-impact-examples".into());
        }
    } else if case.get("an").filter(|a| !a.is_null()).is_some() && case.get("digest").and_then(|d| d.as_str()) == Some(case_digest(case).as_str()) && std::env::args().any(|a| a == "--require-an") {
        // a case generated by THIS generator (it carries `an`, digest intact) must carry the extended table too
        return Obs::new(json!({"an2": "missing"})).fail("the generated case carries no extended analysis table (`an2`)", "an-missing");
    }
    let mut o = Obs::new(obs).trivial(!nontrivial);
    o.tags = tags;
    if let Some((why, sig)) = fails.first() {
        let all: Vec<String> = fails.iter().map(|(w, _)| w.clone()).collect();
        let _ = why;
        o = o.fail(all.join("; "), sig);
    }
    o
}

fn main() {
    main_with(gen, run);
}
