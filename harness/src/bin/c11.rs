//! C11 — rule application is deterministic under any match or insertion order: implementation side.
//!
//! case: {"rules":[R…] (as in c05, distinct ids), "ov", "skipped", "pseed":u64, "pairs":[[i,j]…]}
//! run:  the serialised action (`serde_json::to_value(Action::from_routes_rule(..))`) is computed
//!       * for every permutation of the match vector (n <= 6: all n!; otherwise 50 derived from "pseed"),
//!       * for routers built by inserting the rules in each of these orders (all if n <= 4, else 12 of them),
//!         matched with the real `Router::match_request`;
//!       oracle inside the harness: all of them are identical (else `order-dependent`).
//! obs:  {"action": that action, "cmp":[[i,j,-1|0|1]…]} — `Rule::cmp(rules[i], rules[j])` for the listed pairs.
//!
//! Tie families shared with c05 (`c05::uuid_tie_groups` in every run, `c05::prefix_tie_groups` per hinted length): equal-rank
//! rules whose ids share long prefixes / are prefixes of each other / differ at one byte, with order-revealing effects.
//!
//! Second case kind {"kind":"markers", …} (review C11-1): rules with 2-3 markers / variables (equal and prefix-related
//! name lengths) used in target, header filter value and body filter values; substitution is NOT modelled (C10 owns it),
//! the oracles are on the implementation alone: the serialised action is the same over 24 evaluations in one process
//! (`nondeterministic`), over the permutations of the match vector and over router insertion orders (`order-dependent`),
//! and the Location filter agrees with `Action::get_target` (`target-disagrees`).  obs = {"kind":"markers","rules":n}.
#[path = "c05.rs"]
#[allow(dead_code)]
mod c05;

use redirectionio::action::Action;
use redirectionio::api::Rule;
use redirectionio::router::{IntoRoute, Route, Router};
use redirectionio::RouterConfig;
use rio_harness::*;
use serde_json::{json, Value};
use std::cmp::Ordering;
use std::sync::Arc;

fn tie_pool() -> Vec<Value> {
    // heavy rank ties, conflicting effects, ids whose byte order differs from "human" order
    let ids = ["a", "B", "ab", "é", "z", "a0", "~", "Z", "b", "aa"];
    let ranks = [1u64, 1, 1, 1, 2, 2, 2, 1, 2, 1];
    let text_actions = ["append_text", "prepend_text", "replace_text"];
    let mut pool = Vec::new();
    for i in 0..10 {
        let (codes, excl) = match i % 4 {
            0 => (Value::Null, Value::Null),
            1 => (json!([404]), Value::Null),
            2 => (json!([404, 410]), json!(true)),
            _ => (json!([]), Value::Null),
        };
        pool.push(json!({
            "id": ids[i], "rank": ranks[i],
            "status_code": if i % 5 == 4 { Value::Null } else { json!(300 + i as u64) },
            "target": if i % 3 == 0 { json!(format!("/t{i}")) } else { Value::Null },
            "codes": codes, "excl": excl,
            "hf": [{"action": if i % 2 == 0 { "add" } else { "override" }, "header": "X-T", "value": format!("v{i}")}],
            "bf": [{"kind":"text","action": text_actions[i % 3], "content": format!("[{i}]")}],
            "log": if i % 2 == 0 { json!(i % 4 == 0) } else { Value::Null },
            "reset": i == 3 || i == 8, "stop": i == 5 || i == 9,
            "ru": format!("ru{i}"), "lu": format!("lu{i}"),
        }));
    }
    pool
}

fn gen(args: &Args, emit: &mut dyn FnMut(Value)) {
    let mut rng = Prng::new(args.seed);
    if args.tier == "thorough" {
        let pool = tie_pool();
        for mask in 1u32..(1 << 10) {
            if mask.count_ones() > 5 {
                continue;
            }
            let rules: Vec<Value> = (0..10).filter(|i| mask & (1 << i) != 0).map(|i| pool[i].clone()).collect();
            let n = rules.len();
            let pairs: Vec<Value> = (0..n).flat_map(|i| (0..n).map(move |j| json!([i, j]))).collect();
            emit(json!({"rules": rules, "ov": null, "skipped": null, "pseed": mask, "pairs": pairs, "exh": true}));
        }
    }
    // diff-directed hints first (empty on the unchanged tree): hinted numbers as ranks / status codes / numbers of rules,
    // hinted strings as rule ids with prefix-related neighbours under one rank
    let h = hints();
    if !h.is_empty() {
        let mut hr = Prng::new(args.seed ^ 0x4849_4e54);
        let all_pairs = |n: usize| -> Vec<Value> { (0..n).flat_map(|i| (0..n).map(move |j| json!([i, j]))).collect() };
        for v in c05::hint_values(&h, 65535) {
            let ids = c05::distinct_ids(&mut hr, 4);
            let ranks = [v, v, v.saturating_sub(1), (v + 1).min(65535)];
            let rules: Vec<Value> = ids.iter().enumerate().map(|(ri, id)| {
                let mut r = c05::gen_rule(&mut hr, id, ri, false, false);
                r["rank"] = json!(ranks[ri]);
                r["sampling"] = Value::Null;
                if ri % 2 == 0 {
                    r["status_code"] = json!(v);
                }
                r
            }).collect();
            emit(json!({"rules": rules, "ov": null, "skipped": null, "pseed": v, "pairs": all_pairs(4)}));
        }
        for k in h.sizes(9) {
            let ids = c05::distinct_ids(&mut hr, k.min(c05::IDS.len()));
            let rules: Vec<Value> = ids.iter().enumerate().map(|(ri, id)| {
                let mut r = c05::gen_rule(&mut hr, id, ri, false, false);
                r["rank"] = json!(1);
                r["sampling"] = Value::Null;
                r
            }).collect();
            let n = rules.len();
            emit(json!({"rules": rules, "ov": null, "skipped": null, "pseed": k, "pairs": all_pairs(n.min(6))}));
        }
        for j in c05::hint_prefix_lengths(&h) {
            // equal-rank groups whose ids agree on / differ at the hinted length (all match orders are tried by `run`)
            for g in c05::prefix_tie_groups(j) {
                let rules: Vec<Value> = g.iter().enumerate().map(|(ri, id)| c05::tie_rule(id, ri)).collect();
                emit(json!({"rules": rules, "ov": null, "skipped": null, "pseed": j, "pairs": all_pairs(g.len())}));
            }
        }
        for s in c05::hint_strings(&h) {
            let mut ids = vec![s.clone(), format!("{s}0"), format!("{s}-1"), s.chars().take(s.chars().count().saturating_sub(1)).collect::<String>(), format!("a{s}"), s.to_uppercase()];
            let mut seen: Vec<String> = Vec::new();
            ids.retain(|id| if seen.contains(id) { false } else { seen.push(id.clone()); true });
            let rules: Vec<Value> = ids.iter().enumerate().map(|(ri, id)| {
                let mut r = c05::gen_rule(&mut hr, id, ri, false, false);
                r["rank"] = json!(1);
                r["sampling"] = Value::Null;
                r
            }).collect();
            let n = rules.len();
            emit(json!({"rules": rules, "ov": null, "skipped": null, "pseed": 7, "pairs": all_pairs(n)}));
        }
    }
    // fixed family in every run: UUID-shaped ids with long shared prefixes and prefix-related ids under one rank,
    // each group alone and two groups together under two ranks
    {
        let groups = c05::uuid_tie_groups();
        let all_pairs = |n: usize| -> Vec<Value> { (0..n).flat_map(|i| (0..n).map(move |j| json!([i, j]))).collect() };
        for g in &groups {
            let rules: Vec<Value> = g.iter().enumerate().map(|(ri, id)| c05::tie_rule(id, ri)).collect();
            emit(json!({"rules": rules, "ov": null, "skipped": null, "pseed": 1, "pairs": all_pairs(g.len())}));
        }
        for w in groups.windows(2) {
            let mut ids: Vec<(String, u64)> = Vec::new();
            for (gi, g) in w.iter().enumerate() {
                for id in g {
                    if !ids.iter().any(|(x, _)| x == id) {
                        ids.push((id.clone(), 1 + gi as u64));
                    }
                }
            }
            let rules: Vec<Value> = ids.iter().enumerate().map(|(ri, (id, rank))| {
                let mut r = c05::tie_rule(id, ri);
                r["rank"] = json!(rank);
                r
            }).collect();
            let n = rules.len();
            emit(json!({"rules": rules, "ov": null, "skipped": null, "pseed": 2, "pairs": all_pairs(n)}));
        }
    }
    // marker / variable family (review C11-1): substitution is outside the model; implementation-only oracles
    let mut mr = Prng::new(args.seed ^ 0x6d61_726b);
    for _ in 0..(args.n / 4).max(5) {
        emit(gen_marker_case(&mut mr));
    }
    for _ in 0..args.n {
        let n = match rng.below(10) {
            0 => 2,
            1 | 2 => 3,
            3 | 4 => 4,
            5 | 6 => 5,
            7 | 8 => 6,
            _ => rng.range(7, 9),
        };
        // override set: sampling outcomes are decided by the override, not by the draw
        let ov = if rng.chance(1, 4) { Value::Bool(rng.chance(1, 2)) } else { Value::Null };
        let ids = c05::distinct_ids(&mut rng, n);
        let tie_rank = *rng.pick(&[0u64, 1, 2, 65535]);
        let heavy = rng.chance(2, 3);
        let spread = rng.chance(2, 3);
        let rules: Vec<Value> = ids
            .iter()
            .enumerate()
            .map(|(ri, id)| {
                let mut r = c05::gen_rule(&mut rng, id, ri, !ov.is_null(), false);
                if heavy && rng.chance(3, 4) {
                    r["rank"] = json!(tie_rank);
                }
                if ov.is_null() {
                    r["sampling"] = Value::Null; // "sampling disabled"
                }
                if spread {
                    // triggers the fixed router request (https, a.com, GET, X-A: v, /x) satisfies, so that the rules live in
                    // different scheme / host (static and regex tree) / method / header / path (static and regex tree) buckets
                    let mut src = serde_json::Map::new();
                    if rng.chance(1, 2) {
                        src.insert("scheme".into(), json!("https"));
                    }
                    match rng.below(4) {
                        0 => {
                            src.insert("host".into(), json!("a.com"));
                        }
                        1 => {
                            src.insert("host".into(), json!("@l.com"));
                            src.insert("markers".into(), json!([{"name": "l", "regex": "[a-z]+"}, {"name": "s", "regex": "[^/]+"}]));
                        }
                        _ => {}
                    }
                    match rng.below(4) {
                        0 => {
                            src.insert("methods".into(), json!(["GET"]));
                        }
                        1 => {
                            src.insert("methods".into(), json!(["POST", "GET", "GET"]));
                        }
                        2 => {
                            src.insert("methods".into(), json!(["PUT"]));
                            src.insert("exclude_methods".into(), json!(true));
                        }
                        _ => {}
                    }
                    if rng.chance(1, 3) {
                        src.insert("headers".into(), json!([{"type": "is_defined", "name": "X-A", "value": null}]));
                    } else if rng.chance(1, 3) {
                        src.insert("headers".into(), json!([{"type": "is_equals", "name": "x-a", "value": "v"}, {"type": "is_not_defined", "name": "X-Z", "value": null}]));
                    }
                    if rng.chance(1, 3) {
                        src.insert("path".into(), json!("/@s"));
                        src.entry("markers").or_insert(json!([{"name": "l", "regex": "[a-z]+"}, {"name": "s", "regex": "[^/]+"}]));
                    }
                    r["src"] = Value::Object(src);
                }
                r
            })
            .collect();
        let np = rng.range(1, 8);
        let pairs: Vec<Value> = (0..np).map(|_| json!([rng.below(n), rng.below(n)])).collect();
        emit(json!({"rules": rules, "ov": ov, "skipped": c05_opt(&mut rng), "pseed": rng.next() % 1_000_000, "pairs": pairs}));
    }
}

const NAME_SETS: &[&[&str]] = &[&["id", "ye"], &["id", "id2"], &["a", "ab", "abc"], &["id", "ye", "id2"], &["xx", "yy", "zz"], &["n", "m"]];
const SEGMENTS: &[&str] = &["7", "2024", "a@id", "x@", "@ye", "id2", "9", "a-b", "@", "v@ab"];

/// {"kind":"markers","rules":[real api::Rule JSON …],"path":str,"host":str?,"skipped":bool,"pseed":u64}
/// Every rule has the same path shape `/m/@…/@…/@…` (three `[^/]+` markers whose names come from one name set: equal
/// and prefix-related lengths), optionally explicit variables (marker / request_host / request_method kinds with
/// equal-length names), and uses them — also joined, `@a@b` — in target, header filter values and body filter values.
fn gen_marker_case(rng: &mut Prng) -> Value {
    let n = rng.range(2, 6);
    let names = *rng.pick(NAME_SETS);
    let ids = c05::distinct_ids(rng, n);
    let tie_rank = rng.below(3) as u64;
    let rules: Vec<Value> = ids
        .iter()
        .enumerate()
        .map(|(ri, id)| {
            // three path markers: the names of the set, padded with fresh names, in a per-rule order
            let mut ms: Vec<String> = names.iter().map(|s| s.to_string()).collect();
            while ms.len() < 3 {
                ms.push(format!("p{}", ms.len()));
            }
            for i in (1..ms.len()).rev() {
                ms.swap(i, rng.below(i + 1));
            }
            let path = format!("/m/@{}/@{}/@{}", ms[0], ms[1], ms[2]);
            let markers: Vec<Value> = ms.iter().map(|m| json!({"name": m, "regex": "[^/]+"})).collect();
            let mut vars: Vec<Value> = Vec::new();
            let mut used: Vec<String> = ms.clone();
            if rng.chance(1, 2) {
                // explicit variables: marker kinds (sometimes renamed to an equal-length name), host and method
                for m in &ms {
                    vars.push(json!({"name": m, "type": {"marker": m}}));
                }
                vars.push(json!({"name": "ho", "type": "request_host"}));
                vars.push(json!({"name": "me", "type": "request_method"}));
                used.push("ho".into());
                used.push("me".into());
                if rng.chance(1, 2) {
                    vars.reverse();
                }
            }
            let a = rng.pick(&used).clone();
            let b = rng.pick(&used).clone();
            let c = rng.pick(&used).clone();
            let tpl = |rng: &mut Prng, pre: &str| match rng.below(4) {
                0 => format!("{pre}@{a}/@{b}"),
                1 => format!("{pre}@{a}@{b}"),
                2 => format!("{pre}@{b}@{a}-@{c}"),
                _ => format!("{pre}@{c}?x=@{a}&y=@{b}@{c}"),
            };
            json!({
                "id": id, "rank": if rng.chance(2, 3) { tie_rank } else { rng.below(3) as u64 },
                "source": {"path": path}, "markers": markers, "variables": vars,
                "target": if rng.chance(3, 4) { json!(tpl(rng, "/t/")) } else { Value::Null },
                "status_code": if rng.chance(2, 3) { json!(301 + ri as u64) } else { Value::Null },
                "header_filters": [{"action": "add", "header": "X-M", "value": tpl(rng, "h-"), "id": null, "target_hash": null}],
                "body_filters": [{"action": "append_text", "content": tpl(rng, "["), "id": null, "target_hash": null},
                                 {"action": "append_child", "value": tpl(rng, "<i>"), "inner_value": if rng.chance(1, 2) { json!(tpl(rng, "")) } else { Value::Null },
                                  "element_tree": ["html", "body"], "css_selector": null, "id": null, "target_hash": null}],
                "reset": if rng.chance(1, 8) { json!(true) } else { Value::Null },
                "stop": if rng.chance(1, 8) { json!(true) } else { Value::Null },
            })
        })
        .collect();
    let path = format!("/m/{}/{}/{}", *rng.pick(SEGMENTS), *rng.pick(SEGMENTS), *rng.pick(SEGMENTS));
    json!({"kind": "markers", "rules": rules, "path": path, "host": if rng.chance(1, 2) { json!("h@id.com") } else { Value::Null },
           "skipped": rng.chance(1, 4), "pseed": rng.next() % 1_000_000})
}

fn run_markers(case: &Value) -> Obs {
    let arr = match case.get("rules").and_then(|r| r.as_array()) {
        Some(a) => a,
        None => return Obs::invalid("rules"),
    };
    let mut rules: Vec<Rule> = Vec::new();
    for r in arr {
        match serde_json::from_value::<Rule>(r.clone()) {
            Ok(rule) => rules.push(rule),
            Err(e) => return Obs::invalid(&format!("rule json: {e}")),
        }
    }
    let n = rules.len();
    if n == 0 || n > 9 {
        return Obs::invalid("number of rules");
    }
    {
        let mut ids: Vec<&str> = rules.iter().map(|r| r.id.as_str()).collect();
        ids.sort();
        ids.dedup();
        if ids.len() != n {
            return Obs::invalid("distinct ids");
        }
    }
    let path = match s(case, "path") {
        Some(p) => p,
        None => return Obs::invalid("path"),
    };
    let host = s(case, "host");
    let config = RouterConfig::default();
    let mut request = redirectionio::http::Request::from_config(&config, path.clone(), host, Some("https".to_string()), Some("GET".to_string()), None, None);
    if case.get("skipped").and_then(|b| b.as_bool()) == Some(true) {
        request.path_and_query_skipped.skipped_query_params = Some("utm=1".to_string());
    }
    let mk_routes = |rules: &[Rule]| -> Vec<Arc<Route<Rule>>> { rules.iter().cloned().map(|r| Arc::new(r.into_route(&config))).collect() };
    let routes = mk_routes(&rules);
    let reference = serde_json::to_value(Action::from_routes_rule(routes.clone(), &request, None)).unwrap();
    let mut failure: Option<(String, &'static str)> = None;
    // (a) the same evaluation, 24 times in one process: on the same routes and on routes rebuilt from the rules
    for k in 0..24 {
        let v = if k % 2 == 0 { routes.clone() } else { mk_routes(&rules) };
        let a = serde_json::to_value(Action::from_routes_rule(v, &request, None)).unwrap();
        if a != reference {
            failure = Some((format!("evaluation {k} of the same match vector gives a different action: {a} vs {reference}"), "nondeterministic"));
            break;
        }
    }
    // (b) permutations of the match vector, router insertion orders
    let perms = permutations(n, case.get("pseed").and_then(|p| p.as_u64()).unwrap_or(0));
    let mut substituted = false;
    if failure.is_none() {
        for p in &perms {
            let v: Vec<Arc<Route<Rule>>> = p.iter().map(|&i| routes[i].clone()).collect();
            let a = serde_json::to_value(Action::from_routes_rule(v, &request, None)).unwrap();
            if a != reference {
                failure = Some((format!("match vector order {:?} gives a different action", p), "order-dependent"));
                break;
            }
        }
    }
    let mut matched_all = false;
    if failure.is_none() {
        for p in perms.iter().step_by((perms.len() / 8).max(1)).take(8) {
            let mut router = Router::<Rule>::from_config(config.clone());
            for &i in p {
                router.insert(rules[i].clone());
            }
            let matched = router.match_request(&request);
            matched_all = matched.len() == n;
            // the router decides which rules match (a segment containing `/` never does); the comparison is with the
            // action of exactly those rules
            let ids: Vec<String> = matched.iter().map(|r| r.id().to_string()).collect();
            let expected: Vec<Arc<Route<Rule>>> = routes.iter().filter(|r| ids.iter().any(|i| i == r.id())).cloned().collect();
            let want = serde_json::to_value(Action::from_routes_rule(expected, &request, None)).unwrap();
            let got = serde_json::to_value(Action::from_routes_rule(matched, &request, None)).unwrap();
            if got != want {
                failure = Some((format!("router built in order {:?} gives a different action", p), "order-dependent"));
                break;
            }
        }
    }
    // (c) Action::get_target agrees with the Location filter from_routes_rule builds for the rule (every rule on its own)
    if failure.is_none() {
        for (route, rule) in routes.iter().zip(rules.iter()) {
            let single = serde_json::to_value(Action::from_routes_rule(vec![route.clone()], &request, None)).unwrap();
            let location = single["header_filters"].as_array().unwrap().iter().find(|f| f["filter"]["header"] == "Location").map(|f| f["filter"]["value"].as_str().unwrap().to_string());
            let mut targets = Vec::new();
            for _ in 0..5 {
                targets.push(Action::get_target(route, &request));
            }
            if targets.iter().any(|t| *t != targets[0]) {
                failure = Some((format!("Action::get_target of rule {} varies from call to call: {:?}", rule.id, targets), "nondeterministic"));
                break;
            }
            let want = match (&rule.target, &targets[0]) {
                (Some(t), Some(v)) if !t.is_empty() => Some(v.clone()),
                _ => None,
            };
            if location != want {
                failure = Some((format!("rule {}: Location filter {:?} but Action::get_target {:?}", rule.id, location, targets[0]), "target-disagrees"));
                break;
            }
            if let (Some(t), Some(v)) = (&rule.target, &targets[0]) {
                if t != v {
                    substituted = true;
                }
            }
        }
    }
    let mut o = Obs::new(json!({"kind": "markers", "rules": n})).trivial(n < 2);
    o.tags.push("kind:markers".into());
    o.tags.push(format!("rules:{n}"));
    if substituted {
        o.tags.push("substituted".into());
    }
    if matched_all {
        o.tags.push("router-matches-all".into());
    }
    match failure {
        Some((why, sig)) => o.fail(why, sig),
        None => o,
    }
}

fn c05_opt(rng: &mut Prng) -> Value {
    if rng.chance(1, 8) {
        json!("utm=1")
    } else {
        Value::Null
    }
}

fn permutations(n: usize, pseed: u64) -> Vec<Vec<usize>> {
    if n <= 6 {
        // Heap's algorithm, all n!
        let mut out = Vec::new();
        let mut a: Vec<usize> = (0..n).collect();
        let mut c = vec![0usize; n];
        out.push(a.clone());
        let mut i = 0;
        while i < n {
            if c[i] < i {
                if i % 2 == 0 {
                    a.swap(0, i);
                } else {
                    a.swap(c[i], i);
                }
                out.push(a.clone());
                c[i] += 1;
                i = 0;
            } else {
                c[i] = 0;
                i += 1;
            }
        }
        out
    } else {
        let mut rng = Prng::new(pseed);
        let mut out = vec![(0..n).collect::<Vec<usize>>(), (0..n).rev().collect()];
        for _ in 0..48 {
            let mut a: Vec<usize> = (0..n).collect();
            for i in (1..n).rev() {
                a.swap(i, rng.below(i + 1));
            }
            out.push(a);
        }
        out
    }
}

fn run(case: &Value) -> Obs {
    if case.get("kind").and_then(|k| k.as_str()) == Some("markers") {
        return run_markers(case);
    }
    let rules = match c05::build_rules(case) {
        Ok(r) => r,
        Err(e) => return Obs::invalid(&e),
    };
    if !c05::deterministic(case, &rules) {
        return Obs::invalid("outcome depends on the sampling draw");
    }
    let n = rules.len();
    if n > 9 {
        return Obs::invalid("too many rules");
    }
    {
        let mut ids: Vec<&str> = rules.iter().map(|r| r.id.as_str()).collect();
        ids.sort();
        ids.dedup();
        if ids.len() != n {
            return Obs::invalid("C11 is stated for distinct rule ids");
        }
    }
    let pseed = case.get("pseed").and_then(|p| p.as_u64()).unwrap_or(0);
    let config = RouterConfig::default();
    let request = match c05::request(case, None) {
        Ok(r) => r,
        Err(e) => return Obs::invalid(&e),
    };
    let routes: Vec<Arc<Route<Rule>>> = rules.iter().cloned().map(|r| Arc::new(r.into_route(&config))).collect();
    let perms = permutations(n, pseed);
    let reference = serde_json::to_value(Action::from_routes_rule(routes.clone(), &request, None)).unwrap();
    let mut failure: Option<String> = None;
    for p in &perms {
        let v: Vec<Arc<Route<Rule>>> = p.iter().map(|&i| routes[i].clone()).collect();
        let a = serde_json::to_value(Action::from_routes_rule(v, &request, None)).unwrap();
        if a != reference {
            failure = Some(format!("match vector order {:?} gives a different action", p));
            break;
        }
    }
    // insertion order / rebuild of a real router: the request satisfies every trigger the generator spreads the rules
    // over (always_match_any_host, so that host-less rules stay candidates next to host-bound ones)
    let mut config = config.clone();
    config.always_match_any_host = true;
    let router_request = {
        let mut q = redirectionio::http::Request::from_config(&config, "/x".to_string(), Some("a.com".to_string()), Some("https".to_string()), Some("GET".to_string()), None, request.sampling_override);
        q.add_header("X-A".to_string(), "v".to_string(), false);
        q.path_and_query_skipped.skipped_query_params = request.path_and_query_skipped.skipped_query_params.clone();
        q
    };
    let reference_router = serde_json::to_value(Action::from_routes_rule(routes.clone(), &router_request, None)).unwrap();
    let router_perms: Vec<&Vec<usize>> = if n <= 4 { perms.iter().collect() } else { perms.iter().step_by((perms.len() / 12).max(1)).take(12).collect() };
    let mut n_router = 0;
    if failure.is_none() {
        for p in router_perms {
            let mut router = Router::<Rule>::from_config(config.clone());
            for &i in p {
                router.insert(rules[i].clone());
            }
            let matched = router.match_request(&router_request);
            if matched.len() != n {
                failure = Some(format!("router built in order {:?} matched {} of {} rules", p, matched.len(), n));
                break;
            }
            let a = serde_json::to_value(Action::from_routes_rule(matched, &router_request, None)).unwrap();
            n_router += 1;
            if a != reference_router {
                failure = Some(format!("router insertion order {:?} gives a different action", p));
                break;
            }
        }
    }
    let mut cmps = Vec::new();
    if let Some(pairs) = case.get("pairs").and_then(|p| p.as_array()) {
        for p in pairs {
            let (i, j) = match p.as_array().map(|a| a.as_slice()) {
                Some([a, b]) => match (a.as_u64(), b.as_u64()) {
                    (Some(a), Some(b)) if (a as usize) < n && (b as usize) < n => (a as usize, b as usize),
                    _ => return Obs::invalid("pair index"),
                },
                _ => return Obs::invalid("pair"),
            };
            // through the route wrapper, as `routes.sort()` sees it
            let o = routes[i].cmp(&routes[j]);
            if o != rules[i].cmp(&rules[j]) {
                failure = Some("Route::cmp differs from Rule::cmp".to_string());
            }
            cmps.push(json!([i, j, match o { Ordering::Less => -1, Ordering::Equal => 0, Ordering::Greater => 1 }]));
        }
    } else {
        return Obs::invalid("pairs");
    }
    let mut ranks: Vec<u16> = rules.iter().map(|r| r.rank).collect();
    ranks.sort();
    ranks.dedup();
    let mut o = Obs::new(json!({"action": reference, "cmp": cmps})).trivial(n < 2);
    o.tags.push(format!("rules:{n}"));
    o.tags.push(format!("perms:{}", if n <= 6 { "all" } else { "50" }));
    o.tags.push(format!("routers:{n_router}"));
    if ranks.len() < n {
        o.tags.push("rank-tie".to_string());
    }
    if ranks.len() == 1 && n > 1 {
        o.tags.push("all-tied".to_string());
    }
    if case.get("rules").and_then(|r| r.as_array()).map_or(false, |a| a.iter().any(|r| r.get("src").is_some())) {
        o.tags.push("spread-buckets".to_string());
    }
    match failure {
        Some(why) => o.fail(why, "order-dependent"),
        None => o,
    }
}

fn main() {
    main_with(gen, run);
}
