//! C11 — rule application is deterministic under any match or insertion order: implementation side.
//!
//! case: {"rules":[R…] (as in c05, distinct ids), "ov", "skipped", "pseed":u64, "pairs":[[i,j]…]}
//! run:  the serialised action (`serde_json::to_value(Action::from_routes_rule(..))`) is computed
//!       * for every permutation of the match vector (n <= 6: all n!; otherwise 50 derived from "pseed"),
//!       * for routers built by inserting the rules in each of these orders (all if n <= 4, else 12 of them),
//!         matched with the real `Router::match_request`;
//!       oracle inside the harness: all of them are identical (else `order-dependent`).
//! obs:  {"action": that action, "cmp":[[i,j,-1|0|1]…]} — `Rule::cmp(rules[i], rules[j])` for the listed pairs.
#[path = "c05.rs"]
#[allow(dead_code)]
mod c05;

use redirectionio::action::Action;
use redirectionio::api::Rule;
use redirectionio::router::{IntoRoute, Route, Router};
use redirectionio::RouterConfig;
use rio_harness::*;
use serde_json::{json, Value};
use std::cmp::Ordering;
use std::sync::Arc;

fn tie_pool() -> Vec<Value> {
    // heavy rank ties, conflicting effects, ids whose byte order differs from "human" order
    let ids = ["a", "B", "ab", "é", "z", "a0", "~", "Z", "b", "aa"];
    let ranks = [1u64, 1, 1, 1, 2, 2, 2, 1, 2, 1];
    let text_actions = ["append_text", "prepend_text", "replace_text"];
    let mut pool = Vec::new();
    for i in 0..10 {
        let (codes, excl) = match i % 4 {
            0 => (Value::Null, Value::Null),
            1 => (json!([404]), Value::Null),
            2 => (json!([404, 410]), json!(true)),
            _ => (json!([]), Value::Null),
        };
        pool.push(json!({
            "id": ids[i], "rank": ranks[i],
            "status_code": if i % 5 == 4 { Value::Null } else { json!(300 + i as u64) },
            "target": if i % 3 == 0 { json!(format!("/t{i}")) } else { Value::Null },
            "codes": codes, "excl": excl,
            "hf": [{"action": if i % 2 == 0 { "add" } else { "override" }, "header": "X-T", "value": format!("v{i}")}],
            "bf": [{"kind":"text","action": text_actions[i % 3], "content": format!("[{i}]")}],
            "log": if i % 2 == 0 { json!(i % 4 == 0) } else { Value::Null },
            "reset": i == 3 || i == 8, "stop": i == 5 || i == 9,
            "ru": format!("ru{i}"), "lu": format!("lu{i}"),
        }));
    }
    pool
}

fn gen(args: &Args, emit: &mut dyn FnMut(Value)) {
    let mut rng = Prng::new(args.seed);
    if args.tier == "thorough" {
        let pool = tie_pool();
        for mask in 1u32..(1 << 10) {
            if mask.count_ones() > 5 {
                continue;
            }
            let rules: Vec<Value> = (0..10).filter(|i| mask & (1 << i) != 0).map(|i| pool[i].clone()).collect();
            let n = rules.len();
            let pairs: Vec<Value> = (0..n).flat_map(|i| (0..n).map(move |j| json!([i, j]))).collect();
            emit(json!({"rules": rules, "ov": null, "skipped": null, "pseed": mask, "pairs": pairs, "exh": true}));
        }
    }
    // diff-directed hints first (empty on the unchanged tree): hinted numbers as ranks / status codes / numbers of rules,
    // hinted strings as rule ids with prefix-related neighbours under one rank
    let h = hints();
    if !h.is_empty() {
        let mut hr = Prng::new(args.seed ^ 0x4849_4e54);
        let all_pairs = |n: usize| -> Vec<Value> { (0..n).flat_map(|i| (0..n).map(move |j| json!([i, j]))).collect() };
        for v in c05::hint_values(&h, 65535) {
            let ids = c05::distinct_ids(&mut hr, 4);
            let ranks = [v, v, v.saturating_sub(1), (v + 1).min(65535)];
            let rules: Vec<Value> = ids.iter().enumerate().map(|(ri, id)| {
                let mut r = c05::gen_rule(&mut hr, id, ri, false, false);
                r["rank"] = json!(ranks[ri]);
                r["sampling"] = Value::Null;
                if ri % 2 == 0 {
                    r["status_code"] = json!(v);
                }
                r
            }).collect();
            emit(json!({"rules": rules, "ov": null, "skipped": null, "pseed": v, "pairs": all_pairs(4)}));
        }
        for k in h.sizes(9) {
            let ids = c05::distinct_ids(&mut hr, k.min(c05::IDS.len()));
            let rules: Vec<Value> = ids.iter().enumerate().map(|(ri, id)| {
                let mut r = c05::gen_rule(&mut hr, id, ri, false, false);
                r["rank"] = json!(1);
                r["sampling"] = Value::Null;
                r
            }).collect();
            let n = rules.len();
            emit(json!({"rules": rules, "ov": null, "skipped": null, "pseed": k, "pairs": all_pairs(n.min(6))}));
        }
        for s in c05::hint_strings(&h) {
            let mut ids = vec![s.clone(), format!("{s}0"), format!("{s}-1"), s.chars().take(s.chars().count().saturating_sub(1)).collect::<String>(), format!("a{s}"), s.to_uppercase()];
            let mut seen: Vec<String> = Vec::new();
            ids.retain(|id| if seen.contains(id) { false } else { seen.push(id.clone()); true });
            let rules: Vec<Value> = ids.iter().enumerate().map(|(ri, id)| {
                let mut r = c05::gen_rule(&mut hr, id, ri, false, false);
                r["rank"] = json!(1);
                r["sampling"] = Value::Null;
                r
            }).collect();
            let n = rules.len();
            emit(json!({"rules": rules, "ov": null, "skipped": null, "pseed": 7, "pairs": all_pairs(n)}));
        }
    }
    for _ in 0..args.n {
        let n = match rng.below(10) {
            0 => 2,
            1 | 2 => 3,
            3 | 4 => 4,
            5 | 6 => 5,
            7 | 8 => 6,
            _ => rng.range(7, 9),
        };
        // override set: sampling outcomes are decided by the override, not by the draw
        let ov = if rng.chance(1, 4) { Value::Bool(rng.chance(1, 2)) } else { Value::Null };
        let ids = c05::distinct_ids(&mut rng, n);
        let tie_rank = *rng.pick(&[0u64, 1, 2, 65535]);
        let heavy = rng.chance(2, 3);
        let rules: Vec<Value> = ids
            .iter()
            .enumerate()
            .map(|(ri, id)| {
                let mut r = c05::gen_rule(&mut rng, id, ri, !ov.is_null(), false);
                if heavy && rng.chance(3, 4) {
                    r["rank"] = json!(tie_rank);
                }
                if ov.is_null() {
                    r["sampling"] = Value::Null; // "sampling disabled"
                }
                r
            })
            .collect();
        let np = rng.range(1, 8);
        let pairs: Vec<Value> = (0..np).map(|_| json!([rng.below(n), rng.below(n)])).collect();
        emit(json!({"rules": rules, "ov": ov, "skipped": c05_opt(&mut rng), "pseed": rng.next() % 1_000_000, "pairs": pairs}));
    }
}

fn c05_opt(rng: &mut Prng) -> Value {
    if rng.chance(1, 8) {
        json!("utm=1")
    } else {
        Value::Null
    }
}

fn permutations(n: usize, pseed: u64) -> Vec<Vec<usize>> {
    if n <= 6 {
        // Heap's algorithm, all n!
        let mut out = Vec::new();
        let mut a: Vec<usize> = (0..n).collect();
        let mut c = vec![0usize; n];
        out.push(a.clone());
        let mut i = 0;
        while i < n {
            if c[i] < i {
                if i % 2 == 0 {
                    a.swap(0, i);
                } else {
                    a.swap(c[i], i);
                }
                out.push(a.clone());
                c[i] += 1;
                i = 0;
            } else {
                c[i] = 0;
                i += 1;
            }
        }
        out
    } else {
        let mut rng = Prng::new(pseed);
        let mut out = vec![(0..n).collect::<Vec<usize>>(), (0..n).rev().collect()];
        for _ in 0..48 {
            let mut a: Vec<usize> = (0..n).collect();
            for i in (1..n).rev() {
                a.swap(i, rng.below(i + 1));
            }
            out.push(a);
        }
        out
    }
}

fn run(case: &Value) -> Obs {
    let rules = match c05::build_rules(case) {
        Ok(r) => r,
        Err(e) => return Obs::invalid(&e),
    };
    if !c05::deterministic(case, &rules) {
        return Obs::invalid("outcome depends on the sampling draw");
    }
    let n = rules.len();
    if n > 9 {
        return Obs::invalid("too many rules");
    }
    {
        let mut ids: Vec<&str> = rules.iter().map(|r| r.id.as_str()).collect();
        ids.sort();
        ids.dedup();
        if ids.len() != n {
            return Obs::invalid("C11 is stated for distinct rule ids");
        }
    }
    let pseed = case.get("pseed").and_then(|p| p.as_u64()).unwrap_or(0);
    let config = RouterConfig::default();
    let request = match c05::request(case, None) {
        Ok(r) => r,
        Err(e) => return Obs::invalid(&e),
    };
    let routes: Vec<Arc<Route<Rule>>> = rules.iter().cloned().map(|r| Arc::new(r.into_route(&config))).collect();
    let perms = permutations(n, pseed);
    let reference = serde_json::to_value(Action::from_routes_rule(routes.clone(), &request, None)).unwrap();
    let mut failure: Option<String> = None;
    for p in &perms {
        let v: Vec<Arc<Route<Rule>>> = p.iter().map(|&i| routes[i].clone()).collect();
        let a = serde_json::to_value(Action::from_routes_rule(v, &request, None)).unwrap();
        if a != reference {
            failure = Some(format!("match vector order {:?} gives a different action", p));
            break;
        }
    }
    // insertion order / rebuild of a real router
    let router_request = match c05::request(case, Some(&config)) {
        Ok(r) => r,
        Err(e) => return Obs::invalid(&e),
    };
    let router_perms: Vec<&Vec<usize>> = if n <= 4 { perms.iter().collect() } else { perms.iter().step_by((perms.len() / 12).max(1)).take(12).collect() };
    let mut n_router = 0;
    if failure.is_none() {
        for p in router_perms {
            let mut router = Router::<Rule>::from_config(config.clone());
            for &i in p {
                router.insert(rules[i].clone());
            }
            let matched = router.match_request(&router_request);
            if matched.len() != n {
                failure = Some(format!("router built in order {:?} matched {} of {} rules", p, matched.len(), n));
                break;
            }
            let a = serde_json::to_value(Action::from_routes_rule(matched, &router_request, None)).unwrap();
            n_router += 1;
            if a != reference {
                failure = Some(format!("router insertion order {:?} gives a different action", p));
                break;
            }
        }
    }
    let mut cmps = Vec::new();
    if let Some(pairs) = case.get("pairs").and_then(|p| p.as_array()) {
        for p in pairs {
            let (i, j) = match p.as_array().map(|a| a.as_slice()) {
                Some([a, b]) => match (a.as_u64(), b.as_u64()) {
                    (Some(a), Some(b)) if (a as usize) < n && (b as usize) < n => (a as usize, b as usize),
                    _ => return Obs::invalid("pair index"),
                },
                _ => return Obs::invalid("pair"),
            };
            // through the route wrapper, as `routes.sort()` sees it
            let o = routes[i].cmp(&routes[j]);
            if o != rules[i].cmp(&rules[j]) {
                failure = Some("Route::cmp differs from Rule::cmp".to_string());
            }
            cmps.push(json!([i, j, match o { Ordering::Less => -1, Ordering::Equal => 0, Ordering::Greater => 1 }]));
        }
    } else {
        return Obs::invalid("pairs");
    }
    let mut ranks: Vec<u16> = rules.iter().map(|r| r.rank).collect();
    ranks.sort();
    ranks.dedup();
    let mut o = Obs::new(json!({"action": reference, "cmp": cmps})).trivial(n < 2);
    o.tags.push(format!("rules:{n}"));
    o.tags.push(format!("perms:{}", if n <= 6 { "all" } else { "50" }));
    o.tags.push(format!("routers:{n_router}"));
    if ranks.len() < n {
        o.tags.push("rank-tie".to_string());
    }
    if ranks.len() == 1 && n > 1 {
        o.tags.push("all-tied".to_string());
    }
    match failure {
        Some(why) => o.fail(why, "order-dependent"),
        None => o,
    }
}

fn main() {
    main_with(gen, run);
}
