//! C06 — an action (and a request) survives JSON serialisation unchanged: implementation side.
//!
//! JSON values travel in an order- and duplicate-preserving *tagged* encoding ("tj"):
//!   null | true | false | <integer> | "string" | [tj, ...] | {"o": [[key, tj], ...]} | {"f": "<float text>"}
//!   | {"n": [d, tj]}  (tj wrapped in d nested one-element arrays: keeps the case line itself shallow)
//! (a plain JSON object would lose key order and duplicate keys on both sides of the protocol).
//! The tagged tree is obtained from JSON text by serde_json's own parser driving a visitor (`J`), so
//! the model's `de` sees exactly the event sequence serde's derived visitors see.
//!
//! case kinds ("k"):
//!   "action":  {"j": tj of to_string(action), "src": [] | [{"cfg", "rules", "req"}], "probe": {...}}
//!              obs {"ok": true, "text": to_string(action)}; impl-side oracles: native and C round trip,
//!              observer equality for every probe code / header list / body.
//!   "request": {"j": tj of to_string(request), "src": [] | [{"cfg", "req"}], "atoms": {...}, "router": [rules]}
//!              obs {"ok": true, "text": ...}; oracles: round trip native + C, same matched rule ids.
//!   "de":      {"ty": "action"|"request"|"body_filter"|"header_filter"|"status_code_update"|"header"|"paq",
//!               "j": tj (mutated), "atoms": {...}}
//!              obs {"ok": bool, "text": to_string(value) | null}
//!              a "de" case may carry "text": "<document>" instead of "j": the document goes to from_str as is
//!              (random white space, escape styles, float spellings, unpaired surrogates, syntax errors) and the
//!              model reads it with its own text parser (Model/JsonText.lean).
//!   "parse":   {"text": "<document>"}  obs {"ok": bool, "text": print of the ordered tree serde_json reads (floats
//!              normalised) | null} — the model's reader against serde_json's, token by token.
//! "atoms": {"ip": [[s, canonical|null], ...], "dt": [[s, canonical|null], ...]} is the graph of the two opaque
//! atom parsers (std::net::IpAddr, chrono::DateTime<Utc>) on the strings of `j`; `run` recomputes it and
//! declares the case invalid when it is stale (shrinking), and checks the canonical-fixed-point law.
use redirectionio::action::{Action, UnitTrace};
use redirectionio::api::{BodyFilter, Example, HeaderFilter, Rule};
use redirectionio::filter::{Buffer, FilterBodyAction};
use redirectionio::http::ffi::{
    header_map_to_http_headers, http_headers_to_header_map, redirectionio_request_drop, redirectionio_request_json_deserialize,
    redirectionio_request_json_serialize, HeaderMap,
};
use redirectionio::http::{Header, PathAndQueryWithSkipped, Request};
use redirectionio::router::Router;
use redirectionio::RouterConfig;
use rio_harness::*;
use serde::de::{Deserialize, Deserializer, MapAccess, SeqAccess, Visitor};
use serde_json::{json, Value};
use std::ffi::{CStr, CString};
use std::net::IpAddr;
use std::os::raw::c_char;

#[allow(improper_ctypes)]
extern "C" {
    fn redirectionio_action_json_deserialize(s: *mut c_char) -> *const Action;
    fn redirectionio_action_json_serialize(a: *mut Action) -> *const c_char;
    fn redirectionio_action_drop(a: *mut Action);
    fn redirectionio_action_get_status_code(a: *mut Action, code: u16) -> u16;
    fn redirectionio_action_should_log_request(a: *mut Action, allow: bool, code: u16) -> bool;
    fn redirectionio_action_header_filter_filter(a: *mut Action, hm: *const HeaderMap, code: u16, add: bool) -> *const HeaderMap;
    fn redirectionio_action_body_filter_create(a: *mut Action, code: u16, hm: *const HeaderMap) -> *const FilterBodyAction;
    fn redirectionio_action_body_filter_filter(f: *mut FilterBodyAction, b: Buffer) -> Buffer;
    fn redirectionio_action_body_filter_close(f: *mut FilterBodyAction) -> Buffer;
}

// ------------------------------------------------------------------------------------------------
// J: order- and duplicate-preserving JSON tree
// ------------------------------------------------------------------------------------------------

#[derive(Clone, Debug, PartialEq)]
enum J {
    Null,
    Bool(bool),
    U(u64),
    I(i64),
    F(String),
    S(String),
    A(Vec<J>),
    O(Vec<(String, J)>),
}

struct JVisitor;

impl<'de> Visitor<'de> for JVisitor {
    type Value = J;
    fn expecting(&self, f: &mut std::fmt::Formatter) -> std::fmt::Result {
        write!(f, "any JSON value")
    }
    fn visit_bool<E>(self, v: bool) -> Result<J, E> {
        Ok(J::Bool(v))
    }
    fn visit_u64<E>(self, v: u64) -> Result<J, E> {
        Ok(J::U(v))
    }
    fn visit_i64<E>(self, v: i64) -> Result<J, E> {
        Ok(if v >= 0 { J::U(v as u64) } else { J::I(v) })
    }
    fn visit_f64<E>(self, v: f64) -> Result<J, E> {
        Ok(J::F(serde_json::to_string(&v).unwrap()))
    }
    fn visit_str<E>(self, v: &str) -> Result<J, E> {
        Ok(J::S(v.to_string()))
    }
    fn visit_string<E>(self, v: String) -> Result<J, E> {
        Ok(J::S(v))
    }
    fn visit_unit<E>(self) -> Result<J, E> {
        Ok(J::Null)
    }
    fn visit_none<E>(self) -> Result<J, E> {
        Ok(J::Null)
    }
    fn visit_seq<A: SeqAccess<'de>>(self, mut seq: A) -> Result<J, A::Error> {
        let mut v = Vec::new();
        while let Some(x) = seq.next_element::<J>()? {
            v.push(x);
        }
        Ok(J::A(v))
    }
    fn visit_map<A: MapAccess<'de>>(self, mut map: A) -> Result<J, A::Error> {
        let mut v = Vec::new();
        while let Some(k) = map.next_key::<String>()? {
            let x = map.next_value::<J>()?;
            v.push((k, x));
        }
        Ok(J::O(v))
    }
}

impl<'de> Deserialize<'de> for J {
    fn deserialize<D: Deserializer<'de>>(d: D) -> Result<J, D::Error> {
        d.deserialize_any(JVisitor)
    }
}

impl J {
    fn print_into(&self, out: &mut String) {
        match self {
            J::Null => out.push_str("null"),
            J::Bool(b) => out.push_str(if *b { "true" } else { "false" }),
            J::U(n) => out.push_str(&n.to_string()),
            J::I(n) => out.push_str(&n.to_string()),
            J::F(s) => out.push_str(s),
            J::S(s) => out.push_str(&serde_json::to_string(s).unwrap()),
            J::A(xs) => {
                out.push('[');
                for (i, x) in xs.iter().enumerate() {
                    if i > 0 {
                        out.push(',');
                    }
                    x.print_into(out);
                }
                out.push(']');
            }
            J::O(kvs) => {
                out.push('{');
                for (i, (k, x)) in kvs.iter().enumerate() {
                    if i > 0 {
                        out.push(',');
                    }
                    out.push_str(&serde_json::to_string(k).unwrap());
                    out.push(':');
                    x.print_into(out);
                }
                out.push('}');
            }
        }
    }
    fn norm_floats(&self) -> J {
        match self {
            J::F(_) => J::F("1.5".to_string()),
            J::A(xs) => J::A(xs.iter().map(|x| x.norm_floats()).collect()),
            J::O(kvs) => J::O(kvs.iter().map(|(k, v)| (k.clone(), v.norm_floats())).collect()),
            other => other.clone(),
        }
    }
    fn print(&self) -> String {
        let mut s = String::new();
        self.print_into(&mut s);
        s
    }
    fn parse(text: &str) -> Result<J, String> {
        serde_json::from_str::<J>(text).map_err(|e| e.to_string())
    }
    fn tagged(&self) -> Value {
        match self {
            J::Null => Value::Null,
            J::Bool(b) => Value::Bool(*b),
            J::U(n) => json!(n),
            J::I(n) => json!(n),
            J::F(s) => json!({ "f": s }),
            J::S(s) => Value::String(s.clone()),
            J::A(xs) if xs.len() == 1 && self.depth() > 20 => {
                let mut d = 0u64;
                let mut cur = self;
                while let J::A(xs) = cur {
                    if xs.len() != 1 {
                        break;
                    }
                    d += 1;
                    cur = &xs[0];
                }
                json!({"n": [d, cur.tagged()]})
            }
            J::A(xs) => Value::Array(xs.iter().map(|x| x.tagged()).collect()),
            J::O(kvs) => json!({"o": kvs.iter().map(|(k, v)| json!([k, v.tagged()])).collect::<Vec<Value>>()}),
        }
    }
    fn untag(v: &Value) -> Option<J> {
        Some(match v {
            Value::Null => J::Null,
            Value::Bool(b) => J::Bool(*b),
            Value::Number(n) => {
                if let Some(u) = n.as_u64() {
                    J::U(u)
                } else if let Some(i) = n.as_i64() {
                    J::I(i)
                } else {
                    return None;
                }
            }
            Value::String(s) => J::S(s.clone()),
            Value::Array(xs) => J::A(xs.iter().map(J::untag).collect::<Option<Vec<J>>>()?),
            Value::Object(m) => {
                if m.len() != 1 {
                    return None;
                }
                if let Some(Value::String(s)) = m.get("f") {
                    // must be the text of a float (never an integer literal)
                    let f: f64 = s.parse().ok()?;
                    if !f.is_finite() || serde_json::to_string(&f).ok()? != *s {
                        return None;
                    }
                    J::F(s.clone())
                } else if let Some(Value::Array(p)) = m.get("n") {
                    if p.len() != 2 {
                        return None;
                    }
                    let d = p[0].as_u64()?;
                    if d > 1000 {
                        return None;
                    }
                    let mut v = J::untag(&p[1])?;
                    for _ in 0..d {
                        v = J::A(vec![v]);
                    }
                    v
                } else if let Some(Value::Array(kvs)) = m.get("o") {
                    let mut out = Vec::new();
                    for kv in kvs {
                        let p = kv.as_array()?;
                        if p.len() != 2 {
                            return None;
                        }
                        out.push((p[0].as_str()?.to_string(), J::untag(&p[1])?));
                    }
                    J::O(out)
                } else {
                    return None;
                }
            }
        })
    }
    fn depth(&self) -> usize {
        match self {
            J::A(xs) => 1 + xs.iter().map(|x| x.depth()).max().unwrap_or(0),
            J::O(kvs) => 1 + kvs.iter().map(|(_, x)| x.depth()).max().unwrap_or(0),
            _ => 0,
        }
    }
    fn strings(&self, out: &mut Vec<String>) {
        match self {
            J::S(s) => out.push(s.clone()),
            J::A(xs) => xs.iter().for_each(|x| x.strings(out)),
            J::O(kvs) => kvs.iter().for_each(|(_, x)| x.strings(out)),
            _ => {}
        }
    }
}

// ------------------------------------------------------------------------------------------------
// opaque atoms: std::net::IpAddr and chrono::DateTime<Utc> through serde_json
// ------------------------------------------------------------------------------------------------

fn ip_canon(s: &str) -> Option<String> {
    let ip: IpAddr = serde_json::from_value(Value::String(s.to_string())).ok()?;
    match serde_json::to_value(ip).ok()? {
        Value::String(c) => Some(c),
        _ => None,
    }
}

fn dt_canon(s: &str) -> Option<String> {
    let dt: chrono::DateTime<chrono::Utc> = serde_json::from_value(Value::String(s.to_string())).ok()?;
    match serde_json::to_value(dt).ok()? {
        Value::String(c) => Some(c),
        _ => None,
    }
}

/// string tokens of a document, found by a tolerant scan (the document may be unreadable as a whole)
fn strings_of_text(text: &str) -> Vec<String> {
    let cs: Vec<char> = text.chars().collect();
    let mut out = Vec::new();
    let mut i = 0;
    while i < cs.len() {
        if cs[i] == '"' {
            let mut k = i + 1;
            while k < cs.len() && cs[k] != '"' {
                if cs[k] == '\\' {
                    k += 1;
                }
                k += 1;
            }
            if k < cs.len() {
                let tok: String = cs[i..=k].iter().collect();
                if let Ok(s) = serde_json::from_str::<String>(&tok) {
                    out.push(s);
                }
            }
            i = k + 1;
        } else {
            i += 1;
        }
    }
    out
}

/// number tokens serde_json refuses to read as f64 (out of range): the model does not cover them
fn has_unreadable_float(text: &str) -> bool {
    let cs: Vec<char> = text.chars().collect();
    let mut i = 0;
    while i < cs.len() {
        if cs[i].is_ascii_digit() || cs[i] == '-' {
            let mut k = i;
            while k < cs.len() && (cs[k].is_ascii_digit() || matches!(cs[k], '-' | '+' | '.' | 'e' | 'E')) {
                k += 1;
            }
            let tok: String = cs[i..k].iter().collect();
            if (tok.contains('e') || tok.contains('E') || tok.len() > 300) && tok.chars().any(|c| c.is_ascii_digit()) {
                // try every prefix that is a complete number: the reader stops at the first character it cannot use
                let mut ok_prefix = false;
                let mut bad_prefix = false;
                for end in 1..=tok.len() {
                    match serde_json::from_str::<f64>(&tok[..end]) {
                        Ok(_) => ok_prefix = true,
                        Err(e) => {
                            if e.to_string().contains("out of range") {
                                bad_prefix = true;
                            }
                        }
                    }
                }
                let _ = ok_prefix;
                if bad_prefix {
                    return true;
                }
            }
            i = k.max(i + 1);
        } else {
            i += 1;
        }
    }
    false
}

fn atoms_of_strings(mut ss: Vec<String>) -> Value {
    ss.sort();
    ss.dedup();
    let ip: Vec<Value> = ss.iter().map(|s| json!([s, ip_canon(s)])).collect();
    let dt: Vec<Value> = ss.iter().map(|s| json!([s, dt_canon(s)])).collect();
    json!({"ip": ip, "dt": dt})
}

fn atoms_of(j: &J) -> Value {
    let mut ss = Vec::new();
    j.strings(&mut ss);
    ss.sort();
    ss.dedup();
    let ip: Vec<Value> = ss.iter().map(|s| json!([s, ip_canon(s)])).collect();
    let dt: Vec<Value> = ss.iter().map(|s| json!([s, dt_canon(s)])).collect();
    json!({"ip": ip, "dt": dt})
}

/// the law the theorems assume of the two atom codecs: a canonical text parses to itself
fn atoms_law(atoms: &Value) -> Option<String> {
    for (k, f) in [("ip", ip_canon as fn(&str) -> Option<String>), ("dt", dt_canon as fn(&str) -> Option<String>)] {
        for e in atoms[k].as_array().into_iter().flatten() {
            if let Some(c) = e[1].as_str() {
                if f(c).as_deref() != Some(c) {
                    return Some(format!("{k}: canonical text {c:?} (of {:?}) re-parses to {:?}", e[0], f(c)));
                }
            }
        }
    }
    None
}

// ------------------------------------------------------------------------------------------------
// building real values
// ------------------------------------------------------------------------------------------------

fn opt_s(v: &Value, k: &str) -> Option<String> {
    v.get(k).and_then(|x| x.as_str()).map(|x| x.to_string())
}

fn build_request(cfg: &RouterConfig, r: &Value) -> Result<Request, String> {
    let url = opt_s(r, "url").ok_or("req.url")?;
    let ip: Option<IpAddr> = match opt_s(r, "ip") {
        None => None,
        Some(s) => Some(s.parse::<IpAddr>().map_err(|e| format!("req.ip: {e}"))?),
    };
    let so = r.get("so").and_then(|x| x.as_bool());
    let ctor = opt_s(r, "ctor").unwrap_or_else(|| "config".to_string());
    let mut req = match ctor.as_str() {
        "config" | "rebuild" => Request::from_config(cfg, url, opt_s(r, "host"), opt_s(r, "scheme"), opt_s(r, "method"), ip, so),
        "new" => Request::new(PathAndQueryWithSkipped::from_config(cfg, &url), url, opt_s(r, "host"), opt_s(r, "scheme"), opt_s(r, "method"), ip, so),
        "static" => Request::new(PathAndQueryWithSkipped::from_static(&url), url, opt_s(r, "host"), opt_s(r, "scheme"), opt_s(r, "method"), ip, so),
        "str" => url.parse::<Request>().map_err(|e| format!("req from_str: {e}"))?,
        "example" => {
            let ex = Example {
                url,
                method: opt_s(r, "method"),
                headers: None,
                datetime: None,
                ip_address: opt_s(r, "ip"),
                response_status_code: None,
                must_match: true,
                unit_ids_applied: None,
            };
            Request::from_example(cfg, &ex).map_err(|e| format!("req from_example: {e}"))?
        }
        _ => return Err("req.ctor".to_string()),
    };
    for h in r.get("headers").and_then(|h| h.as_array()).into_iter().flatten() {
        match (h.get(0).and_then(|x| x.as_str()), h.get(1).and_then(|x| x.as_str())) {
            (Some(n), Some(v)) => req.add_header(n.to_string(), v.to_string(), cfg.ignore_header_case),
            _ => return Err("req.headers".to_string()),
        }
    }
    // created_at is the wall clock in every constructor: pin it
    req.created_at = None;
    if let Some(at) = opt_s(r, "at") {
        req.set_created_at(Some(at));
    }
    if ctor == "rebuild" {
        req = Request::rebuild_with_config(cfg, &req);
    }
    Ok(req)
}

fn build_router(cfg: &RouterConfig, rules: &Value) -> Result<Router<Rule>, String> {
    let mut router = Router::<Rule>::from_config(cfg.clone());
    for r in rules.as_array().ok_or("rules")? {
        let rule: Rule = serde_json::from_value(r.clone()).map_err(|e| format!("rule: {e}"))?;
        router.insert(rule);
    }
    Ok(router)
}

fn build_action(src: &Value) -> Result<Action, String> {
    let cfg: RouterConfig = serde_json::from_value(src.get("cfg").cloned().unwrap_or(json!({}))).map_err(|e| format!("cfg: {e}"))?;
    let router = build_router(&cfg, src.get("rules").unwrap_or(&Value::Null))?;
    let req = build_request(&cfg, src.get("req").unwrap_or(&Value::Null))?;
    let routes = router.match_request(&req);
    Ok(Action::from_routes_rule(routes, &req, None))
}

// ------------------------------------------------------------------------------------------------
// observers of an action (each on a fresh clone: they record applied rule ids in the action)
// ------------------------------------------------------------------------------------------------

fn hdrs(v: &Value) -> Vec<Header> {
    v.as_array()
        .into_iter()
        .flatten()
        .filter_map(|h| Some(Header { name: h.get(0)?.as_str()?.to_string(), value: h.get(1)?.as_str()?.to_string() }))
        .collect()
}

fn observe(a: &Action, codes: &[u16], headers: &[Header], bodies: &[Vec<u8>]) -> Value {
    let mut out = Vec::new();
    for &c in codes {
        // status code (without and with a unit trace)
        let mut x = a.clone();
        let sc = x.get_status_code(c, None);
        let applied_sc: Vec<String> = x.get_applied_rule_ids().iter().cloned().collect();
        let mut x = a.clone();
        let mut ut = UnitTrace::default();
        let sc_t = x.get_status_code(c, Some(&mut ut));
        let (fin, fin2) = a.clone().get_final_status_code_with_fallback(c, 200, &mut ut);
        // headers
        let mut x = a.clone();
        let hs = x.filter_headers(headers.to_vec(), c, true, None);
        let hs: Vec<Value> = hs.iter().map(|h| json!([h.name, h.value])).collect();
        let mut x = a.clone();
        let hs_t = x.filter_headers(headers.to_vec(), c, false, Some(&mut ut));
        let hs_t: Vec<Value> = hs_t.iter().map(|h| json!([h.name, h.value])).collect();
        // log decision
        let mut x = a.clone();
        let l_t = x.should_log_request(true, c, Some(&mut ut));
        let l_f = x.should_log_request(false, c, None);
        let applied_log: Vec<String> = x.get_applied_rule_ids().iter().cloned().collect();
        // body
        let mut bods = Vec::new();
        for b in bodies {
            let mut x = a.clone();
            let o = match x.create_filter_body(c, headers) {
                None => json!(null),
                Some(mut f) => {
                    // two chunks + end
                    let cut = b.len() / 2;
                    let mut o = f.filter(b[..cut].to_vec(), Some(&mut ut));
                    o.extend(f.filter(b[cut..].to_vec(), Some(&mut ut)));
                    o.extend(f.end(Some(&mut ut)));
                    json!(hex(&o))
                }
            };
            let applied: Vec<String> = x.get_applied_rule_ids().iter().cloned().collect();
            bods.push(json!([o, applied]));
        }
        // all observers in sequence on one clone: the accumulated applied-rule ids and their serialisation
        let mut x = a.clone();
        x.get_status_code(c, None);
        x.filter_headers(headers.to_vec(), c, false, None);
        x.create_filter_body(c, headers);
        x.should_log_request(true, c, None);
        let after = serde_json::to_string(&x).unwrap();
        ut.squash_with_target_unit_traces();
        let mut utv = serde_json::to_value(&ut).unwrap();
        if let Some(m) = utv.get_mut("unit_ids_seen") {
            // squash re-inserts in HashMap iteration order: compare as a set
            let mut v: Vec<String> = m.as_array().map(|a| a.iter().filter_map(|x| x.as_str().map(|x| x.to_string())).collect()).unwrap_or_default();
            v.sort();
            *m = json!(v);
        }
        if let Some(m) = utv.get_mut("value_computed_by_units") {
            // HashMap: canonical order
            let mut kv: Vec<(String, Value)> = m.as_object().map(|o| o.iter().map(|(k, v)| (k.clone(), v.clone())).collect()).unwrap_or_default();
            kv.sort_by(|a, b| a.0.cmp(&b.0));
            *m = json!(kv);
        }
        out.push(json!({"c": c, "sc": sc, "sc_t": sc_t, "fin": [fin, fin2], "applied_sc": applied_sc, "hs": hs, "hs_t": hs_t,
            "log": [l_t, l_f], "applied_log": applied_log, "body": bods, "after": after, "ut": utv}));
    }
    Value::Array(out)
}

/// the same observers through the C entry points
fn observe_c(a: *mut Action, codes: &[u16], headers: &[Header], bodies: &[Vec<u8>]) -> Value {
    let mut out = Vec::new();
    for &c in codes {
        unsafe {
            let sc = redirectionio_action_get_status_code(a, c);
            let hm = http_headers_to_header_map(headers.to_vec());
            let hm2 = redirectionio_action_header_filter_filter(a, hm, c, true);
            let hs: Vec<Value> = header_map_to_http_headers(hm2).iter().map(|h| json!([h.name, h.value])).collect();
            let l = redirectionio_action_should_log_request(a, true, c);
            let mut bods = Vec::new();
            for b in bodies {
                let f = redirectionio_action_body_filter_create(a, c, http_headers_to_header_map(headers.to_vec())) as *mut FilterBodyAction;
                if f.is_null() {
                    bods.push(Value::Null);
                } else {
                    let mut o = redirectionio_action_body_filter_filter(f, Buffer::from_vec(b.clone())).into_vec();
                    o.extend(redirectionio_action_body_filter_close(f).into_vec());
                    bods.push(json!(hex(&o)));
                }
            }
            out.push(json!({"c": c, "sc": sc, "hs": hs, "log": l, "body": bods}));
        }
    }
    Value::Array(out)
}

fn c_string_take(p: *const c_char) -> Option<String> {
    if p.is_null() {
        return None;
    }
    unsafe {
        let s = CStr::from_ptr(p).to_str().ok().map(|x| x.to_string());
        drop(CString::from_raw(p as *mut c_char));
        s
    }
}

fn probe_of(case: &Value, text: &str) -> (Vec<u16>, Vec<Header>, Vec<Vec<u8>>) {
    let p = case.get("probe").cloned().unwrap_or(json!({}));
    let mut codes: Vec<u16> = vec![0, 200, 301, 302, 404, 410, 500, 65535];
    for c in p.get("codes").and_then(|c| c.as_array()).into_iter().flatten() {
        if let Some(c) = c.as_u64() {
            if c <= 65535 {
                codes.push(c as u16);
            }
        }
    }
    // every number that occurs in the action JSON is a candidate response code
    let mut cur = String::new();
    for ch in text.chars().chain(std::iter::once(' ')) {
        if ch.is_ascii_digit() {
            cur.push(ch);
        } else {
            if !cur.is_empty() && cur.len() <= 5 {
                if let Ok(n) = cur.parse::<u32>() {
                    if n <= 65535 {
                        codes.push(n as u16);
                        codes.push((n as u16).wrapping_add(1));
                    }
                }
            }
            cur.clear();
        }
    }
    codes.sort();
    codes.dedup();
    codes.truncate(40);
    let headers = hdrs(p.get("headers").unwrap_or(&Value::Null));
    let mut bodies: Vec<Vec<u8>> = Vec::new();
    for b in p.get("bodies").and_then(|b| b.as_array()).into_iter().flatten() {
        if let Some(s) = b.as_str() {
            bodies.push(s.as_bytes().to_vec());
        }
    }
    if bodies.is_empty() {
        bodies.push(b"<html><head><title>t</title></head><body><div class=\"c\">x</div><p>y</p></body></html>".to_vec());
    }
    (codes, headers, bodies)
}

// ------------------------------------------------------------------------------------------------
// run
// ------------------------------------------------------------------------------------------------

fn check_atoms(case: &Value, j: &J) -> Result<Value, Obs> {
    let fresh = atoms_of(j);
    if let Some(given) = case.get("atoms") {
        if *given != fresh {
            return Err(Obs::invalid("stale atoms"));
        }
    } else {
        return Err(Obs::invalid("atoms missing"));
    }
    Ok(fresh)
}

fn run_action(case: &Value, j: &J) -> Obs {
    let text0 = j.print();
    let src = case.get("src").and_then(|s| s.as_array()).and_then(|s| s.first()).cloned();
    let a: Action = match &src {
        Some(src) => match build_action(src) {
            Ok(a) => a,
            Err(e) => return Obs::invalid(&format!("src: {e}")),
        },
        None => match serde_json::from_str(&text0) {
            Ok(a) => a,
            Err(e) => return Obs::invalid(&format!("j is not an action: {e}")),
        },
    };
    let text = serde_json::to_string(&a).unwrap();
    if text != text0 {
        return Obs::invalid("stale j (the action rebuilt from src serialises differently)");
    }
    let mut o = Obs::new(json!({"ok": true, "text": text}));
    o.tags.push(if src.is_some() { "action:built".to_string() } else { "action:from-json".to_string() });
    for (pat, tag) in [
        ("\"status_code_update\":{", "has:status"),
        ("\"fallback_rule_id\":\"", "has:fallback"),
        ("\"log_override\":{", "has:log"),
        ("\"content\":", "has:text-filter"),
        ("\"element_tree\":", "has:html-filter"),
        ("\"css_selector\":\"", "has:css"),
        ("\"exclude_response_status_codes\":true", "has:exclude"),
        ("\"header_filters\":[{", "has:header-filter"),
        ("\\", "has:escape"),
    ] {
        if text.contains(pat) {
            o.tags.push(tag.to_string());
        }
    }
    o.nontrivial = text.contains("\"rule_ids\":[\"");
    // ---- oracle 1: native round trip
    let a2: Action = match serde_json::from_str(&text) {
        Ok(a2) => a2,
        Err(e) => return o.fail(format!("from_str(to_string(action)) fails: {e}"), "action-rt-reject"),
    };
    let text2 = serde_json::to_string(&a2).unwrap();
    if text2 != text {
        return o.fail(format!("re-serialised action differs: {text2}"), "action-rt-text");
    }
    // structural equality, independent of the serialiser (derived Debug prints every field)
    if format!("{a:?}") != format!("{a2:?}") {
        return o.fail(format!("restored action differs structurally: {a:?} vs {a2:?}"), "action-rt-struct");
    }
    let (codes, headers, bodies) = probe_of(case, &text);
    let ob1 = observe(&a, &codes, &headers, &bodies);
    let ob2 = observe(&a2, &codes, &headers, &bodies);
    if ob1 != ob2 {
        let mut which = String::new();
        for (x, y) in ob1.as_array().unwrap().iter().zip(ob2.as_array().unwrap()) {
            if x != y {
                which = format!("{x} vs {y}");
                break;
            }
        }
        return o.fail(format!("observers differ after the round trip: {which}"), "action-rt-behaviour");
    }
    // ---- an action that has been *used* (non-empty rules_applied) survives the hand-off too
    for &c in codes.iter().take(4) {
        let mut x = a.clone();
        x.get_status_code(c, None);
        x.filter_headers(headers.clone(), c, false, None);
        x.create_filter_body(c, &headers);
        x.should_log_request(true, c, None);
        let t = serde_json::to_string(&x).unwrap();
        match serde_json::from_str::<Action>(&t) {
            Err(e) => return o.fail(format!("used action does not deserialise: {e}"), "action-rt-used"),
            Ok(x2) => {
                if serde_json::to_string(&x2).unwrap() != t || format!("{x:?}") != format!("{x2:?}") {
                    return o.fail(format!("used action changes in the round trip: {t}"), "action-rt-used");
                }
            }
        }
    }
    // ---- oracle 2: the C entry points
    unsafe {
        let boxed = Box::into_raw(Box::new(a.clone()));
        let ctext = c_string_take(redirectionio_action_json_serialize(boxed));
        if ctext.as_deref() != Some(text.as_str()) {
            redirectionio_action_drop(boxed);
            return o.fail(format!("C serialize differs: {ctext:?}"), "action-c-serialize");
        }
        let cs = CString::new(text.clone()).unwrap();
        let raw = cs.into_raw();
        let a3 = redirectionio_action_json_deserialize(raw) as *mut Action;
        drop(CString::from_raw(raw));
        if a3.is_null() {
            redirectionio_action_drop(boxed);
            return o.fail("C deserialize returns null", "action-c-deserialize");
        }
        let ctext3 = c_string_take(redirectionio_action_json_serialize(a3));
        let oc1 = observe_c(boxed, &codes, &headers, &bodies);
        let oc3 = observe_c(a3, &codes, &headers, &bodies);
        // the last code's accumulated applied-rule ids travel too
        let used1 = c_string_take(redirectionio_action_json_serialize(boxed));
        let used3 = c_string_take(redirectionio_action_json_serialize(a3));
        if used1 != used3 {
            redirectionio_action_drop(boxed);
            redirectionio_action_drop(a3);
            return o.fail("after the C observers the two actions serialise differently", "action-c-rt-behaviour");
        }
        redirectionio_action_drop(boxed);
        redirectionio_action_drop(a3);
        if ctext3.as_deref() != Some(text.as_str()) {
            return o.fail(format!("C round trip text differs: {ctext3:?}"), "action-c-rt-text");
        }
        if oc1 != oc3 {
            return o.fail("C observers differ after the C round trip", "action-c-rt-behaviour");
        }
    }
    o
}

fn run_request(case: &Value, j: &J) -> Obs {
    let text0 = j.print();
    let atoms = match check_atoms(case, j) {
        Ok(a) => a,
        Err(o) => return o,
    };
    let src = case.get("src").and_then(|s| s.as_array()).and_then(|s| s.first()).cloned();
    let cfg: RouterConfig = match serde_json::from_value(src.as_ref().and_then(|s| s.get("cfg")).cloned().unwrap_or(json!({}))) {
        Ok(c) => c,
        Err(e) => return Obs::invalid(&format!("cfg: {e}")),
    };
    let q: Request = match &src {
        Some(src) => match build_request(&cfg, src.get("req").unwrap_or(&Value::Null)) {
            Ok(q) => q,
            Err(e) => return Obs::invalid(&format!("src: {e}")),
        },
        None => match serde_json::from_str(&text0) {
            Ok(q) => q,
            Err(e) => return Obs::invalid(&format!("j is not a request: {e}")),
        },
    };
    let text = serde_json::to_string(&q).unwrap();
    if text != text0 {
        return Obs::invalid("stale j (the request rebuilt from src serialises differently)");
    }
    let mut o = Obs::new(json!({"ok": true, "text": text}));
    o.tags.push(if src.is_some() { "request:built".to_string() } else { "request:from-json".to_string() });
    if let Some(c) = src.as_ref().and_then(|s| s.get("req")).and_then(|r| r.get("ctor")).and_then(|c| c.as_str()) {
        o.tags.push(format!("ctor:{c}"));
    }
    for (pat, tag) in [("\"remote_addr\":\"", "has:ip"), ("\"created_at\":\"", "has:date"), ("\"skipped_query_params\":\"", "has:skipped"), ("\"headers\":[{", "has:headers")] {
        if text.contains(pat) {
            o.tags.push(tag.to_string());
        }
    }
    if let Some(why) = atoms_law(&atoms) {
        return o.fail(why, "atom-law");
    }
    // the same print/parse law on atoms the case does not name: the wall clock (what every constructor stores),
    // and instants / addresses spread over the whole range, derived from the case text
    {
        use chrono::{DateTime, TimeZone, Utc};
        let mut h = Prng::new(text.bytes().fold(0u64, |a, b| a.wrapping_mul(131).wrapping_add(b as u64)));
        let mut probes: Vec<DateTime<Utc>> = vec![Utc::now(), DateTime::<Utc>::MIN_UTC, DateTime::<Utc>::MAX_UTC];
        for _ in 0..6 {
            let secs = (h.next() % (2 * 8_210_000_000_000u64)) as i64 - 8_210_000_000_000i64; // about +-260 000 years
            let nanos = match h.below(4) {
                0 => 0,
                1 => (h.below(1000) as u32) * 1_000_000,
                2 => (h.below(1_000_000) as u32) * 1000,
                _ => h.below(1_000_000_000) as u32,
            };
            if let chrono::LocalResult::Single(dt) = Utc.timestamp_opt(secs, nanos) {
                probes.push(dt);
            }
        }
        for dt in probes {
            let t = serde_json::to_string(&dt).unwrap();
            match serde_json::from_str::<DateTime<Utc>>(&t) {
                Ok(back) if back == dt && serde_json::to_string(&back).unwrap() == t => {}
                other => return o.fail(format!("DateTime<Utc> {dt:?} prints as {t} and reads back as {other:?}"), "atom-law"),
            }
        }
        for _ in 0..6 {
            let ip: IpAddr = if h.chance(1, 2) {
                IpAddr::V4(std::net::Ipv4Addr::from(h.next() as u32))
            } else {
                let mut seg = [0u16; 8];
                for s in seg.iter_mut() {
                    *s = match h.below(3) {
                        0 => 0,
                        1 => 0xffff,
                        _ => h.next() as u16,
                    };
                }
                IpAddr::V6(std::net::Ipv6Addr::from(seg))
            };
            let t = serde_json::to_string(&ip).unwrap();
            match serde_json::from_str::<IpAddr>(&t) {
                Ok(back) if back == ip && serde_json::to_string(&back).unwrap() == t => {}
                other => return o.fail(format!("IpAddr {ip:?} prints as {t} and reads back as {other:?}"), "atom-law"),
            }
        }
    }
    let q2: Request = match serde_json::from_str(&text) {
        Ok(q2) => q2,
        Err(e) => return o.fail(format!("from_str(to_string(request)) fails: {e}"), "request-rt-reject"),
    };
    let text2 = serde_json::to_string(&q2).unwrap();
    if text2 != text {
        return o.fail(format!("re-serialised request differs: {text2}"), "request-rt-text");
    }
    if format!("{q:?}") != format!("{q2:?}") {
        return o.fail(format!("restored request differs structurally: {q:?} vs {q2:?}"), "request-rt-struct");
    }
    // C entry points
    unsafe {
        let boxed = Box::into_raw(Box::new(q.clone()));
        let ctext = c_string_take(redirectionio_request_json_serialize(boxed));
        redirectionio_request_drop(boxed);
        if ctext.as_deref() != Some(text.as_str()) {
            return o.fail(format!("C serialize differs: {ctext:?}"), "request-c-serialize");
        }
        let raw = CString::new(text.clone()).unwrap().into_raw();
        let q3 = redirectionio_request_json_deserialize(raw) as *mut Request;
        drop(CString::from_raw(raw));
        if q3.is_null() {
            return o.fail("C deserialize returns null", "request-c-deserialize");
        }
        let ctext3 = c_string_take(redirectionio_request_json_serialize(q3));
        redirectionio_request_drop(q3);
        if ctext3.as_deref() != Some(text.as_str()) {
            return o.fail(format!("C round trip text differs: {ctext3:?}"), "request-c-rt-text");
        }
    }
    // matching: the restored request matches the same rules (and yields the same action)
    if let Some(rules) = case.get("router") {
        let router = match build_router(&cfg, rules) {
            Ok(r) => r,
            Err(e) => return Obs::invalid(&format!("router: {e}")),
        };
        let ids = |q: &Request| {
            let mut v: Vec<String> = router.match_request(q).iter().map(|r| r.id().to_string()).collect();
            v.sort();
            v
        };
        let (i1, i2) = (ids(&q), ids(&q2));
        o.tags.push(format!("matched:{}", i1.len().min(3)));
        if i1 != i2 {
            return o.fail(format!("matched rule ids differ after the round trip: {i1:?} vs {i2:?}"), "request-rt-match");
        }
        let act = |q: &Request| serde_json::to_string(&Action::from_routes_rule(router.match_request(q), q, None)).unwrap();
        if act(&q) != act(&q2) {
            return o.fail("the action computed for the restored request differs", "request-rt-action");
        }
        let rb = |q: &Request| serde_json::to_string(&router.rebuild_request(q)).unwrap();
        if rb(&q) != rb(&q2) {
            return o.fail("rebuild_request differs for the restored request", "request-rt-rebuild");
        }
    }
    o
}

fn de_generic<T: serde::de::DeserializeOwned + serde::Serialize>(text: &str) -> (Value, Option<String>) {
    match serde_json::from_str::<T>(text) {
        Err(_) => (json!({"ok": false, "text": null}), None),
        Ok(v) => {
            let t = serde_json::to_string(&v).unwrap();
            // any accepted value is itself subject to the round trip
            let again = serde_json::from_str::<T>(&t).ok().map(|v2| serde_json::to_string(&v2).unwrap());
            let why = if again.as_deref() != Some(t.as_str()) { Some(format!("accepted value does not round-trip: {t} -> {again:?}")) } else { None };
            (json!({"ok": true, "text": t}), why)
        }
    }
}

fn run_parse(case: &Value) -> Obs {
    let text = match opt_s(case, "text") {
        Some(t) => t,
        None => return Obs::invalid("text"),
    };
    if has_unreadable_float(&text) {
        return Obs::invalid("a float outside the range of f64 (not modelled)");
    }
    let (obs, ok) = match J::parse(&text) {
        Ok(j) => (json!({"ok": true, "text": j.norm_floats().print()}), true),
        Err(_) => (json!({"ok": false, "text": null}), false),
    };
    let mut o = Obs::new(obs);
    o.tags.push(format!("parse:{}", if ok { "accept" } else { "reject" }));
    for m in case.get("mut").and_then(|m| m.as_array()).into_iter().flatten() {
        if let Some(m) = m.as_str() {
            o.tags.push(format!("tmut:{m}:{}", if ok { "accept" } else { "reject" }));
        }
    }
    o
}

fn run_de(case: &Value, j: Option<&J>) -> Obs {
    let from_text = j.is_none();
    let text = match j {
        Some(j) => {
            let text = j.print();
            // glue self-check: the text we hand to serde_json parses back to the same tree
            match J::parse(&text) {
                Ok(j2) if j2 == *j => {}
                Ok(_) => return Obs::invalid("tagged tree is not what serde_json reads from its print (number class?)"),
                Err(e) => {
                    // only the recursion limit can make a printed tree unparsable
                    if j.depth() < 128 {
                        return Obs::invalid(&format!("printed tree does not parse: {e}"));
                    }
                }
            }
            text
        }
        None => match opt_s(case, "text") {
            Some(t) => t,
            None => return Obs::invalid("j / text"),
        },
    };
    let parsed = if from_text { J::parse(&text).ok() } else { None };
    let j: Option<&J> = if from_text { parsed.as_ref() } else { j };
    let ty = opt_s(case, "ty").unwrap_or_default();
    let (obs, why) = match ty.as_str() {
        "action" => de_generic::<Action>(&text),
        "request" => de_generic::<Request>(&text),
        "body_filter" => de_generic::<BodyFilter>(&text),
        "header_filter" => de_generic::<HeaderFilter>(&text),
        "status_code_update" => de_generic::<redirectionio::action::StatusCodeUpdate>(&text),
        "rule_trace" => de_generic::<redirectionio::action::RuleTrace>(&text),
        "header" => de_generic::<Header>(&text),
        "paq" => de_generic::<PathAndQueryWithSkipped>(&text),
        _ => return Obs::invalid("ty"),
    };
    if from_text && has_unreadable_float(&text) {
        return Obs::invalid("a float outside the range of f64 (not modelled)");
    }
    if ty == "request" {
        if from_text {
            if case.get("atoms") != Some(&atoms_of_strings(strings_of_text(&text))) {
                return Obs::invalid("stale atoms");
            }
        } else if let Some(j) = j {
            if let Err(o) = check_atoms(case, j) {
                return o;
            }
        }
    }
    let ok = obs["ok"].as_bool().unwrap_or(false);
    let mut o = Obs::new(obs);
    o.tags.push(format!("de{}:{ty}:{}", if from_text { "-text" } else { "" }, if ok { "accept" } else { "reject" }));
    for m in case.get("mut").and_then(|m| m.as_array()).into_iter().flatten() {
        if let Some(m) = m.as_str() {
            o.tags.push(format!("mut:{m}:{}", if ok { "accept" } else { "reject" }));
        }
    }
    if let Some(why) = why {
        return o.fail(why, "de-accepted-not-stable");
    }
    o
}

fn run(case: &Value) -> Obs {
    let k = case.get("k").and_then(|k| k.as_str());
    if k == Some("parse") {
        return run_parse(case);
    }
    if k == Some("de") && case.get("j").is_none() {
        return run_de(case, None);
    }
    let j = match case.get("j").and_then(J::untag) {
        Some(j) => j,
        None => return Obs::invalid("j"),
    };
    match k {
        Some("action") => run_action(case, &j),
        Some("request") => run_request(case, &j),
        Some("de") => run_de(case, Some(&j)),
        _ => Obs::invalid("k"),
    }
}

// ------------------------------------------------------------------------------------------------
// gen
// ------------------------------------------------------------------------------------------------

const STRS: &[&str] = &["", "a", "x-y", "é", "a\"b", "back\\slash", "line\nbreak", "tab\there", "\u{1}\u{1f}", "\u{7f}", "\u{2028}", "😀", "</script>", "@m", "v-@m", "null", "0",
    // leading / trailing white space must survive the round trip verbatim (seed r8f-1: a trimming deserialiser for header values)
    " lead", "trail ", "\ttab-lead", "tab-trail\t", " ", " both \t"];
const IDS: &[&str] = &["r1", "r2", "r3", "r4", "r5", "r6", "r\"7", "r\u{e9}8", ""];
const HEADER_ACTIONS: &[&str] = &["add", "remove", "replace", "override", "default", "frobnicate"];
const TEXT_ACTIONS: &[&str] = &["append_text", "prepend_text", "replace_text"];
const HTML_ACTIONS: &[&str] = &["append_child", "prepend_child", "replace", "append_text", "nope", ""];
const CODE_LISTS: &[&[u16]] = &[&[], &[], &[404], &[301, 302, 404], &[0], &[65535], &[200, 200], &[500, 404, 410]];
const IPS: &[&str] = &["1.2.3.4", "10.1.2.3", "255.255.255.255", "::1", "::", "::ffff:1.2.3.4", "2001:db8::1", "2001:db8:0:0:1:0:0:1", "fe80::1:2:3:4"];
const IP_TEXTS: &[&str] = &[
    "1.2.3.4", "::1", "2001:0db8:0000:0000:0000:0000:0000:0001", "2001:DB8::1", "::ffff:102:304", "0:0:0:0:0:0:0:0", "01.2.3.4", "1.2.3", "1.2.3.4.5", "256.1.1.1", " 1.2.3.4", "1.2.3.4 ", "[::1]",
    "fe80::1%eth0", "1.2.3.4:80", "::1.2.3.4", "1::2::3", "", "localhost",
];
const DATES: &[&str] = &[
    "2024-01-02T03:04:05Z", "2024-01-02T03:04:05.123Z", "2024-01-02T03:04:05.123456Z", "2024-01-02T03:04:05.123456789Z", "2024-01-02T03:04:05.100Z", "2024-01-02T03:04:05+01:00", "2024-01-02T03:04:05-23:59",
    "2016-12-31T23:59:60Z", "0000-01-01T00:00:00Z", "0001-01-01T00:00:00Z", "9999-12-31T23:59:59Z", "1969-12-31T23:59:59.999999999Z", "2024-02-29T12:00:00Z",
];
const DATE_TEXTS: &[&str] = &[
    "2024-01-02T03:04:05Z", "2024-01-02 03:04:05Z", "2024-01-02t03:04:05z", "2024-01-02T03:04:05", "2024-01-02T03:04:05+0100", "2024-01-02T03:04:05.Z", "2024-01-02T03:04:05.1234567891Z", "2023-02-29T00:00:00Z",
    "2024-01-02T24:00:00Z", "+10000-01-01T00:00:00Z", "-0001-01-01T00:00:00Z", "2024-01-02T03:04:05+00:00", "2024-01-02T03:04:05-00:00", "2024-01-02", "", "yesterday", " 2024-01-02T03:04:05Z",
    "2024-01-02T03:04:05Z ", "2016-12-31T23:59:60.5Z", "2024-01-02T03:04:60Z",
];

fn ostr(rng: &mut Prng, pool: &[&str]) -> Value {
    if rng.chance(1, 3) {
        Value::Null
    } else {
        json!(*rng.pick(pool))
    }
}

fn gen_cfg(rng: &mut Prng) -> Value {
    json!({
        "ignore_host_case": rng.chance(1, 2),
        "ignore_header_case": rng.chance(1, 2),
        "ignore_path_and_query_case": rng.chance(1, 2),
        "ignore_marketing_query_params": rng.chance(2, 3),
        "pass_marketing_query_params_to_target": rng.chance(1, 2),
        "always_match_any_host": rng.chance(1, 2),
    })
}

fn gen_header_filter(rng: &mut Prng) -> Value {
    let mut f = json!({"action": *rng.pick(HEADER_ACTIONS), "header": *rng.pick(&["X-A", "x-a", "Location", "Set-Cookie", "é", ""]), "value": *rng.pick(STRS)});
    match rng.below(3) {
        0 => {}
        1 => {
            f["id"] = ostr(rng, STRS);
            f["target_hash"] = ostr(rng, STRS);
        }
        _ => {
            f["id"] = json!(format!("u{}", rng.below(9)));
            f["target_hash"] = json!(format!("h{}", rng.below(4)));
        }
    }
    f
}

fn gen_body_filter(rng: &mut Prng) -> Value {
    if rng.chance(1, 2) {
        let mut f = json!({"action": *rng.pick(TEXT_ACTIONS), "content": *rng.pick(STRS)});
        if rng.chance(1, 2) {
            f["id"] = ostr(rng, STRS);
        }
        if rng.chance(1, 2) {
            f["target_hash"] = ostr(rng, STRS);
        }
        if rng.chance(1, 8) {
            // fits both variants
            f["value"] = json!("v");
            f["element_tree"] = json!(["html", "body"]);
        }
        f
    } else {
        let trees: &[&[&str]] = &[&[], &["html", "body"], &["html", "body", "div"], &["html", "head", "title"], &["p"], &["é", ""]];
        let mut f = json!({"action": *rng.pick(HTML_ACTIONS), "value": *rng.pick(&["<b>v</b>", "", "é", "<p class=\"q\">\\</p>", "v-@m"]), "element_tree": *rng.pick(trees)});
        if rng.chance(1, 2) {
            f["inner_value"] = ostr(rng, &["<i>in</i>", "", "@m"]);
        }
        if rng.chance(1, 2) {
            f["css_selector"] = ostr(rng, &["", "div.c", "p", "[class=\"c\"]", "###"]);
        }
        if rng.chance(1, 2) {
            f["id"] = ostr(rng, STRS);
        }
        if rng.chance(1, 2) {
            f["target_hash"] = ostr(rng, STRS);
        }
        f
    }
}

fn gen_rule(rng: &mut Prng, id: &str) -> Value {
    let marker = rng.chance(1, 4);
    let mut source = json!({"path": if marker { "/x/@m" } else { "/x/abc" }});
    if rng.chance(2, 3) {
        source["response_status_codes"] = if rng.chance(1, 5) { Value::Null } else { json!(*rng.pick(CODE_LISTS)) };
    }
    if rng.chance(1, 2) {
        source["exclude_response_status_codes"] = match rng.below(3) {
            0 => Value::Null,
            1 => json!(true),
            _ => json!(false),
        };
    }
    if rng.chance(1, 10) {
        source["sampling"] = json!(*rng.pick(&[0u32, 100, 100, 1000]));
    }
    let mut r = json!({"id": id, "rank": rng.below(3), "source": source});
    if marker {
        r["markers"] = json!([{"name": "m", "regex": "[a-z]+", "transformers": []}]);
    }
    if rng.chance(2, 3) {
        r["status_code"] = json!(*rng.pick(&[0u16, 301, 302, 307, 404, 410, 200, 65535]));
        if rng.chance(1, 3) {
            r["redirect_unit_id"] = ostr(rng, STRS);
        }
    }
    if rng.chance(1, 2) {
        r["target"] = json!(*rng.pick(&["", "/t", "/t/@m", "https://e.com/é?x=\"1\"", "/t?a=b", "\u{0}\u{7}"]));
        if rng.chance(1, 2) {
            r["target_hash"] = ostr(rng, STRS);
        }
    }
    if rng.chance(1, 2) {
        let n = rng.below(4);
        r["header_filters"] = Value::Array((0..n).map(|_| gen_header_filter(rng)).collect());
    }
    if rng.chance(1, 2) {
        let n = rng.below(4);
        r["body_filters"] = Value::Array((0..n).map(|_| gen_body_filter(rng)).collect());
    }
    if rng.chance(1, 3) {
        r["log_override"] = json!(rng.chance(1, 2));
        if rng.chance(1, 2) {
            r["configuration_log_unit_id"] = ostr(rng, STRS);
        }
    }
    if rng.chance(1, 8) {
        r["reset"] = json!(rng.chance(2, 3));
        if rng.chance(1, 2) {
            r["configuration_reset_unit_id"] = ostr(rng, STRS);
        }
    }
    if rng.chance(1, 12) {
        r["stop"] = json!(rng.chance(2, 3));
    }
    r
}

/// addresses spread over both families: zero runs of every length and position, IPv4-mapped, extremes
fn random_ip(rng: &mut Prng) -> IpAddr {
    if rng.chance(1, 3) {
        IpAddr::V4(std::net::Ipv4Addr::from(match rng.below(4) {
            0 => 0,
            1 => u32::MAX,
            2 => (rng.below(256) as u32) << (8 * rng.below(4)),
            _ => rng.next() as u32,
        }))
    } else {
        let mut seg = [0u16; 8];
        let style = rng.below(4);
        for (i, s) in seg.iter_mut().enumerate() {
            *s = match style {
                0 => {
                    if rng.chance(1, 2) {
                        0
                    } else {
                        rng.next() as u16
                    }
                }
                1 => *rng.pick(&[0u16, 0, 0, 1, 0xffff, 0x10, 0x100, 0xabcd]),
                2 => {
                    if i < 5 {
                        0
                    } else if i == 5 {
                        *rng.pick(&[0xffffu16, 0xffff, 0, 0xfffe])
                    } else {
                        rng.next() as u16
                    }
                }
                _ => rng.next() as u16,
            };
        }
        IpAddr::V6(std::net::Ipv6Addr::from(seg))
    }
}

/// instants spread over chrono's whole range, with 0 / 3 / 6 / 9 significant fractional digits and leap seconds
fn random_instant(rng: &mut Prng) -> String {
    use chrono::{TimeZone, Utc};
    let secs = match rng.below(4) {
        0 => (rng.next() % 4_102_444_800) as i64,                                  // 1970..2100
        1 => (rng.next() % (2 * 62_167_219_200)) as i64 - 62_167_219_200,          // around year 0 .. 3940
        _ => (rng.next() % (2 * 8_210_000_000_000u64)) as i64 - 8_210_000_000_000, // about +-260 000 years
    };
    let mut nanos = match rng.below(5) {
        0 => 0,
        1 => (rng.below(1000) as u32) * 1_000_000,
        2 => (rng.below(1_000_000) as u32) * 1000,
        3 => *rng.pick(&[1u32, 999_999_999, 100_000_000, 1_000, 1_000_000, 10]),
        _ => rng.below(1_000_000_000) as u32,
    };
    if secs.rem_euclid(60) == 59 && rng.chance(1, 4) {
        nanos += 1_000_000_000; // leap second
    }
    match Utc.timestamp_opt(secs, nanos) {
        chrono::LocalResult::Single(dt) => match serde_json::to_value(dt) {
            Ok(Value::String(s)) => s,
            _ => "2024-01-02T03:04:05Z".to_string(),
        },
        _ => "2024-01-02T03:04:05Z".to_string(),
    }
}

fn gen_req_spec(rng: &mut Prng, for_action: bool) -> Value {
    let urls: &[&str] = if for_action {
        &["/x/abc", "/x/abc?utm_source=a", "/x/abc?utm_source=a&utm_medium=b c"]
    } else {
        &["/x/abc", "/x/abc?utm_source=a", "/X/ABC?b=2&a=1", "/x/abc?a=1&b=2", "/é?q=\"<>\"", "/a b#c", "", "/", "//x?&&=", "/x/abc?utm_source=a&b=é+%20%zz", "http://h.example/x/abc?a=1", "not a url \u{1}"]
    };
    let ctors: &[&str] = if for_action { &["config", "config", "new"] } else { &["config", "config", "new", "static", "str", "example", "rebuild"] };
    let ctor = *rng.pick(ctors);
    let nh = rng.below(4);
    let headers: Vec<Value> = (0..nh).map(|_| json!([*rng.pick(&["X-A", "x-a", "Host", "User-Agent", "é", ""]), *rng.pick(STRS)])).collect();
    let mut r = json!({"ctor": ctor, "url": *rng.pick(urls), "headers": headers});
    if rng.chance(1, 2) {
        r["host"] = json!(*rng.pick(&["example.org", "EXAMPLE.org", "h.example", "é.example", ""]));
    }
    if rng.chance(1, 2) {
        r["scheme"] = json!(*rng.pick(&["http", "https", "HTTPS", ""]));
    }
    if rng.chance(1, 2) {
        r["method"] = json!(*rng.pick(&["GET", "POST", "get", "", "PURGE"]));
    }
    if rng.chance(1, 2) {
        r["ip"] = if rng.chance(1, 2) { json!(*rng.pick(IPS)) } else { json!(random_ip(rng).to_string()) };
    }
    if rng.chance(1, 3) {
        r["so"] = json!(rng.chance(1, 2));
    }
    if rng.chance(2, 3) {
        if rng.chance(1, 2) {
            r["at"] = json!(random_instant(rng));
        } else {
            let pool = if rng.chance(3, 4) { DATES } else { DATE_TEXTS };
            r["at"] = json!(*rng.pick(pool));
        }
    }
    r
}

fn gen_action_src(rng: &mut Prng) -> Value {
    let n = rng.range(1, 6);
    let mut ids: Vec<&str> = IDS.to_vec();
    let mut rules = Vec::new();
    for _ in 0..n {
        let lim = if rng.chance(1, 6) { ids.len() } else { 6 };
        let i = rng.below(ids.len().min(lim));
        let id = ids.remove(i);
        rules.push(gen_rule(rng, id));
    }
    json!({"cfg": gen_cfg(rng), "rules": rules, "req": gen_req_spec(rng, true)})
}

fn gen_router_rules(rng: &mut Prng, spec: &Value) -> Value {
    let n = rng.range(2, 8);
    let mut rules = Vec::new();
    let url = spec.get("url").and_then(|u| u.as_str()).unwrap_or("/");
    let url = url.strip_prefix("http://h.example").unwrap_or(url);
    let (upath, uquery) = match url.split_once('?') {
        Some((p, q)) => (p.to_string(), Some(q.to_string())),
        None => (url.to_string(), None),
    };
    for i in 0..n {
        // mostly triggers taken from the request itself, so that rules do match
        let near = rng.chance(3, 4);
        let path = if near && upath.starts_with('/') { upath.clone() } else { (*rng.pick(&["/x/abc", "/X/ABC", "/", "/é", "/x/@m"])).to_string() };
        let mut source = json!({"path": path});
        if near {
            if let Some(q) = &uquery {
                if rng.chance(3, 4) {
                    source["query"] = json!(q.replace("utm_source=a&", "").replace("&utm_source=a", "").replace("utm_source=a", ""));
                }
            }
        } else if rng.chance(1, 3) {
            source["query"] = json!(*rng.pick(&["a=1&b=2", "b=2&a=1", "utm_source=a", ""]));
        }
        if rng.chance(1, 6) {
            source["host"] = match spec.get("host").and_then(|h| h.as_str()) {
                Some(h) if rng.chance(2, 3) => json!(h),
                _ => json!(*rng.pick(&["example.org", "EXAMPLE.org", "h.example", ""])),
            };
        }
        if rng.chance(1, 6) {
            source["scheme"] = match spec.get("scheme").and_then(|h| h.as_str()) {
                Some(h) if rng.chance(2, 3) => json!(h),
                _ => json!(*rng.pick(&["http", "https"])),
            };
        }
        if rng.chance(1, 6) {
            source["methods"] = match spec.get("method").and_then(|h| h.as_str()) {
                Some(h) if rng.chance(2, 3) => json!([h]),
                _ => json!([*rng.pick(&["GET", "POST", "PURGE"])]),
            };
            if rng.chance(1, 3) {
                source["exclude_methods"] = json!(true);
            }
        }
        if rng.chance(1, 6) {
            source["headers"] = json!([{"type": *rng.pick(&["is_defined", "is_not_defined", "is_equals", "contains", "is_not_equal_to"]), "name": *rng.pick(&["X-A", "x-a", "Host", "User-Agent"]), "value": *rng.pick(STRS)}]);
        }
        if rng.chance(1, 6) {
            let kind = if rng.chance(2, 3) { "in_range" } else { "not_in_range" };
            source["ips"] = json!([{kind: *rng.pick(&["1.2.3.0/24", "10.0.0.0/8", "::/0", "::1/128", "2001:db8::/32", "0.0.0.0/0", "::ffff:1.2.3.0/120"])}]);
        }
        if rng.chance(1, 6) {
            source["datetime"] = json!([[*rng.pick(&[Value::Null, json!("2024-01-02T03:04:05Z"), json!("2000-01-01T00:00:00Z"), json!("2024-01-02T03:04:05.123456789Z")]), *rng.pick(&[Value::Null, json!("2024-01-02T03:04:05.5Z"), json!("2030-01-01T00:00:00Z"), json!("2024-01-02T03:04:05.123456790Z")])]]);
        }
        if rng.chance(1, 8) {
            source["sampling"] = json!(*rng.pick(&[0u32, 100]));
        }
        let mut r = json!({"id": format!("m{i}"), "rank": rng.below(3), "source": source, "status_code": 301, "target": "/t"});
        if r["source"]["path"] == "/x/@m" {
            r["markers"] = json!([{"name": "m", "regex": "[a-z]+", "transformers": []}]);
        }
        rules.push(r);
    }
    Value::Array(rules)
}

fn rand_json(rng: &mut Prng, depth: usize) -> J {
    match rng.below(if depth == 0 { 8 } else { 10 }) {
        0 => J::Null,
        1 => J::Bool(rng.chance(1, 2)),
        2 => J::U(*rng.pick(&[0u64, 1, 9, 10, 200, 404, 65535, 65536, 9223372036854775807, 9223372036854775808, u64::MAX])),
        3 => J::I(*rng.pick(&[-1i64, -10, -404, i64::MIN, i64::MIN + 1])),
        4 => J::F(serde_json::to_string(rng.pick(&[1.0f64, 0.5, 1e300, -0.0, 404.0, 18446744073709551616.0])).unwrap()),
        5 | 6 => J::S((*rng.pick(STRS)).to_string()),
        7 => {
            if rng.chance(1, 2) {
                J::A(vec![])
            } else {
                J::O(vec![])
            }
        }
        8 => J::A((0..rng.below(3)).map(|_| rand_json(rng, depth - 1)).collect()),
        _ => J::O((0..rng.below(3)).map(|_| ((*rng.pick(&["a", "action", "content", "id", "filter", ""])).to_string(), rand_json(rng, depth - 1))).collect()),
    }
}

fn wrong_type(rng: &mut Prng, old: &J) -> J {
    match rng.below(16) {
        0 => J::Null,
        1 => J::Bool(rng.chance(1, 2)),
        2 => J::U(*rng.pick(&[0u64, 1, 404, 65535, 65536, 4294967296, u64::MAX])),
        3 => J::I(*rng.pick(&[-1i64, -65536])),
        4 => J::F(serde_json::to_string(rng.pick(&[1.0f64, 404.0, 1e-7, -0.0, 65535.0])).unwrap()),
        5 => J::S((*rng.pick(STRS)).to_string()),
        6 => J::S((*rng.pick(&["append_text", "prepend_text", "replace_text", "Append", "append_child", "true", "404"])).to_string()),
        7 => J::A(vec![]),
        8 => J::O(vec![]),
        9 => J::A(vec![old.clone()]),
        10 => J::O(vec![((*rng.pick(&["append_text", "replace_text", "x"])).to_string(), (*rng.pick(&[J::Null, J::U(1), J::O(vec![]), J::A(vec![])])).clone())]),
        11 => J::O(vec![("append_text".to_string(), J::Null), ("prepend_text".to_string(), J::Null)]),
        12 => J::S((*rng.pick(IP_TEXTS)).to_string()),
        13 => J::S((*rng.pick(DATE_TEXTS)).to_string()),
        14 => match old {
            // an object turned into the positional form serde's derived visit_seq accepts
            J::O(kvs) => J::A(kvs.iter().map(|(_, v)| v.clone()).collect()),
            J::A(xs) => {
                let mut xs = xs.clone();
                if let Some(x) = xs.first().cloned() {
                    xs.push(x);
                }
                J::A(xs)
            }
            J::S(s) => J::A(s.chars().map(|c| J::S(c.to_string())).collect()),
            J::U(n) => J::S(n.to_string()),
            other => J::A(vec![other.clone(), other.clone()]),
        },
        _ => rand_json(rng, 2),
    }
}

/// paths to every node
fn paths(j: &J, cur: &mut Vec<usize>, out: &mut Vec<Vec<usize>>) {
    out.push(cur.clone());
    match j {
        J::A(xs) => {
            for (i, x) in xs.iter().enumerate() {
                cur.push(i);
                paths(x, cur, out);
                cur.pop();
            }
        }
        J::O(kvs) => {
            for (i, (_, x)) in kvs.iter().enumerate() {
                cur.push(i);
                paths(x, cur, out);
                cur.pop();
            }
        }
        _ => {}
    }
}

fn node_mut<'a>(j: &'a mut J, path: &[usize]) -> &'a mut J {
    let mut cur = j;
    for &i in path {
        cur = match cur {
            J::A(xs) => &mut xs[i],
            J::O(kvs) => &mut kvs[i].1,
            _ => unreachable!(),
        };
    }
    cur
}

const EXTRA_KEYS: &[&str] = &[
    "extra", "content", "value", "element_tree", "inner_value", "css_selector", "id", "target_hash", "action", "rule_id", "rules_applied", "rule_traces", "log_override", "path_and_query", "path_and_query_v2",
    "redirect_code", "status_code", "Status_code", "filter", "",
];

/// one random mutation; returns its class
fn mutate(rng: &mut Prng, j: &mut J) -> &'static str {
    let mut ps = Vec::new();
    paths(j, &mut Vec::new(), &mut ps);
    // prefer object nodes for the key-level mutations
    let objs: Vec<&Vec<usize>> = ps.iter().filter(|p| matches!(node_ref(j, p), J::O(_))).collect();
    let choice = rng.below(12);
    if choice <= 6 && !objs.is_empty() {
        let p = (*rng.pick(&objs)).clone();
        let node = node_mut(j, &p);
        let kvs = match node {
            J::O(kvs) => kvs,
            _ => unreachable!(),
        };
        match choice {
            0 if !kvs.is_empty() => {
                let i = rng.below(kvs.len());
                kvs.remove(i);
                "drop-key"
            }
            1 if !kvs.is_empty() => {
                // null <-> missing
                let nulls: Vec<usize> = (0..kvs.len()).filter(|&i| kvs[i].1 == J::Null).collect();
                if !nulls.is_empty() && rng.chance(2, 3) {
                    let i = *rng.pick(&nulls);
                    kvs.remove(i);
                    "drop-null-key"
                } else {
                    let i = rng.below(kvs.len());
                    kvs[i].1 = J::Null;
                    "set-null"
                }
            }
            2 => {
                let k = *rng.pick(EXTRA_KEYS);
                let v = rand_json(rng, 2);
                let at = rng.below(kvs.len() + 1);
                kvs.insert(at, (k.to_string(), v));
                "extra-key"
            }
            3 if !kvs.is_empty() => {
                let i = rng.below(kvs.len());
                let (k, v) = kvs[i].clone();
                let v2 = if rng.chance(1, 2) { v } else { wrong_type(rng, &v) };
                let at = rng.below(kvs.len() + 1);
                kvs.insert(at, (k, v2));
                "dup-key"
            }
            4 if kvs.len() > 1 => {
                for i in (1..kvs.len()).rev() {
                    let k = rng.below(i + 1);
                    kvs.swap(i, k);
                }
                "reorder"
            }
            5 if !kvs.is_empty() => {
                // rename a key (case change / alias-looking names)
                let i = rng.below(kvs.len());
                let k = kvs[i].0.clone();
                kvs[i].0 = match rng.below(4) {
                    0 => k.to_uppercase(),
                    1 => format!("{k} "),
                    2 => (*rng.pick(EXTRA_KEYS)).to_string(),
                    _ => k.replace('_', "-"),
                };
                "rename-key"
            }
            _ => {
                // the whole object in positional form, possibly truncated / extended
                let mut xs: Vec<J> = kvs.iter().map(|(_, v)| v.clone()).collect();
                match rng.below(4) {
                    0 => {
                        xs.pop();
                    }
                    1 => xs.push(J::Null),
                    _ => {}
                }
                *node = J::A(xs);
                "positional"
            }
        }
    } else {
        let p = rng.pick(&ps).clone();
        let node = node_mut(j, &p);
        match (choice, &mut *node) {
            (7, J::A(xs)) if !xs.is_empty() => {
                // duplicate / drop / swap elements (sets with duplicates, code lists)
                match rng.below(3) {
                    0 => {
                        let x = xs[rng.below(xs.len())].clone();
                        let at = rng.below(xs.len() + 1);
                        xs.insert(at, x);
                        "arr-dup-elem"
                    }
                    1 => {
                        let i = rng.below(xs.len());
                        xs.remove(i);
                        "arr-drop-elem"
                    }
                    _ => {
                        xs.reverse();
                        "arr-reverse"
                    }
                }
            }
            (8, J::A(xs)) => {
                let v = wrong_type(rng, &J::Null);
                xs.push(v);
                "arr-push-any"
            }
            (9, J::U(n)) => {
                *n = *rng.pick(&[0u64, 65535, 65536, 1u64 << 32, u64::MAX, 404]);
                "num-boundary"
            }
            (10, J::S(s)) => {
                *s = (*rng.pick(STRS)).to_string();
                "str-replace"
            }
            _ => {
                let old = node.clone();
                *node = wrong_type(rng, &old);
                "wrong-type"
            }
        }
    }
}

fn node_ref<'a>(j: &'a J, path: &[usize]) -> &'a J {
    let mut cur = j;
    for &i in path {
        cur = match cur {
            J::A(xs) => &xs[i],
            J::O(kvs) => &kvs[i].1,
            _ => unreachable!(),
        };
    }
    cur
}

/// sub-values of an action / request JSON usable as stand-alone cases of the smaller public types
fn subvalues(j: &J, out: &mut Vec<(&'static str, J)>) {
    if let J::O(kvs) = j {
        for (k, v) in kvs {
            match (k.as_str(), v) {
                ("status_code_update", J::O(_)) => out.push(("status_code_update", v.clone())),
                ("path_and_query", J::O(_)) => out.push(("paq", v.clone())),
                ("rule_traces", J::A(xs)) => xs.iter().for_each(|x| out.push(("rule_trace", x.clone()))),
                ("headers", J::A(xs)) => xs.iter().for_each(|x| out.push(("header", x.clone()))),
                ("header_filters", J::A(xs)) => {
                    for x in xs {
                        if let J::O(f) = x {
                            if let Some((_, f)) = f.iter().find(|(k, _)| k == "filter") {
                                out.push(("header_filter", f.clone()));
                            }
                        }
                    }
                }
                ("body_filters", J::A(xs)) => {
                    for x in xs {
                        if let J::O(f) = x {
                            if let Some((_, f)) = f.iter().find(|(k, _)| k == "filter") {
                                out.push(("body_filter", f.clone()));
                            }
                        }
                    }
                }
                _ => {}
            }
        }
    }
}

/// a spelling of the document other than the canonical one: white space, escape styles, float spellings
fn noisy_str(rng: &mut Prng, s: &str, out: &mut String) {
    out.push('"');
    for ch in s.chars() {
        let n = ch as u32;
        let style = rng.below(8);
        if n < 0x20 || ch == '"' || ch == '\\' || style == 0 {
            // must / may be escaped
            let short = match ch {
                '"' => Some("\\\""),
                '\\' => Some("\\\\"),
                '/' => Some("\\/"),
                '\u{8}' => Some("\\b"),
                '\u{c}' => Some("\\f"),
                '\n' => Some("\\n"),
                '\r' => Some("\\r"),
                '\t' => Some("\\t"),
                _ => None,
            };
            match short {
                Some(e) if rng.chance(2, 3) => out.push_str(e),
                _ => {
                    let mut units = [0u16; 2];
                    for u in ch.encode_utf16(&mut units) {
                        if rng.chance(1, 2) {
                            out.push_str(&format!("\\u{:04x}", u));
                        } else {
                            out.push_str(&format!("\\u{:04X}", u));
                        }
                    }
                }
            }
        } else {
            out.push(ch);
        }
    }
    out.push('"');
}

fn noisy_ws(rng: &mut Prng, out: &mut String) {
    if rng.chance(1, 5) {
        out.push_str(*rng.pick(&[" ", "\n", "\t", "\r", "  ", " \n "]));
    }
}

fn noisy(rng: &mut Prng, j: &J, out: &mut String) {
    noisy_ws(rng, out);
    match j {
        J::S(s) => noisy_str(rng, s, out),
        J::A(xs) => {
            out.push('[');
            for (i, x) in xs.iter().enumerate() {
                if i > 0 {
                    out.push(',');
                }
                noisy(rng, x, out);
            }
            noisy_ws(rng, out);
            out.push(']');
        }
        J::O(kvs) => {
            out.push('{');
            for (i, (k, x)) in kvs.iter().enumerate() {
                if i > 0 {
                    out.push(',');
                }
                noisy_ws(rng, out);
                noisy_str(rng, k, out);
                noisy_ws(rng, out);
                out.push(':');
                noisy(rng, x, out);
            }
            noisy_ws(rng, out);
            out.push('}');
        }
        J::U(n) if rng.chance(1, 40) => out.push_str(&match rng.below(6) {
            0 => format!("{n}.0"),
            1 => format!("{n}e0"),
            2 => format!("{n}E+0"),
            3 => format!("0{n}"),
            4 => format!("-{n}"),
            _ => format!("{n}.5e-1"),
        }),
        other => other.print_into(out),
    }
    noisy_ws(rng, out);
}

const JUNK_STRS: &[&str] = &["\"\\ud800\"", "\"\\udc00\"", "\"a\\uD800b\"", "\"\\ud800\\u0041\"", "\"\\ud800\\ud800\\udc00\"", "\"\\ud83d\\ude00\"", "\"\\udbff\\udfff\"", "\"\\ud800\\n\"", "\"\\ud800\""];
const EDIT_CHARS: &[&str] = &[",", ":", "{", "}", "[", "]", "\"", "\\", "0", "1", "-", ".", "e", "+", " ", "\n", "x", "null", "true", "\u{1}", "\u{7f}", "é", "\\u", "\\u00", "\\x", "//", "\u{feff}", "'", "1e999", "-0", "00", "0.", ".5", "1e", "18446744073709551616", "-9223372036854775809", "-9223372036854775808", "123456789012345678901234567890", "1E5", "2e-3", "0e0", "-", "1.0E+2", "٣", "[]", "{}", "\"\"", "\"k\":"];

/// character-level edits of a document; returns the classes applied
fn text_edits(rng: &mut Prng, text: &mut String, classes: &mut Vec<&'static str>) {
    let n = rng.range(1, 2);
    for _ in 0..n {
        let bounds: Vec<usize> = text.char_indices().map(|(i, _)| i).chain(std::iter::once(text.len())).collect();
        let at = bounds[rng.below(bounds.len())];
        match rng.below(7) {
            0 if at < text.len() => {
                let end = bounds[bounds.iter().position(|&b| b == at).unwrap() + 1];
                text.replace_range(at..end, "");
                classes.push("t-delete-char");
            }
            1 => {
                text.truncate(at);
                classes.push("t-truncate");
            }
            2 => {
                text.insert_str(at, *rng.pick(JUNK_STRS));
                classes.push("t-insert-surrogate-str");
            }
            3 => {
                // turn an existing string token into one with an unpaired surrogate: insert the escape after a quote
                let quotes: Vec<usize> = text.char_indices().filter(|(_, c)| *c == '"').map(|(i, _)| i + 1).collect();
                if !quotes.is_empty() {
                    let q = *rng.pick(&quotes);
                    text.insert_str(q, *rng.pick(&["\\ud800", "\\udfff", "\\ud800\\udc00", "\\u0041"]));
                    classes.push("t-surrogate-in-str");
                }
            }
            4 => {
                // an unknown key whose value can only be skipped (unpaired surrogate): fine for a typed struct,
                // fatal inside the buffered untagged body filter
                let braces: Vec<usize> = text.char_indices().filter(|(_, c)| *c == '{').map(|(i, _)| i + 1).collect();
                if !braces.is_empty() {
                    let q = *rng.pick(&braces);
                    let v = *rng.pick(&["\"\\ud800\"", "[\"\\udc00\"]", "{\"a\":[1,\"x\\uD800\\u0041\"]}", "\"\\ud83d\\ude00\"", "1e5", "[[[[\"\\udfff\"]]]]", "{\"\\ud800k\":1}", "[{\"a\":1,\"\\udc00\":{}}]", "{\"\\ud83d\\ude00\":[]}"]);
                    text.insert_str(q, &format!("\"zz\":{v},"));
                    classes.push("t-junk-unknown-key");
                }
            }
            _ => {
                text.insert_str(at, *rng.pick(EDIT_CHARS));
                classes.push("t-insert");
            }
        }
    }
}

fn emit_text(rng: &mut Prng, emit: &mut dyn FnMut(Value), ty: &str, j: &J, base_classes: &[&'static str], atoms_from: &J) -> usize {
    let mut text = String::new();
    let mut classes: Vec<&'static str> = base_classes.to_vec();
    if rng.chance(1, 6) {
        text = j.print();
    } else {
        noisy(rng, j, &mut text);
        classes.push("t-noisy");
    }
    if rng.chance(2, 5) {
        text_edits(rng, &mut text, &mut classes);
    }
    let _ = atoms_from;
    let atoms = if ty == "request" { atoms_of_strings(strings_of_text(&text)) } else { Value::Null };
    emit(json!({"k": "de", "ty": ty, "text": text, "atoms": atoms, "mut": classes}));
    emit(json!({"k": "parse", "text": text, "mut": classes}));
    2
}

fn emit_de(emit: &mut dyn FnMut(Value), ty: &str, j: &J, muts: &[&str]) {
    emit(json!({"k": "de", "ty": ty, "j": j.tagged(), "atoms": if ty == "request" { atoms_of(j) } else { Value::Null }, "mut": muts}));
}

fn body_filter_enumeration(emit: &mut dyn FnMut(Value)) {
    // exhaustive small scope for the untagged union: every key absent / null / valid / wrong-typed
    let keys: &[(&str, &[Option<J>])] = &[
        ("action", &[None, Some(J::S("append_text".into())), Some(J::S("append_child".into())), Some(J::O(vec![("replace_text".into(), J::Null)])), Some(J::U(1))]),
        ("content", &[None, Some(J::Null), Some(J::S("c".into())), Some(J::U(1))]),
        ("value", &[None, Some(J::Null), Some(J::S("v".into()))]),
        ("element_tree", &[None, Some(J::Null), Some(J::A(vec![J::S("p".into())])), Some(J::A(vec![J::U(1)]))]),
        ("inner_value", &[None, Some(J::Null), Some(J::S("i".into())), Some(J::U(1))]),
        ("id", &[None, Some(J::S("u".into())), Some(J::Bool(true))]),
    ];
    let mut idx = vec![0usize; keys.len()];
    loop {
        let mut kvs = Vec::new();
        for (i, (k, vals)) in keys.iter().enumerate() {
            if let Some(v) = &vals[idx[i]] {
                kvs.push((k.to_string(), v.clone()));
            }
        }
        emit(json!({"k": "de", "ty": "body_filter", "j": J::O(kvs).tagged(), "atoms": null, "mut": ["enum"], "exh": true}));
        let mut i = 0;
        loop {
            if i == keys.len() {
                return;
            }
            idx[i] += 1;
            if idx[i] < keys[i].1.len() {
                break;
            }
            idx[i] = 0;
            i += 1;
        }
    }
}


// ------------------------------------------------------------------------------------------------
// boundary values of every field, and diff-directed hint cases
// ------------------------------------------------------------------------------------------------

const BASE_ACTION: &str = r#"{"status_code_update":{"status_code":302,"on_response_status_codes":[404,410],"exclude_response_status_codes":false,"fallback_status_code":301,"rule_id":"r2","fallback_rule_id":"r1","unit_id":"u1","target_hash":"status_code"},"header_filters":[{"filter":{"action":"override","header":"Location","value":"/t","id":"u1","target_hash":"h1"},"on_response_status_codes":[404],"exclude_response_status_codes":true,"rule_id":"r2"},{"filter":{"action":"add","header":"X-A","value":"1","id":null,"target_hash":null},"on_response_status_codes":[],"exclude_response_status_codes":false,"rule_id":"r1"}],"body_filters":[{"filter":{"action":"append_text","content":"tail","id":"u3","target_hash":"h3"},"on_response_status_codes":[],"exclude_response_status_codes":false,"rule_id":"r1"},{"filter":{"action":"append_child","value":"<b>v</b>","inner_value":"<i>in</i>","element_tree":["html","body"],"css_selector":"div.c","id":"u2","target_hash":"h2"},"on_response_status_codes":[200],"exclude_response_status_codes":true,"rule_id":"r2"}],"rule_ids":["r1","r2"],"rule_traces":[{"id":"r1","on_response_status_codes":[],"exclude_response_status_codes":false},{"id":"r2","on_response_status_codes":[404,410],"exclude_response_status_codes":true}],"rules_applied":["r2"],"log_override":{"log_override":false,"rule_id":"r2","on_response_status_codes":[500],"exclude_response_status_codes":false,"fallback_log_override":true,"fallback_rule_id":"r1","unit_id":"u4"}}"#;

const BASE_REQUEST: &str = r#"{"path_and_query":{"path_and_query":"/x?a=1","path_and_query_matching":"/x?a=1","skipped_query_params":"utm_source=b","original":"/x?a=1&utm_source=b"},"path_and_query_v2":"/x?a=1&utm_source=b","host":"example.org","scheme":"https","method":"GET","headers":[{"name":"X-A","value":"1"},{"name":"x-a","value":"2"}],"remote_addr":"10.1.2.3","created_at":"2024-01-02T03:04:05.123Z","sampling_override":true}"#;

/// every textual family of an address (canonical ones are read by the model's concrete reader, the others by the oracle)
const IP_FAMILIES: &[&str] = &[
    "10.1.2.3", "0.0.0.0", "255.255.255.255", "::", "::1", "1::", "::ffff:10.1.2.3", "::ffff:0.0.0.0", "::ffff:a01:203", "::10.1.2.3", "2001:db8::1", "2001:db8:0:0:1:0:0:1",
    "2001:0db8:0000:0000:0000:0000:0000:0001", "2001:DB8::1", "1:2:3:4:5:6:7:8", "1:0:0:2:0:0:0:3", "0:0:1::", "fe80::1%eth0", "10.1.2.3:80", "[::1]:80", "[::1]", " 10.1.2.3", "10.1.2.3 ",
    "010.1.2.3", "10.1.2", "10.1.2.3.4", "10.1.2.256", "::ffff:10.1.2.3:80", "1::2::3", ":::", "",
];

const DT_FAMILIES: &[&str] = &[
    "2024-01-02T03:04:05Z", "2024-01-02T03:04:05.1Z", "2024-01-02T03:04:05.12Z", "2024-01-02T03:04:05.123Z", "2024-01-02T03:04:05.1234Z", "2024-01-02T03:04:05.123456Z", "2024-01-02T03:04:05.123456789Z",
    "2024-01-02T03:04:05.1234567891Z", "2024-01-02T03:04:05.000Z", "2024-01-02T03:04:05+00:00", "2024-01-02T03:04:05+01:00", "2024-01-02T03:04:05-01:30", "2024-01-02T03:04:05.5+14:00", "2024-01-02T03:04:05+0100",
    "2024-01-02 03:04:05Z", "2024-01-02t03:04:05z", "2024-01-02T03:04:60Z", "2024-02-30T00:00:00Z", "2024-01-02T24:00:00Z", "+12024-01-02T03:04:05Z", "-0001-12-31T23:59:59.999999999Z", "2024-01-02T03:04:05", "2024-01-02",
];

fn set_path(j: &mut J, path: &[&str], v: J) -> bool {
    if path.is_empty() {
        *j = v;
        return true;
    }
    match j {
        J::O(kvs) => {
            for (k, x) in kvs.iter_mut() {
                if k == path[0] {
                    return set_path(x, &path[1..], v);
                }
            }
            false
        }
        J::A(xs) => match path[0].parse::<usize>() {
            Ok(i) if i < xs.len() => set_path(&mut xs[i], &path[1..], v),
            _ => false,
        },
        _ => false,
    }
}

fn drop_path(j: &mut J, path: &[&str]) -> bool {
    if path.len() == 1 {
        if let J::O(kvs) = j {
            let n = kvs.len();
            kvs.retain(|(k, _)| k != path[0]);
            return kvs.len() != n;
        }
        return false;
    }
    match j {
        J::O(kvs) => kvs.iter_mut().find(|(k, _)| k == path[0]).map(|(_, x)| drop_path(x, &path[1..])).unwrap_or(false),
        J::A(xs) => path[0].parse::<usize>().ok().and_then(|i| xs.get_mut(i)).map(|x| drop_path(x, &path[1..])).unwrap_or(false),
        _ => false,
    }
}

fn strs(xs: &[&str]) -> J {
    J::A(xs.iter().map(|x| J::S((*x).to_string())).collect())
}

fn nums(xs: &[u64]) -> J {
    J::A(xs.iter().map(|x| J::U(*x)).collect())
}

/// (path, boundary values) for every Option / Vec / bool field of every serialised struct of an action
fn action_slots() -> Vec<(Vec<&'static str>, Vec<J>)> {
    let os = |s: &str| vec![J::Null, J::S(String::new()), J::S(s.to_string())];
    let ob = || vec![J::Null, J::Bool(false), J::Bool(true)];
    let bb = || vec![J::Bool(false), J::Bool(true)];
    let codes = || vec![nums(&[]), nums(&[404]), nums(&[0]), nums(&[65535]), nums(&[404, 404]), nums(&[200, 301, 404])];
    let mut v: Vec<(Vec<&'static str>, Vec<J>)> = Vec::new();
    v.push((vec!["status_code_update"], vec![J::Null]));
    for f in ["status_code", "fallback_status_code"] {
        v.push((vec!["status_code_update", f], vec![J::U(0), J::U(1), J::U(200), J::U(301), J::U(65535)]));
    }
    v.push((vec!["status_code_update", "on_response_status_codes"], codes()));
    v.push((vec!["status_code_update", "exclude_response_status_codes"], bb()));
    for f in ["rule_id", "fallback_rule_id", "unit_id", "target_hash"] {
        v.push((vec!["status_code_update", f], os("x")));
    }
    v.push((vec!["header_filters"], vec![J::A(vec![])]));
    v.push((vec!["body_filters"], vec![J::A(vec![])]));
    for (list, n) in [("header_filters", 2usize), ("body_filters", 2)] {
        for i in ["0", "1"].iter().take(n) {
            v.push((vec![list, i, "on_response_status_codes"], codes()));
            v.push((vec![list, i, "exclude_response_status_codes"], bb()));
            v.push((vec![list, i, "rule_id"], os("x")));
            v.push((vec![list, i, "filter", "id"], os("x")));
            v.push((vec![list, i, "filter", "target_hash"], os("x")));
        }
    }
    v.push((vec!["body_filters", "1", "filter", "inner_value"], os("<i>x</i>")));
    v.push((vec!["body_filters", "1", "filter", "css_selector"], os("p")));
    v.push((vec!["body_filters", "1", "filter", "element_tree"], vec![strs(&[]), strs(&["p"]), strs(&["html", "body", "div"]), strs(&[""])]));
    v.push((vec!["body_filters", "1", "filter", "action"], vec![J::S("prepend_child".into()), J::S("replace".into()), J::S("append_text".into()), J::S(String::new())]));
    v.push((vec!["body_filters", "0", "filter", "action"], vec![J::S("prepend_text".into()), J::S("replace_text".into())]));
    v.push((vec!["body_filters", "0", "filter", "content"], vec![J::S(String::new())]));
    v.push((vec!["rule_ids"], vec![strs(&[]), strs(&["a"]), strs(&["a", "b", "c"])]));
    v.push((vec!["rules_applied"], vec![strs(&[]), strs(&["a"]), strs(&["r1", "r2"])]));
    v.push((vec!["rule_traces"], vec![J::A(vec![])]));
    for i in ["0", "1"] {
        v.push((vec!["rule_traces", i, "on_response_status_codes"], codes()));
        v.push((vec!["rule_traces", i, "exclude_response_status_codes"], bb()));
    }
    v.push((vec!["log_override"], vec![J::Null]));
    v.push((vec!["log_override", "log_override"], bb()));
    v.push((vec!["log_override", "fallback_log_override"], ob()));
    v.push((vec!["log_override", "on_response_status_codes"], codes()));
    v.push((vec!["log_override", "exclude_response_status_codes"], bb()));
    for f in ["rule_id", "fallback_rule_id", "unit_id"] {
        v.push((vec!["log_override", f], os("x")));
    }
    v
}

fn request_slots() -> Vec<(Vec<&'static str>, Vec<J>)> {
    let os = |s: &str| vec![J::Null, J::S(String::new()), J::S(s.to_string())];
    let mut v: Vec<(Vec<&'static str>, Vec<J>)> = Vec::new();
    v.push((vec!["path_and_query", "path_and_query_matching"], os("/X?A=1")));
    v.push((vec!["path_and_query", "skipped_query_params"], os("utm_medium=c")));
    v.push((vec!["path_and_query", "path_and_query"], vec![J::S(String::new())]));
    v.push((vec!["path_and_query", "original"], vec![J::S(String::new())]));
    v.push((vec!["path_and_query_v2"], os("/y")));
    v.push((vec!["host"], os("EXAMPLE.org")));
    v.push((vec!["scheme"], os("http")));
    v.push((vec!["method"], os("POST")));
    v.push((vec!["headers"], vec![J::A(vec![]), J::A(vec![J::O(vec![("name".into(), J::S("Host".into())), ("value".into(), J::S(String::new()))])])]));
    v.push((vec!["sampling_override"], vec![J::Null, J::Bool(false), J::Bool(true)]));
    v.push((vec!["remote_addr"], std::iter::once(J::Null).chain(IP_FAMILIES.iter().map(|s| J::S((*s).to_string()))).collect()));
    v.push((vec!["created_at"], std::iter::once(J::Null).chain(DT_FAMILIES.iter().map(|s| J::S((*s).to_string()))).collect()));
    v
}

fn emit_value(emit: &mut dyn FnMut(Value), ty: &str, j: &J, tag: &str) {
    // as a `de` case (model vs from_str) and, when it is an action, through every round-trip / behaviour oracle
    emit_de(emit, ty, j, &[tag]);
    if ty == "action" {
        emit(json!({"k": "action", "j": j.tagged(), "src": [], "probe": {"codes": [0, 200, 404], "headers": [["Content-Type", "text/html"]], "bodies": ["<html><body><div class=\"c\">x</div><p>y</p></body></html>"]}}));
    } else if ty == "request" {
        emit(json!({"k": "request", "j": j.tagged(), "src": [], "atoms": atoms_of(j)}));
    }
}

/// one case per boundary value of every Option / Vec / bool field (present, `null`, absent), cheap and always emitted
fn boundary_cases(emit: &mut dyn FnMut(Value)) {
    for (ty, base, slots) in [("action", BASE_ACTION, action_slots()), ("request", BASE_REQUEST, request_slots())] {
        let base = J::parse(base).unwrap();
        emit_value(emit, ty, &base, "boundary:base");
        for (path, alts) in &slots {
            for alt in alts {
                let mut j = base.clone();
                if set_path(&mut j, path, alt.clone()) {
                    emit_value(emit, ty, &j, "boundary:value");
                }
            }
            let mut j = base.clone();
            if drop_path(&mut j, path) {
                emit_de(emit, ty, &j, &["boundary:absent"]);
            }
        }
    }
}

/// all key paths of a value (object keys and array indices as strings)
fn key_paths(j: &J, cur: &mut Vec<String>, out: &mut Vec<Vec<String>>) {
    match j {
        J::O(kvs) => {
            for (k, x) in kvs {
                cur.push(k.clone());
                out.push(cur.clone());
                key_paths(x, cur, out);
                cur.pop();
            }
        }
        J::A(xs) => {
            for (i, x) in xs.iter().enumerate() {
                cur.push(i.to_string());
                key_paths(x, cur, out);
                cur.pop();
            }
        }
        _ => {}
    }
}

fn with_parent<'a>(j: &'a mut J, path: &[String]) -> Option<&'a mut Vec<(String, J)>> {
    let mut cur = j;
    for p in &path[..path.len() - 1] {
        cur = match cur {
            J::O(kvs) => &mut kvs.iter_mut().find(|(k, _)| k == p)?.1,
            J::A(xs) => xs.get_mut(p.parse::<usize>().ok()?)?,
            _ => return None,
        };
    }
    match cur {
        J::O(kvs) => Some(kvs),
        _ => None,
    }
}

/// diff-directed cases: the numbers and strings mentioned by the changed source lines
fn hint_cases(h: &Hints, emit: &mut dyn FnMut(Value)) {
    let bases = [("action", J::parse(BASE_ACTION).unwrap(), action_slots()), ("request", J::parse(BASE_REQUEST).unwrap(), request_slots())];
    // ---- numbers: status codes, list lengths, nesting
    let mut codes: Vec<u64> = Vec::new();
    for n in &h.nums {
        for d in [-1i64, 0, 1] {
            let v = *n as i64 + d;
            if v >= 0 && !codes.contains(&(v as u64)) {
                codes.push(v as u64);
            }
        }
    }
    let (_, abase, _) = &bases[0];
    for c in &codes {
        for path in [vec!["status_code_update", "status_code"], vec!["status_code_update", "fallback_status_code"]] {
            let mut j = abase.clone();
            set_path(&mut j, &path, J::U(*c));
            emit_value(emit, "action", &j, "hint:code");
        }
        for path in [vec!["status_code_update", "on_response_status_codes"], vec!["log_override", "on_response_status_codes"], vec!["header_filters", "0", "on_response_status_codes"],
                     vec!["body_filters", "1", "on_response_status_codes"], vec!["rule_traces", "1", "on_response_status_codes"]] {
            for excl in [false, true] {
                let mut j = abase.clone();
                set_path(&mut j, &path, nums(&[*c]));
                let mut ep = path.clone();
                ep.pop();
                ep.push("exclude_response_status_codes");
                set_path(&mut j, &ep, J::Bool(excl));
                if *c <= 65535 {
                    // the hinted number is also the probed response code
                    emit_de(emit, "action", &j, &["hint:code-list"]);
                    emit(json!({"k": "action", "j": j.tagged(), "src": [], "probe": {"codes": [*c, c.saturating_sub(1), (*c + 1).min(65535)], "headers": [["Content-Type", "text/html"]], "bodies": ["<html><body><p>y</p></body></html>"]}}));
                } else {
                    emit_de(emit, "action", &j, &["hint:code-list"]);
                }
            }
        }
    }
    for k in h.sizes(40) {
        let ids: Vec<String> = (0..k).map(|i| format!("r{i}")).collect();
        let idrefs: Vec<&str> = ids.iter().map(|s| s.as_str()).collect();
        for path in [vec!["rule_ids"], vec!["rules_applied"], vec!["body_filters", "1", "filter", "element_tree"]] {
            let mut j = abase.clone();
            set_path(&mut j, &path, strs(&idrefs));
            emit_value(emit, "action", &j, "hint:len");
        }
        let mut j = abase.clone();
        set_path(&mut j, &["status_code_update", "on_response_status_codes"], nums(&(0..k as u64).map(|i| 400 + i).collect::<Vec<u64>>()));
        emit_value(emit, "action", &j, "hint:len");
        for list in ["header_filters", "body_filters", "rule_traces"] {
            let mut j = abase.clone();
            if let J::O(kvs) = &mut j {
                for (key, x) in kvs.iter_mut() {
                    if key == list {
                        if let J::A(xs) = x {
                            let first = xs[xs.len() - 1].clone();
                            *xs = (0..k).map(|_| first.clone()).collect();
                        }
                    }
                }
            }
            emit_value(emit, "action", &j, "hint:len");
        }
        let (_, rbase, _) = &bases[1];
        let mut j = rbase.clone();
        set_path(&mut j, &["headers"], J::A((0..k).map(|i| J::O(vec![("name".into(), J::S(format!("X-{i}"))), ("value".into(), J::S("v".into()))])).collect()));
        emit_value(emit, "request", &j, "hint:len");
    }
    for d in h.sizes(300) {
        let mut v = J::U(1);
        for _ in 0..d {
            v = J::A(vec![v]);
        }
        let mut j = abase.clone();
        if let J::O(kvs) = &mut j {
            kvs.push(("extra".into(), v.clone()));
        }
        emit_de(emit, "action", &j, &["hint:depth"]);
        let mut j = abase.clone();
        if let Some(kvs) = with_parent(&mut j, &["body_filters".to_string(), "0".to_string(), "filter".to_string(), "x".to_string()]) {
            kvs.push(("extra".into(), v));
        }
        emit_de(emit, "action", &j, &["hint:depth"]);
    }
    // ---- strings: as keys (drop / null / rename / duplicate / boundary values of exactly that field) and as values
    for s in &h.strs {
        let variants: Vec<String> = {
            let mut v = vec![s.clone(), s.to_uppercase(), s.to_lowercase(), format!(" {s}"), format!("{s} ")];
            v.dedup();
            v
        };
        for (ty, base, slots) in &bases {
            let mut paths = Vec::new();
            key_paths(base, &mut Vec::new(), &mut paths);
            let hits: Vec<&Vec<String>> = paths.iter().filter(|p| p.last().map(|k| k == s).unwrap_or(false)).collect();
            for path in &hits {
                let pr: Vec<&str> = path.iter().map(|x| x.as_str()).collect();
                // absent, null
                let mut j = base.clone();
                drop_path(&mut j, &pr);
                emit_de(emit, ty, &j, &["hint:key-absent"]);
                let mut j = base.clone();
                set_path(&mut j, &pr, J::Null);
                emit_value(emit, ty, &j, "hint:key-null");
                // renamed / duplicated
                for new_key in [s.to_uppercase(), format!("{s}_"), s.replace('_', "-")] {
                    let mut j = base.clone();
                    if let Some(kvs) = with_parent(&mut j, path) {
                        for (k, _) in kvs.iter_mut() {
                            if k == s {
                                *k = new_key.clone();
                            }
                        }
                    }
                    emit_de(emit, ty, &j, &["hint:key-renamed"]);
                }
                let mut j = base.clone();
                if let Some(kvs) = with_parent(&mut j, path) {
                    if let Some(e) = kvs.iter().find(|(k, _)| k == s).cloned() {
                        kvs.push(e.clone());
                        kvs.insert(0, (e.0, J::Null));
                    }
                }
                emit_de(emit, ty, &j, &["hint:key-duplicated"]);
                // every boundary value of exactly that field
                for (sp, alts) in slots.iter() {
                    if sp.len() == pr.len() && sp.iter().zip(pr.iter()).all(|(a, b)| a == b) {
                        for alt in alts {
                            let mut j = base.clone();
                            set_path(&mut j, &pr, alt.clone());
                            emit_value(emit, ty, &j, "hint:key-boundary");
                        }
                    }
                }
            }
            // as an unknown key next to the known ones, and as the value of every string field
            let mut j = base.clone();
            if let J::O(kvs) = &mut j {
                kvs.insert(0, (s.clone(), J::S(s.clone())));
            }
            emit_value(emit, ty, &j, "hint:extra-key");
            for path in &paths {
                let pr: Vec<&str> = path.iter().map(|x| x.as_str()).collect();
                if matches!(node_at(base, &pr), Some(J::S(_))) {
                    for v in &variants {
                        let mut j = base.clone();
                        set_path(&mut j, &pr, J::S(v.clone()));
                        emit_value(emit, ty, &j, "hint:value");
                    }
                }
            }
        }
        // as (part of) an address / instant text
        let (_, rbase, _) = &bases[1];
        for text in [s.clone(), format!("::ffff:{s}"), format!("{s}:80"), format!("[{s}]"), format!("[{s}]:80"), format!(" {s}"), format!("{s} "), format!("{s}%eth0"), format!("::{s}"), format!("{s}::")] {
            let mut j = rbase.clone();
            set_path(&mut j, &["remote_addr"], J::S(text.clone()));
            emit_de(emit, "request", &j, &["hint:ip-text"]);
            let mut j = rbase.clone();
            set_path(&mut j, &["created_at"], J::S(text));
            emit_de(emit, "request", &j, &["hint:dt-text"]);
        }
    }
    // ---- always in hint mode: every address / instant family once more on the request with all options set / unset
    let (_, rbase, _) = &bases[1];
    for ip in IP_FAMILIES {
        for dt in ["2024-01-02T03:04:05.5+01:00", "2024-01-02T03:04:05Z"] {
            let mut j = rbase.clone();
            set_path(&mut j, &["remote_addr"], J::S((*ip).to_string()));
            set_path(&mut j, &["created_at"], J::S(dt.to_string()));
            emit_de(emit, "request", &j, &["hint:families"]);
        }
    }
}

fn node_at<'a>(j: &'a J, path: &[&str]) -> Option<&'a J> {
    let mut cur = j;
    for p in path {
        cur = match cur {
            J::O(kvs) => &kvs.iter().find(|(k, _)| k == p)?.1,
            J::A(xs) => xs.get(p.parse::<usize>().ok()?)?,
            _ => return None,
        };
    }
    Some(cur)
}

fn gen(args: &Args, emit: &mut dyn FnMut(Value)) {
    let mut rng = Prng::new(args.seed);
    // diff-directed cases first (empty on the unchanged tree), then one case per boundary value of every field
    let h = hints();
    if !h.is_empty() {
        hint_cases(&h, emit);
    }
    boundary_cases(emit);
    if args.tier == "thorough" {
        body_filter_enumeration(emit);
    }
    // deep nesting at the recursion limit of serde_json (127 accepted, 128 rejected), inside an ignored field
    for d in [126usize, 127, 128, 129] {
        let mut v = J::U(1);
        for _ in 0..d {
            v = J::A(vec![v]);
        }
        let j = J::O(vec![("name".into(), J::S("n".into())), ("extra".into(), v), ("value".into(), J::S("v".into()))]);
        emit_de(emit, "header", &j, &["depth"]);
    }
    // the same limit does bite inside the (buffered) untagged body filter, stand-alone and inside an action
    let nest = |d: usize| {
        let mut v = J::U(1);
        for _ in 0..d {
            v = J::A(vec![v]);
        }
        v
    };
    for d in [100usize, 122, 123, 124, 125, 126, 127, 128, 200] {
        let f = J::O(vec![("action".into(), J::S("append_text".into())), ("content".into(), J::S("c".into())), ("x".into(), nest(d))]);
        emit_de(emit, "body_filter", &f, &["depth"]);
        let fa = J::O(vec![("filter".into(), f.clone()), ("on_response_status_codes".into(), J::A(vec![])), ("exclude_response_status_codes".into(), J::Bool(false))]);
        let a = J::O(vec![("header_filters".into(), J::A(vec![])), ("body_filters".into(), J::A(vec![fa.clone()])), ("rule_ids".into(), J::A(vec![])), ("y".into(), nest(d))]);
        emit_de(emit, "action", &a, &["depth"]);
        // positional forms nest the same way
        let fa_pos = J::A(vec![f.clone(), J::A(vec![]), J::Bool(false), J::Null]);
        let a_pos = J::A(vec![J::Null, J::A(vec![]), J::A(vec![fa_pos]), J::A(vec![]), J::A(vec![]), J::A(vec![]), J::Null]);
        emit_de(emit, "action", &a_pos, &["depth"]);
        let hf = J::O(vec![("action".into(), J::S("add".into())), ("header".into(), J::S("h".into())), ("value".into(), J::S("v".into())), ("x".into(), nest(d))]);
        emit_de(emit, "header_filter", &hf, &["depth"]);
    }
    let mut made = 0usize;
    while made < args.n {
        let is_request = rng.chance(1, 4);
        let (ty, j, case) = if is_request {
            let cfg = gen_cfg(&mut rng);
            let spec = gen_req_spec(&mut rng, false);
            let cfg_t: RouterConfig = serde_json::from_value(cfg.clone()).unwrap();
            let q = match build_request(&cfg_t, &spec) {
                Ok(q) => q,
                Err(_) => continue,
            };
            let j = J::parse(&serde_json::to_string(&q).unwrap()).unwrap();
            let case = json!({"k": "request", "j": j.tagged(), "src": [{"cfg": cfg, "req": spec}], "atoms": atoms_of(&j), "router": gen_router_rules(&mut rng, &spec)});
            ("request", j, case)
        } else {
            let src = gen_action_src(&mut rng);
            let a = match build_action(&src) {
                Ok(a) => a,
                Err(_) => continue,
            };
            let j = J::parse(&serde_json::to_string(&a).unwrap()).unwrap();
            let nh = rng.below(4);
            let mut headers: Vec<Value> = (0..nh).map(|_| json!([*rng.pick(&["X-A", "x-a", "Location", "Set-Cookie", "Keep"]), *rng.pick(STRS)])).collect();
            match rng.below(4) {
                0 => headers.push(json!(["Content-Type", "text/html; charset=utf-8"])),
                1 => headers.push(json!(["content-type", "application/json"])),
                _ => {}
            }
            let probe = json!({"codes": [rng.below(600)], "headers": headers,
                "bodies": [*rng.pick(&["<html><head><title>t</title></head><body><div class=\"c\">x</div><p>y</p></body></html>", "plain text", "", "<html><body><p>é</p></body></html>"])]});
            let case = json!({"k": "action", "j": j.tagged(), "src": [src], "probe": probe});
            ("action", j, case)
        };
        emit(case);
        made += 1;
        // the value itself through `de` (accept, identical text), then mutants of it and of its parts
        emit_de(emit, ty, &j, &["none"]);
        made += 1;
        let mut subs = Vec::new();
        subvalues(&j, &mut subs);
        let nm = rng.range(2, 5);
        for _ in 0..nm {
            let mut m = j.clone();
            let k = rng.range(1, 2);
            let mut classes = Vec::new();
            for _ in 0..k {
                classes.push(mutate(&mut rng, &mut m));
            }
            emit_de(emit, ty, &m, &classes);
            made += 1;
            if rng.chance(1, 3) {
                made += emit_text(&mut rng, emit, ty, &m, &classes, &m);
            }
        }
        made += emit_text(&mut rng, emit, ty, &j, &["none"], &j);
        if rng.chance(1, 3) {
            // a document that has nothing to do with the types: the reader against serde_json's on arbitrary JSON
            let r = rand_json(&mut rng, 3);
            let mut text = String::new();
            let mut classes: Vec<&'static str> = vec!["random-json"];
            noisy(&mut rng, &r, &mut text);
            if rng.chance(1, 2) {
                text_edits(&mut rng, &mut text, &mut classes);
            }
            emit(json!({"k": "parse", "text": text, "mut": classes}));
            made += 1;
        }
        if !subs.is_empty() {
            for _ in 0..rng.range(1, 3) {
                let (sty, sj) = rng.pick(&subs).clone();
                let mut m = sj.clone();
                let mut classes = Vec::new();
                if sty == "body_filter" && rng.chance(1, 3) {
                    // make the object fit both variants of the untagged union (the order of the variants decides)
                    if let J::O(kvs) = &mut m {
                        let is_text = kvs.iter().any(|(k, _)| k == "content");
                        if is_text {
                            let at = rng.below(kvs.len() + 1);
                            kvs.insert(at, ("value".into(), J::S("v".into())));
                            let at = rng.below(kvs.len() + 1);
                            kvs.insert(at, ("element_tree".into(), J::A(vec![J::S("p".into())])));
                        } else {
                            for (k, v) in kvs.iter_mut() {
                                if k == "action" {
                                    *v = match rng.below(3) {
                                        0 => J::S((*rng.pick(TEXT_ACTIONS)).into()),
                                        1 => J::O(vec![((*rng.pick(TEXT_ACTIONS)).into(), J::Null)]),
                                        _ => v.clone(),
                                    };
                                }
                            }
                            let at = rng.below(kvs.len() + 1);
                            kvs.insert(at, ("content".into(), J::S("c".into())));
                            if rng.chance(1, 4) {
                                let at = rng.below(kvs.len() + 1);
                                kvs.insert(at, ("content".into(), J::S("d".into())));
                            }
                        }
                    }
                    classes.push("fit-both");
                } else if rng.chance(4, 5) {
                    classes.push(mutate(&mut rng, &mut m));
                } else {
                    classes.push("none");
                }
                emit_de(emit, sty, &m, &classes);
                made += 1;
            }
        }
    }
}

fn exp() {
    fn show<T: serde::de::DeserializeOwned + serde::Serialize>(label: &str, text: &str) {
        match serde_json::from_str::<T>(text) {
            Ok(v) => println!("{label}: {text}\n   -> OK {}", serde_json::to_string(&v).unwrap()),
            Err(e) => println!("{label}: {text}\n   -> ERR {e}"),
        }
    }
    show::<Action>("array7", r#"[null,[],[],[],[],[],null]"#);
    show::<Action>("array4", r#"[null,[],[],[]]"#);
    show::<Action>("array6", r#"[null,[],[],[],[],[]]"#);
    show::<Action>("array8", r#"[null,[],[],[],[],[],null,1]"#);
    show::<Action>("minimal", r#"{"header_filters":[],"body_filters":[],"rule_ids":[]}"#);
    show::<Action>("set-dups", r#"{"header_filters":[],"body_filters":[],"rule_ids":["a","b","a"]}"#);
    show::<Action>("set-null", r#"{"header_filters":[],"body_filters":[],"rule_ids":null}"#);
    show::<Action>("dup-key", r#"{"header_filters":[],"header_filters":[],"body_filters":[],"rule_ids":[]}"#);
    show::<Action>("dup-unknown", r#"{"x":1,"x":2,"header_filters":[],"body_filters":[],"rule_ids":[]}"#);
    show::<Action>("dup-key-after-error?", r#"{"header_filters":[],"body_filters":[],"rule_ids":[],"log_override":null,"log_override":null}"#);
    show::<BodyFilter>("text", r#"{"action":"append_text","content":"c"}"#);
    show::<BodyFilter>("text-variant-map", r#"{"action":{"append_text":null},"content":"c"}"#);
    show::<BodyFilter>("text-variant-map1", r#"{"action":{"append_text":1},"content":"c"}"#);
    show::<BodyFilter>("text-variant-map-empty", r#"{"action":{"append_text":{}},"content":"c"}"#);
    show::<BodyFilter>("text-variant-map-arr", r#"{"action":{"append_text":[]},"content":"c"}"#);
    show::<BodyFilter>("text-variant-2keys", r#"{"action":{"append_text":null,"x":null},"content":"c"}"#);
    show::<BodyFilter>("html-as-text-action", r#"{"action":"append_text","value":"v","element_tree":[]}"#);
    show::<BodyFilter>("both", r#"{"action":"append_text","content":"c","value":"v","element_tree":[]}"#);
    show::<BodyFilter>("dup-content", r#"{"action":"append_text","content":"c","content":"d","value":"v","element_tree":[]}"#);
    show::<BodyFilter>("text-seq", r#"["append_text","c",null,null]"#);
    show::<BodyFilter>("text-seq3", r#"["append_text","c",null]"#);
    show::<BodyFilter>("html-seq", r#"["append_text","v",null,["p"],null,null,null]"#);
    show::<BodyFilter>("null", r#"null"#);
    show::<redirectionio::action::StatusCodeUpdate>("u16", r#"{"status_code":65535,"on_response_status_codes":[0,65535],"exclude_response_status_codes":false,"fallback_status_code":0}"#);
    show::<redirectionio::action::StatusCodeUpdate>("u16-over", r#"{"status_code":65536,"on_response_status_codes":[],"exclude_response_status_codes":false,"fallback_status_code":0}"#);
    show::<redirectionio::action::StatusCodeUpdate>("u16-neg", r#"{"status_code":-1,"on_response_status_codes":[],"exclude_response_status_codes":false,"fallback_status_code":0}"#);
    show::<redirectionio::action::StatusCodeUpdate>("u16-float", r#"{"status_code":1.0,"on_response_status_codes":[],"exclude_response_status_codes":false,"fallback_status_code":0}"#);
    show::<redirectionio::action::StatusCodeUpdate>("u16-exp", r#"{"status_code":1e2,"on_response_status_codes":[],"exclude_response_status_codes":false,"fallback_status_code":0}"#);
    show::<redirectionio::action::StatusCodeUpdate>("u16-negzero", r#"{"status_code":-0,"on_response_status_codes":[],"exclude_response_status_codes":false,"fallback_status_code":0}"#);
    show::<redirectionio::action::StatusCodeUpdate>("bool-null", r#"{"status_code":1,"on_response_status_codes":[],"exclude_response_status_codes":null,"fallback_status_code":0}"#);
    show::<redirectionio::action::StatusCodeUpdate>("vec-null", r#"{"status_code":1,"on_response_status_codes":null,"exclude_response_status_codes":true,"fallback_status_code":0}"#);
    show::<Header>("header-str", r#""x""#);
    show::<Request>("request-min", r#"{"path_and_query":{"path_and_query":"/","original":"/"},"headers":[]}"#);
    show::<Request>("request-ip", r#"{"path_and_query":{"path_and_query":"/","original":"/"},"headers":[],"remote_addr":"2001:0db8::0001","created_at":"2024-01-02T03:04:05+01:00","sampling_override":true}"#);
    for s in IP_TEXTS {
        println!("ip {s:?} -> {:?}", ip_canon(s));
    }
    for s in DATE_TEXTS.iter().chain(DATES) {
        println!("dt {s:?} -> {:?}", dt_canon(s));
    }
    println!("J of 18446744073709551616: {:?}", J::parse("18446744073709551616"));
    println!("J of -0: {:?}", J::parse("-0"));
    println!("J of -9223372036854775809: {:?}", J::parse("-9223372036854775809"));
    println!("J dup: {:?}", J::parse(r#"{"a":1,"a":2,"b":{"c":[1.5,"x"]}}"#));
}

fn main() {
    if std::env::args().nth(1).as_deref() == Some("exp") {
        exp();
        return;
    }
    main_with(gen, run);
}
