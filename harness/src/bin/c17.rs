//! C17 — the explain trace agrees with matching: implementation side of the correspondence.
//! case: {"cfg":{..}, "rules":[.. each optionally with "act":{..}], "reqs":[..]}  (format: src/router_gen.rs)
//! The request is handed to the router un-normalised (`trace_request` / `get_trace` rebuild it
//! themselves, matching is run on `rebuild_request(q)`), as the explain entry points do.
//! obs per request: {"t": sorted ids listed by Trace::get_routes_from_traces(trace_request(q)) (with
//!   repetitions, if any), "ts": sorted ids of all routes stored in Storage nodes of the serialised
//!   traces (a rule living in several accepting ip buckets is stored once per bucket),
//!   "m": sorted ids of match_request(rebuild_request(q)),
//!   "fp": priority of get_trace().final_route, "gp": priority of get_route(rebuild_request(q))}
//! Oracles on the implementation alone:
//!   trace-routes      t == m as multisets (every matching rule listed exactly once)
//!   final-priority    fp == gp
//!   trace-action-last for pairwise distinct ranks of the matched rules: the action of the last
//!                     TraceAction step equals Action::from_routes_rule (serialised)
use redirectionio::action::{Action, TraceAction};
use redirectionio::api::Rule;
use redirectionio::http::Request;
use redirectionio::router::{Router, Trace};
use redirectionio::RouterConfig;
use rio_harness::*;
use serde_json::{json, Value};

#[path = "../router_gen.rs"]
mod router_gen;
use router_gen::*;

fn gen_act(rng: &mut Prng, id: &str) -> Value {
    let mut a = serde_json::Map::new();
    if rng.chance(2, 3) {
        a.insert("status_code".into(), json!(*rng.pick(&[301u16, 302, 307, 308, 404, 410])));
        a.insert("target".into(), json!(format!("/t/{id}")));
    }
    if rng.chance(1, 2) {
        let n = rng.range(1, 2);
        let hf: Vec<Value> = (0..n)
            .map(|i| json!({"action": *rng.pick(&["add", "replace", "remove", "override", "default"]), "header": *rng.pick(&["X-A", "X-B", "Cache-Control"]), "value": format!("{id}-{i}"), "id": null, "target_hash": null}))
            .collect();
        a.insert("header_filters".into(), Value::Array(hf));
    }
    if rng.chance(1, 8) {
        a.insert("reset".into(), json!(true));
    }
    if rng.chance(1, 8) {
        a.insert("stop".into(), json!(true));
    }
    if rng.chance(1, 6) {
        a.insert("log_override".into(), json!(rng.chance(1, 2)));
    }
    Value::Object(a)
}

fn gen(args: &Args, emit: &mut dyn FnMut(Value)) {
    let mut rng = Prng::new(args.seed);
    // diff-directed block (only when the library differs from the baseline; see router_gen::hint_block)
    for (cfg, mut rules, reqs) in hint_block(&mut rng, (args.n / 4).clamp(40, 2000)) {
        for r in rules.iter_mut() {
            let id = r["id"].as_str().unwrap().to_string();
            r["act"] = gen_act(&mut rng, &id);
        }
        emit(json!({"cfg": cfg, "rules": rules, "reqs": reqs}));
    }
    for i in 0..args.n {
        let cfg = gen_cfg(&mut rng);
        let n = rng.range(1, if i % 4 == 0 { 4 } else { 10 });
        let mut rules = gen_rules(&mut rng, n, "r");
        let distinct_ranks = rng.chance(2, 3);
        for (k, r) in rules.iter_mut().enumerate() {
            let id = r["id"].as_str().unwrap().to_string();
            r["act"] = gen_act(&mut rng, &id);
            if distinct_ranks {
                r["rank"] = json!(k * 2 + rng.below(2));
            }
        }
        let nq = rng.range(2, 5);
        let reqs: Vec<Value> = (0..nq).map(|_| gen_request(&mut rng, &rules)).collect();
        emit(json!({"cfg": cfg, "rules": rules, "reqs": reqs}));
    }
}

/// The request as a proxy would hand it over before normalisation: no lower-casing anywhere.
fn raw_request(d: &Value) -> Option<Request> {
    let raw_cfg: RouterConfig = serde_json::from_value(json!({
        "ignore_host_case": false, "ignore_header_case": false, "ignore_path_and_query_case": false,
        "always_match_any_host": false, "ignore_marketing_query_params": true, "pass_marketing_query_params_to_target": true
    }))
    .ok()?;
    request_of(&raw_cfg, d)
}

/// ids of the routes of every `Storage` node of the serialised traces
fn stored_ids(v: &Value, out: &mut Vec<String>) {
    match v {
        Value::Array(a) => {
            for x in a {
                stored_ids(x, out);
            }
        }
        Value::Object(o) => {
            if o.get("type").and_then(|t| t.as_str()) == Some("storage") {
                if let Some(Value::Array(rs)) = o.get("routes") {
                    for r in rs {
                        if let Some(id) = r.get("id").and_then(|i| i.as_str()) {
                            out.push(id.to_string());
                        }
                    }
                }
            }
            if let Some(c) = o.get("children") {
                stored_ids(c, out);
            }
        }
        _ => {}
    }
}

fn strip_volatile(v: &mut Value) {
    // rule_traces / rule_ids of an action list every merged rule in merge order; they are part of the comparison.
    let _ = v;
}

fn run(case: &Value) -> Obs {
    let config = match case.get("cfg").and_then(config_of) {
        Some(c) => c,
        None => return Obs::invalid("cfg"),
    };
    let rules_d = match case.get("rules").and_then(|r| r.as_array()) {
        Some(r) => r,
        None => return Obs::invalid("rules"),
    };
    let reqs_d = match case.get("reqs").and_then(|r| r.as_array()) {
        Some(r) => r,
        None => return Obs::invalid("reqs"),
    };
    let mut ids = std::collections::HashSet::new();
    let mut router = Router::<Rule>::from_config(config.clone());
    for d in rules_d {
        let rule = match rule_of(d, d.get("act")) {
            Some(r) => r,
            None => return Obs::invalid("rule"),
        };
        if !ids.insert(rule.id.clone()) {
            return Obs::invalid("duplicate rule id");
        }
        router.insert(rule);
    }
    let mut obs = Vec::new();
    let mut fail: Option<(String, &'static str)> = None;
    let mut any_match = false;
    let mut compared_actions = 0;
    for qd in reqs_d {
        let raw = match raw_request(qd) {
            Some(q) => q,
            None => return Obs::invalid("request"),
        };
        let rebuilt = router.rebuild_request(&raw);
        let matched = router.match_request(&rebuilt);
        let m = sorted_ids(&matched);
        let traces = router.trace_request(&raw);
        let trace_routes = Trace::<Rule>::get_routes_from_traces(&traces);
        let t = sorted_ids(&trace_routes);
        let t_with_dups = t.clone();
        let mut ts = Vec::new();
        stored_ids(&serde_json::to_value(&traces).unwrap_or(Value::Null), &mut ts);
        ts.sort();
        if t != m && fail.is_none() {
            let mut tset = t.clone();
            tset.dedup();
            let mut mset = m.clone();
            mset.dedup();
            fail = Some((format!("trace lists {:?}, matching returns {:?}", t, m), if tset == mset { "trace-routes-repeated" } else { "trace-routes" }));
        }
        let route_trace = serde_json::to_value(router.get_trace(&raw)).unwrap_or(Value::Null);
        let fp = route_trace.get("final_route").and_then(|r| r.get("priority")).cloned().unwrap_or(Value::Null);
        let gp = match router.get_route(&rebuilt) {
            Some(r) => json!(r.priority()),
            None => Value::Null,
        };
        if fp != gp && fail.is_none() {
            fail = Some((format!("final route priority {fp} vs get_route {gp}"), "final-priority"));
        }
        // action trace: last step vs live action, for tie-free ranks
        let mut ranks: Vec<i64> = matched.iter().map(|r| r.priority()).collect();
        ranks.sort();
        let tie_free = ranks.windows(2).all(|w| w[0] != w[1]);
        if tie_free && !matched.is_empty() {
            let steps = TraceAction::from_trace_rules(&traces, &rebuilt);
            let live = Action::from_routes_rule(matched.clone(), &rebuilt, None);
            let mut live_json = serde_json::to_value(&live).unwrap_or(Value::Null);
            strip_volatile(&mut live_json);
            let last = steps.last().map(|s| serde_json::to_value(s).unwrap_or(Value::Null));
            let mut last_action = last.and_then(|v| v.get("action").cloned()).unwrap_or(Value::Null);
            strip_volatile(&mut last_action);
            compared_actions += 1;
            if last_action != live_json && fail.is_none() {
                let dup = t_with_dups.windows(2).any(|w| w[0] == w[1]);
                fail = Some((
                    format!("last TraceAction step differs from the live action (trace lists {:?}): {} vs {}", t_with_dups, last_action, live_json),
                    if dup { "trace-action-route-twice" } else { "trace-action-last" },
                ));
            }
        }
        any_match |= !m.is_empty();
        obs.push(json!({"t": t, "ts": ts, "m": m, "fp": fp, "gp": gp}));
    }
    let mut o = Obs::new(Value::Array(obs)).trivial(rules_d.is_empty() || reqs_d.is_empty());
    o.tags.extend(rule_tags(rules_d));
    if any_match {
        o.tags.push("some-match".into());
    }
    if compared_actions > 0 {
        o.tags.push("action-compared".into());
    }
    if let Some((why, sig)) = fail {
        o = o.fail(why, sig);
    }
    o
}

fn main() {
    main_with(gen, run);
}
