//! C17 — the explain trace agrees with matching: implementation side of the correspondence.
//! case: {"cfg":{..}, "rules":[.. each optionally with "act":{..}], "reqs":[..]}  (format: src/router_gen.rs)
//! The request is handed to the router un-normalised (`trace_request` / `get_trace` rebuild it
//! themselves, matching is run on `rebuild_request(q)`), as the explain entry points do.
//! obs per request: {"t": sorted ids listed by Trace::get_routes_from_traces(trace_request(q)) (with
//!   repetitions, if any), "ts": sorted ids of all routes stored in Storage nodes of the serialised
//!   traces (a rule living in several accepting ip buckets is stored once per bucket),
//!   "m": sorted ids of match_request(rebuild_request(q)),
//!   "fp": priority of get_trace().final_route, "gp": priority of get_route(rebuild_request(q))}
//! Oracles on the implementation alone:
//!   trace-routes      t == m as multisets (every matching rule listed exactly once)
//!   final-priority    fp == gp
//!   trace-action-last for pairwise distinct ranks of the matched rules: the action of the last
//!                     TraceAction step equals Action::from_routes_rule (serialised)
use redirectionio::action::{Action, TraceAction};
use redirectionio::api::Rule;
use redirectionio::http::Request;
use redirectionio::router::{Router, Trace};
use redirectionio::RouterConfig;
use rio_harness::*;
use serde_json::{json, Value};

#[path = "../router_gen.rs"]
mod router_gen;
use router_gen::*;

fn gen_act(rng: &mut Prng, id: &str) -> Value {
    let mut a = serde_json::Map::new();
    if rng.chance(2, 3) {
        a.insert("status_code".into(), json!(*rng.pick(&[301u16, 302, 307, 308, 404, 410])));
        a.insert("target".into(), json!(format!("/t/{id}")));
    }
    if rng.chance(1, 2) {
        let n = rng.range(1, 2);
        let hf: Vec<Value> = (0..n)
            .map(|i| json!({"action": *rng.pick(&["add", "replace", "remove", "override", "default"]), "header": *rng.pick(&["X-A", "X-B", "Cache-Control"]), "value": format!("{id}-{i}"), "id": null, "target_hash": null}))
            .collect();
        a.insert("header_filters".into(), Value::Array(hf));
    }
    if rng.chance(1, 8) {
        a.insert("reset".into(), json!(true));
    }
    if rng.chance(1, 8) {
        a.insert("stop".into(), json!(true));
    }
    if rng.chance(1, 6) {
        a.insert("log_override".into(), json!(rng.chance(1, 2)));
    }
    Value::Object(a)
}

/// A history over the rules of the case (pool indices; ids are pairwise distinct in the pool): most rules are
/// inserted, then removals of every kind (single, batch, change-set incl. updates = remove + re-insert), cache
/// warm-ups and re-insertions.  Every id is live at most once (a second insert of a live id is not generated).
///   OP = {"op":"insert","r":i} | {"op":"remove","id":s} | {"op":"batch","ids":[s…]}
///      | {"op":"change","a":[i…],"u":[i…],"d":[s…]} | {"op":"cache","n":k|null}
fn gen_history(rng: &mut Prng, rules: &[Value]) -> Vec<Value> {
    let n = rules.len();
    let id = |i: usize| rules[i]["id"].as_str().unwrap().to_string();
    let mut live: Vec<bool> = vec![false; n];
    let mut ops = Vec::new();
    let mut order: Vec<usize> = (0..n).collect();
    for i in (1..n).rev() {
        order.swap(i, rng.below(i + 1));
    }
    for &i in &order {
        if rng.chance(5, 6) {
            ops.push(json!({"op": "insert", "r": i}));
            live[i] = true;
        }
    }
    let pick_ids = |rng: &mut Prng, live: &[bool], k: usize| -> Vec<usize> {
        let mut out: Vec<usize> = Vec::new();
        for _ in 0..k {
            let i = rng.below(n);
            // mostly live ids
            if (live[i] || rng.chance(1, 4)) && !out.contains(&i) {
                out.push(i);
            }
        }
        out
    };
    let steps = rng.range(1, 7);
    for _ in 0..steps {
        match rng.below(9) {
            0 | 1 => {
                let i = rng.below(n);
                if rng.chance(1, 10) {
                    ops.push(json!({"op": "remove", "id": "nope"}));
                } else {
                    ops.push(json!({"op": "remove", "id": id(i)}));
                    live[i] = false;
                }
            }
            2 | 3 => {
                let k = rng.range(1, 3);
                let is = pick_ids(rng, &live, k);
                for &i in &is {
                    live[i] = false;
                }
                ops.push(json!({"op": "batch", "ids": is.iter().map(|&i| id(i)).collect::<Vec<String>>()}));
            }
            4 | 5 => {
                let kd = rng.below(3);
                let d = pick_ids(rng, &live, kd);
                for &i in &d {
                    live[i] = false;
                }
                let mut u: Vec<usize> = Vec::new();
                let mut a: Vec<usize> = Vec::new();
                for i in 0..n {
                    if d.contains(&i) {
                        continue;
                    }
                    if live[i] && rng.chance(1, 4) {
                        u.push(i);
                    } else if !live[i] && rng.chance(1, 3) {
                        a.push(i);
                        live[i] = true;
                    }
                }
                ops.push(json!({"op": "change", "a": a, "u": u, "d": d.iter().map(|&i| id(i)).collect::<Vec<String>>()}));
            }
            6 | 7 => {
                let n: Value = match rng.below(4) {
                    0 => Value::Null,
                    1 => json!(rng.below(4)),
                    2 => json!(rng.range(4, 40)),
                    _ => json!(1000),
                };
                ops.push(json!({"op": "cache", "n": n}));
            }
            _ => {
                let dead: Vec<usize> = (0..n).filter(|&i| !live[i]).collect();
                if !dead.is_empty() {
                    let i = *rng.pick(&dead);
                    ops.push(json!({"op": "insert", "r": i}));
                    live[i] = true;
                }
            }
        }
    }
    ops
}

fn gen(args: &Args, emit0: &mut dyn FnMut(Value)) {
    let mut rng = Prng::new(args.seed);
    // sub-second bounds that the model cannot tell apart are written alike (router_gen::fix_frac)
    let emit = &mut |mut v: Value| {
        fix_case(&mut v);
        emit0(v)
    };
    // diff-directed block (only when the library differs from the baseline; see router_gen::hint_block)
    for (cfg, mut rules, reqs) in hint_block(&mut rng, (args.n / 4).clamp(40, 2000)) {
        for r in rules.iter_mut() {
            let id = r["id"].as_str().unwrap().to_string();
            r["act"] = gen_act(&mut rng, &id);
        }
        emit(json!({"cfg": cfg, "rules": rules, "reqs": reqs}));
    }
    for i in 0..args.n {
        if i % 500 == 499 {
            // always-on: 150-180 rules, v4 / v6 / mapped-block ranges, v4-mapped clients
            let (cfg, mut rules, reqs) = big_mapped_case(&mut rng);
            for r in rules.iter_mut() {
                let id = r["id"].as_str().unwrap().to_string();
                r["act"] = gen_act(&mut rng, &id);
            }
            emit(json!({"cfg": cfg, "rules": rules, "reqs": reqs, "big": true}));
            continue;
        }
        let cfg = gen_cfg(&mut rng);
        let n = rng.range(1, if i % 4 == 0 { 4 } else { 10 });
        let mut rules = gen_rules(&mut rng, n, "r");
        let distinct_ranks = rng.chance(2, 3);
        for (k, r) in rules.iter_mut().enumerate() {
            let id = r["id"].as_str().unwrap().to_string();
            r["act"] = gen_act(&mut rng, &id);
            if distinct_ranks {
                r["rank"] = json!(k * 2 + rng.below(2));
            }
        }
        // a third of the cases: the router is not built from scratch but is what a history leaves behind
        let ops = if i % 3 == 1 { Some(gen_history(&mut rng, &rules)) } else { None };
        let nq = rng.range(2, 5);
        let mut reqs: Vec<Value> = (0..nq).map(|_| gen_request(&mut rng, &rules)).collect();
        // bias towards cases in which something is listed: redraw the first request (a few times) until one of
        // the requests is answered by the router of the case
        if let Some(router) = router_of(&cfg, &rules, ops.as_deref()) {
            let answered = |qd: &Value| raw_request(qd).map(|q| !router.match_request(&router.rebuild_request(&q)).is_empty()).unwrap_or(false);
            if !reqs.iter().any(|q| answered(q)) {
                for _ in 0..20 {
                    let q = gen_request(&mut rng, &rules);
                    if answered(&q) {
                        reqs[0] = q;
                        break;
                    }
                }
            }
        }
        let mut case = json!({"cfg": cfg, "rules": rules, "reqs": reqs});
        if let Some(ops) = ops {
            case["ops"] = Value::Array(ops);
        }
        emit(case);
    }
}

/// The router of a case: all rules inserted in order, or (with "ops") the empty router after the history.
/// `None`: the case is not well-formed (bad rule, duplicate id, insert of a live id, bad index).
fn router_of(cfg: &Value, rules_d: &[Value], ops: Option<&[Value]>) -> Option<Router<Rule>> {
    let config = config_of(cfg)?;
    let mut ids = std::collections::HashSet::new();
    let mut rules: Vec<Rule> = Vec::new();
    for d in rules_d {
        let rule = rule_of(d, d.get("act"))?;
        if !ids.insert(rule.id.clone()) {
            return None;
        }
        rules.push(rule);
    }
    let mut router = Router::<Rule>::from_config(config);
    let ops = match ops {
        None => {
            for r in rules {
                router.insert(r);
            }
            return Some(router);
        }
        Some(ops) => ops,
    };
    if ops.len() > 400 {
        return None;
    }
    let mut live: std::collections::HashSet<String> = std::collections::HashSet::new();
    let idx = |v: Option<&Value>| -> Option<Vec<usize>> {
        v?.as_array()?.iter().map(|x| x.as_u64().map(|x| x as usize).filter(|&x| x < rules.len())).collect()
    };
    let strs = |v: Option<&Value>| -> Option<Vec<String>> { v?.as_array()?.iter().map(|x| x.as_str().map(|x| x.to_string())).collect() };
    for op in ops {
        match op.get("op")?.as_str()? {
            "insert" => {
                let i = op.get("r")?.as_u64()? as usize;
                let r = rules.get(i)?.clone();
                if !live.insert(r.id.clone()) {
                    return None;
                }
                router.insert(r);
            }
            "remove" => {
                let id = op.get("id")?.as_str()?;
                live.remove(id);
                router.remove(id);
            }
            "batch" => {
                let ids = strs(op.get("ids"))?;
                for id in &ids {
                    live.remove(id);
                }
                router.batch_remove(&ids.into_iter().collect());
            }
            "change" => {
                let (a, u, d) = (idx(op.get("a"))?, idx(op.get("u"))?, strs(op.get("d"))?);
                for id in &d {
                    live.remove(id);
                }
                for &i in &u {
                    live.remove(&rules[i].id);
                }
                for &i in u.iter().chain(a.iter()) {
                    if !live.insert(rules[i].id.clone()) {
                        return None;
                    }
                }
                router.apply_change_set(a.iter().map(|&i| rules[i].clone()).collect(), u.iter().map(|&i| rules[i].clone()).collect(), d.into_iter().collect());
            }
            "cache" => {
                let n = match op.get("n") {
                    None | Some(Value::Null) => None,
                    Some(v) => Some(v.as_u64()?),
                };
                router.cache(n);
            }
            _ => return None,
        }
    }
    Some(router)
}

/// The request as a proxy would hand it over before normalisation: no lower-casing anywhere.
fn raw_request(d: &Value) -> Option<Request> {
    let raw_cfg: RouterConfig = serde_json::from_value(json!({
        "ignore_host_case": false, "ignore_header_case": false, "ignore_path_and_query_case": false,
        "always_match_any_host": false, "ignore_marketing_query_params": true, "pass_marketing_query_params_to_target": true
    }))
    .ok()?;
    request_of(&raw_cfg, d)
}

/// ids of the routes of every `Storage` node of the serialised traces
fn stored_ids(v: &Value, out: &mut Vec<String>) {
    match v {
        Value::Array(a) => {
            for x in a {
                stored_ids(x, out);
            }
        }
        Value::Object(o) => {
            if o.get("type").and_then(|t| t.as_str()) == Some("storage") {
                if let Some(Value::Array(rs)) = o.get("routes") {
                    for r in rs {
                        if let Some(id) = r.get("id").and_then(|i| i.as_str()) {
                            out.push(id.to_string());
                        }
                    }
                }
            }
            if let Some(c) = o.get("children") {
                stored_ids(c, out);
            }
        }
        _ => {}
    }
}

/// The trace forest in a canonical text: `type(matched executed count){children}` with the children sorted
/// (several matchers keep their buckets in hash maps: the order of siblings is not part of the comparison),
/// `storage[sorted ids]` for storage nodes.  The payload of the other nodes (request / against texts,
/// per-condition results) is not modelled.  With `counts == false` the `count` fields are left out.
fn canon(v: &Value, counts: bool) -> String {
    let o = match v.as_object() {
        Some(o) => o,
        None => return "?".into(),
    };
    let ty = o.get("type").and_then(|t| t.as_str()).unwrap_or("?");
    let kind = if ty == "storage" {
        let mut ids: Vec<String> = o
            .get("routes")
            .and_then(|r| r.as_array())
            .map(|rs| rs.iter().filter_map(|r| r.get("id").and_then(|i| i.as_str()).map(|i| i.to_string())).collect())
            .unwrap_or_default();
        ids.sort();
        format!("storage[{}]", ids.join(","))
    } else {
        ty.to_string()
    };
    let flag = |k: &str| if o.get(k).and_then(|b| b.as_bool()).unwrap_or(false) { 1 } else { 0 };
    let count = if counts { format!(" {}", o.get("count").and_then(|c| c.as_u64()).unwrap_or(0)) } else { String::new() };
    format!("{}({}{}{}){{{}}}", kind, flag("matched"), flag("executed"), count, canon_list(o.get("children").unwrap_or(&Value::Null), counts))
}

fn canon_list(v: &Value, counts: bool) -> String {
    let mut cs: Vec<String> = v.as_array().map(|a| a.iter().map(|c| canon(c, counts)).collect()).unwrap_or_default();
    cs.sort();
    cs.join(",")
}

fn strip_volatile(v: &mut Value) {
    // rule_traces / rule_ids of an action list every merged rule in merge order; they are part of the comparison.
    let _ = v;
}

fn run(case: &Value) -> Obs {
    let config = match case.get("cfg").and_then(config_of) {
        Some(c) => c,
        None => return Obs::invalid("cfg"),
    };
    let rules_d = match case.get("rules").and_then(|r| r.as_array()) {
        Some(r) => r,
        None => return Obs::invalid("rules"),
    };
    let reqs_d = match case.get("reqs").and_then(|r| r.as_array()) {
        Some(r) => r,
        None => return Obs::invalid("reqs"),
    };
    let _ = &config;
    let ops_d = match case.get("ops") {
        None | Some(Value::Null) => None,
        Some(Value::Array(a)) => Some(a.as_slice()),
        _ => return Obs::invalid("ops"),
    };
    if frac_collision(rules_d) {
        return Obs::invalid("two sub-second bounds the model cannot tell apart");
    }
    let router = match router_of(case.get("cfg").unwrap(), rules_d, ops_d) {
        Some(r) => r,
        None => return Obs::invalid("rule or history"),
    };
    let mut obs = Vec::new();
    let mut fail: Option<(String, &'static str)> = None;
    let mut any_match = false;
    let mut compared_actions = 0;
    for qd in reqs_d {
        let raw = match raw_request(qd) {
            Some(q) => q,
            None => return Obs::invalid("request"),
        };
        let rebuilt = router.rebuild_request(&raw);
        let matched = router.match_request(&rebuilt);
        let m = sorted_ids(&matched);
        let traces = router.trace_request(&raw);
        let trace_routes = Trace::<Rule>::get_routes_from_traces(&traces);
        let t = sorted_ids(&trace_routes);
        let t_with_dups = t.clone();
        let mut ts = Vec::new();
        let traces_json = serde_json::to_value(&traces).unwrap_or(Value::Null);
        stored_ids(&traces_json, &mut ts);
        ts.sort();
        let tr = canon_list(&traces_json, true);
        if t != m && fail.is_none() {
            let mut tset = t.clone();
            tset.dedup();
            let mut mset = m.clone();
            mset.dedup();
            fail = Some((format!("trace lists {:?}, matching returns {:?}", t, m), if tset == mset { "trace-routes-repeated" } else { "trace-routes" }));
        }
        let route_trace = serde_json::to_value(router.get_trace(&raw)).unwrap_or(Value::Null);
        let fp = route_trace.get("final_route").and_then(|r| r.get("priority")).cloned().unwrap_or(Value::Null);
        let gp = match router.get_route(&rebuilt) {
            Some(r) => json!(r.priority()),
            None => Value::Null,
        };
        if fp != gp && fail.is_none() {
            fail = Some((format!("final route priority {fp} vs get_route {gp}"), "final-priority"));
        }
        // action trace: last step vs live action, for tie-free ranks
        let mut ranks: Vec<i64> = matched.iter().map(|r| r.priority()).collect();
        ranks.sort();
        let tie_free = ranks.windows(2).all(|w| w[0] != w[1]);
        if tie_free && !matched.is_empty() {
            let steps = TraceAction::from_trace_rules(&traces, &rebuilt);
            let live = Action::from_routes_rule(matched.clone(), &rebuilt, None);
            let mut live_json = serde_json::to_value(&live).unwrap_or(Value::Null);
            strip_volatile(&mut live_json);
            let last = steps.last().map(|s| serde_json::to_value(s).unwrap_or(Value::Null));
            let mut last_action = last.and_then(|v| v.get("action").cloned()).unwrap_or(Value::Null);
            strip_volatile(&mut last_action);
            compared_actions += 1;
            if last_action != live_json && fail.is_none() {
                let dup = t_with_dups.windows(2).any(|w| w[0] == w[1]);
                fail = Some((
                    format!("last TraceAction step differs from the live action (trace lists {:?}): {} vs {}", t_with_dups, last_action, live_json),
                    if dup { "trace-action-route-twice" } else { "trace-action-last" },
                ));
            }
        }
        any_match |= !t.is_empty();
        obs.push(json!({"t": t, "ts": ts, "m": m, "fp": fp, "gp": gp, "tr": tr}));
    }
    // non-trivial = the trace of at least one request lists a route (cases in which nothing is listed are still
    // compared, but they only repeat the emptiness check)
    let mut o = Obs::new(Value::Array(obs)).trivial(!any_match);
    o.tags.extend(rule_tags(rules_d));
    if rules_d.len() >= 150 {
        o.tags.push("big-router".into());
    }
    if reqs_d.iter().any(|q| q.get("ip").and_then(|i| i.as_array()).map(|a| a.len() == 8 && a[5].as_u64() == Some(0xffff)).unwrap_or(false)) {
        o.tags.push("mapped-client".into());
    }
    if let Some(ops) = ops_d {
        o.tags.push("history".into());
        for k in ["remove", "batch", "change", "cache"] {
            if ops.iter().any(|op| op.get("op").and_then(|x| x.as_str()) == Some(k)) {
                o.tags.push(format!("history:{k}"));
            }
        }
    }
    if any_match {
        o.tags.push("some-match".into());
    }
    if compared_actions > 0 {
        o.tags.push("action-compared".into());
    }
    if let Some((why, sig)) = fail {
        o = o.fail(why, sig);
    }
    o
}

fn main() {
    main_with(gen, run);
}
