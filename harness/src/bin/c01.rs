//! C01 — rule matching is exact: implementation side of the correspondence.
//! case: {"cfg":{..}, "rules":[..], "reqs":[..]}  (format: src/router_gen.rs / RouterJson.lean)
//! obs:  per request, the sorted ids (duplicates kept) returned by `Router::match_request`.
//! Oracle on the implementation alone: no id is reported twice for one request.
use redirectionio::api::Rule;
use redirectionio::router::Router;
use rio_harness::*;
use serde_json::{json, Value};

#[path = "../router_gen.rs"]
mod router_gen;
use router_gen::*;

fn emit_case(rng: &mut Prng, emit: &mut dyn FnMut(Value), max_rules: usize) {
    let cfg = gen_cfg(rng);
    let n = rng.range(1, max_rules);
    let rules = gen_rules(rng, n, "r");
    let nq = rng.range(2, 6);
    let reqs: Vec<Value> = (0..nq).map(|_| gen_request(rng, &rules)).collect();
    emit(json!({"cfg": cfg, "rules": rules, "reqs": reqs}));
}

/// A case that exercises one layer only: the rules differ in the triggers of that layer, every other
/// trigger is absent (path fixed), so the layer alone decides which rules match.
fn emit_focus_case(rng: &mut Prng, emit: &mut dyn FnMut(Value)) {
    const FOCI: [&[&str]; 7] =
        [&["scheme"], &["host"], &["ips"], &["methods", "exclude"], &["headers"], &["datetime", "time", "weekdays"], &["path"]];
    let focus = FOCI[rng.below(FOCI.len())];
    let cfg = gen_cfg(rng);
    let n = rng.range(2, 6);
    let mut rules = Vec::new();
    for i in 0..n {
        let id = format!("f{i}");
        // draw until the focused trigger is present
        let mut r = gen_rule(rng, &id);
        for _ in 0..20 {
            if focus.iter().any(|k| r.get(*k).is_some()) {
                break;
            }
            r = gen_rule(rng, &id);
        }
        let o = r.as_object_mut().unwrap();
        let keep: Vec<String> = o.keys().filter(|k| ["id", "rank", "markers", "path", "wdstyle"].contains(&k.as_str()) || focus.contains(&k.as_str())).cloned().collect();
        o.retain(|k, _| keep.contains(k));
        if focus != ["path"] {
            o.insert("path".into(), json!("/a"));
        }
        rules.push(r);
    }
    let nq = rng.range(3, 6);
    let reqs: Vec<Value> = (0..nq).map(|_| gen_request(rng, &rules)).collect();
    emit(json!({"cfg": cfg, "rules": rules, "reqs": reqs}));
}

/// The "bucket collision" pool of the thorough tier: six rules that share buckets in every layer.
fn collision_pool() -> Vec<Value> {
    vec![
        json!({"id":"p0","rank":1,"host":"a.com","ips":[{"neg":false,"ip":[10,0,0,0],"bits":8},{"neg":false,"ip":[10,1,0,0],"bits":16}],"path":"/a/@d","markers":"d"}),
        json!({"id":"p1","rank":2,"host":"@l.com","markers":"l","methods":["GET","GET","POST"],"path":"/a/1"}),
        json!({"id":"p2","rank":3,"methods":["POST"],"exclude":false,"headers":[{"name":"X-A","kind":"is_equals","value":"v"},{"name":"x-a","kind":"is_defined","value":null}],"path":"/a/@d","markers":"d"}),
        json!({"id":"p3","rank":4,"scheme":"https","headers":[{"name":"x-a","kind":"is_defined","value":null},{"name":"X-A","kind":"is_equals","value":"v"}],"datetime":[[1577836800u64,1577923200u64]],"path":"/a/1"}),
        json!({"id":"p4","rank":5,"scheme":"https","host":"a.com","time":[[52200,54000]],"weekdays":[2,3],"path":"/a/1"}),
        json!({"id":"p5","rank":6,"host":"","ips":[{"neg":true,"ip":[10,1,0,0],"bits":16}],"path":"/a/@s","markers":"s"}),
    ]
}

fn collision_requests() -> Vec<Value> {
    let mut out = Vec::new();
    for scheme in [Value::Null, json!("https"), json!("http")] {
        for host in [Value::Null, json!("a.com"), json!("abc.com"), json!("x.org")] {
            for (ip, method, hv, at, path) in [
                (json!([10, 1, 2, 3]), Value::Null, Some("v"), Some(1577836800u64 + 52200), "/a/1"),
                (json!([10, 2, 0, 1]), json!("POST"), None, Some(1577836800u64 + 86400), "/a/1"),
                (Value::Null, json!("GET"), Some("w"), None, "/a/12"),
                (json!([11, 0, 0, 1]), json!("PUT"), Some("v"), Some(1577836800u64 - 1), "/a/x"),
            ] {
                let mut q = serde_json::Map::new();
                if !scheme.is_null() {
                    q.insert("scheme".into(), scheme.clone());
                }
                if !host.is_null() {
                    q.insert("host".into(), host.clone());
                }
                if !ip.is_null() {
                    q.insert("ip".into(), ip);
                }
                if !method.is_null() {
                    q.insert("method".into(), method);
                }
                if let Some(v) = hv {
                    q.insert("headers".into(), json!([["X-A", v]]));
                }
                if let Some(t) = at {
                    q.insert("at".into(), json!(t));
                }
                q.insert("path".into(), json!(path));
                out.push(Value::Object(q));
            }
        }
    }
    out
}

fn gen(args: &Args, emit0: &mut dyn FnMut(Value)) {
    let mut rng = Prng::new(args.seed);
    // sub-second bounds that the model cannot tell apart are written alike (router_gen::fix_frac)
    let emit = &mut |mut v: Value| {
        fix_case(&mut v);
        emit0(v)
    };
    if args.tier == "thorough" {
        // exhaustive: every subset of the collision pool x 48 requests x 8 configurations
        // (ignore_header_case is irrelevant for the pool's lower-case values; 2^3 = the other three flags)
        let pool = collision_pool();
        let reqs = collision_requests();
        for mask in 1..(1u32 << pool.len()) {
            let rules: Vec<Value> = (0..pool.len()).filter(|i| mask & (1 << i) != 0).map(|i| pool[i].clone()).collect();
            for c in 0..8u32 {
                let cfg = json!({"ihc": c & 1 != 0, "ihdc": false, "ipc": c & 2 != 0, "any": c & 4 != 0});
                emit(json!({"cfg": cfg, "rules": rules, "reqs": reqs, "exh": true}));
            }
        }
    }
    // diff-directed block (only when the library differs from the baseline; see router_gen::hint_block)
    for (cfg, rules, reqs) in hint_block(&mut rng, (args.n / 4).clamp(40, 2000)) {
        emit(json!({"cfg": cfg, "rules": rules, "reqs": reqs}));
    }
    for i in 0..args.n {
        if i % 1000 == 998 {
            // always-on: 150-180 rules, v4 / v6 / mapped-block ranges, v4-mapped clients
            let (cfg, rules, reqs) = big_mapped_case(&mut rng);
            emit(json!({"cfg": cfg, "rules": rules, "reqs": reqs}));
            continue;
        }
        if i % 5 == 4 {
            emit_focus_case(&mut rng, emit);
            continue;
        }
        let max_rules = if i % 4 == 0 { 4 } else { 12 };
        emit_case(&mut rng, emit, max_rules);
    }
}

fn run(case: &Value) -> Obs {
    let config = match case.get("cfg").and_then(config_of) {
        Some(c) => c,
        None => return Obs::invalid("cfg"),
    };
    let rules_d = match case.get("rules").and_then(|r| r.as_array()) {
        Some(r) => r,
        None => return Obs::invalid("rules"),
    };
    let reqs_d = match case.get("reqs").and_then(|r| r.as_array()) {
        Some(r) => r,
        None => return Obs::invalid("reqs"),
    };
    let mut ids = std::collections::HashSet::new();
    let mut router = Router::<Rule>::from_config(config.clone());
    for d in rules_d {
        let rule = match rule_of(d, None) {
            Some(r) => r,
            None => return Obs::invalid("rule"),
        };
        if !ids.insert(rule.id.clone()) {
            return Obs::invalid("duplicate rule id");
        }
        router.insert(rule);
    }
    let mut obs = Vec::new();
    let mut dup: Option<String> = None;
    let mut any_match = false;
    let mut multi = false;
    for qd in reqs_d {
        let request = match request_of(&config, qd) {
            Some(q) => q,
            None => return Obs::invalid("request"),
        };
        let ids = sorted_ids(&router.match_request(&request));
        if ids.windows(2).any(|w| w[0] == w[1]) && dup.is_none() {
            dup = Some(format!("rule reported more than once: {:?}", ids));
        }
        any_match |= !ids.is_empty();
        multi |= ids.len() > 1;
        obs.push(json!(ids));
    }
    let mut o = Obs::new(Value::Array(obs)).trivial(rules_d.is_empty() || reqs_d.is_empty());
    o.tags.extend(rule_tags(rules_d));
    o.tags.push(format!("cfg:any={}", config.always_match_any_host));
    if any_match {
        o.tags.push("some-match".into());
    }
    if multi {
        o.tags.push("multi-match".into());
    }
    if let Some(why) = dup {
        o = o.fail(why, "duplicate-match");
    }
    o
}

fn main() {
    main_with(gen, run);
}
