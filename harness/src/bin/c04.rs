//! C04 — body filters never lose, duplicate or reorder response bytes: implementation side.
//!
//! plain case: {"body": hex (ARBITRARY bytes), "filters": [..] (sentinel values), "headers": [[n,v]..], "scheds": [[cuts]..]}
//!   obs: {"kinds": [..], "one": hex of filter(b)+end(), "e1": null|k, "sch": ["=" | hex ..], "errs": [null|k ..]}
//!        (k = index of the filter call during which the chain entered its error state, #chunks = during end)
//!   oracles on the implementation, per schedule:
//!     passthrough        chain empty (no filter / unsupported content type or encoding / unbuildable filters) => out == b
//!     conservative       out is b with whole copies of the insert values inserted and '<'..'>' spans substituted by a
//!                        replace value (dynamic programme; skipped when a replace_text stage exists or a value occurs in b)
//!     error pass-through after the chain failed at call k: outs[k] ends with chunk k, later outputs are the chunks, end is empty
//!     error expected     the chain fails iff an html stage exists and b contains an invalid (not merely truncated) sequence
//!
//! compressed case (known finding O6): {"z": true, "enc", "level", "body": hex of the plain body (arbitrary bytes), "trunc": n
//!   (bytes dropped at the end of the compressed stream), "ctype", "filters", "cuts": [..], "flush": {"cuts": [..] | null, "fail": null|k}}
//!   obs: {"kinds": [..], "err": null|k}; oracle: no error state (an error inside a compressed chain cannot be a pass-through).
#[path = "../filter_gen.rs"]
mod filter_gen;
use filter_gen::*;
use redirectionio::http::Header;
use rio_harness::*;
use serde_json::{json, Value};

fn contains(h: &[u8], n: &[u8]) -> bool {
    !n.is_empty() && h.windows(n.len()).any(|w| w == n)
}

fn flush_json(enc: &str, chunks: &[Vec<u8>]) -> Value {
    // what the decode stage does under this schedule: outputs per call (as cut positions) and where it fails
    use std::io::Write;
    let _ = std::io::sink().flush();
    match decoder_outputs(enc, chunks) {
        Ok((outs, end)) => {
            let mut all = outs;
            all.push(end);
            json!({"cuts": flush_cuts(&all), "fail": null})
        }
        Err(k) => {
            // outputs of the calls before the failing one
            let (outs, _) = decoder_outputs_prefix(enc, &chunks[..k.min(chunks.len())]);
            json!({"cuts": flush_cuts(&outs), "fail": k})
        }
    }
}

/// decoder outputs of the first calls (no end)
fn decoder_outputs_prefix(enc: &str, chunks: &[Vec<u8>]) -> (Vec<Vec<u8>>, ()) {
    use std::io::Write;
    let mut outs = Vec::new();
    macro_rules! drive {
        ($d:expr) => {{
            let mut d = $d;
            for c in chunks {
                if d.write_all(c).is_err() || d.flush().is_err() {
                    break;
                }
                let mut buf = Vec::new();
                std::mem::swap(&mut buf, d.get_mut());
                outs.push(buf);
            }
        }};
    }
    match enc {
        "gzip" => drive!(flate2::write::GzDecoder::new(Vec::new())),
        "deflate" => drive!(flate2::write::ZlibDecoder::new(Vec::new())),
        _ => drive!(brotli::DecompressorWriter::new(Vec::new(), 4096)),
    }
    (outs, ())
}

fn gen(args: &Args, emit: &mut dyn FnMut(Value)) {
    let mut rng = seeded(args.seed);
    // diff-directed hints first (empty on the unchanged tree), then the deterministic boundary families
    // (long held tails, long buffers, many siblings): in EVERY run
    let hs = hints();
    let hinted = if hs.is_empty() { Vec::new() } else { hint_cases_html(&hs) };
    for bc in hinted.into_iter().chain(boundary_cases()) {
        emit(json!({"body": hex(&bc.body), "filters": bc.filters.iter().map(|f| f.to_json()).collect::<Vec<_>>(), "headers": [], "scheds": scheds_json(&bc.scheds), "shape": bc.shape}));
    }
    for n in 0..args.n {
        let (s, shape) = gen_body(&mut rng);
        let mut body = s.into_bytes();
        let mut shape = shape.to_string();
        if rng.chance(2, 5) {
            mutate_bytes(&mut rng, &mut body);
            shape.push_str("+bytes");
        }
        if n % 12 == 11 {
            // compressed chain, error inside (O6) or not
            let enc = *rng.pick(ENCODINGS);
            let level = rng.below(10) as u32;
            let z0 = compress(enc, level, 22, &[], &body).unwrap();
            let trunc = if rng.chance(1, 3) { rng.range(1, 8.min(z0.len())) } else { 0 };
            let z = z0[..z0.len() - trunc].to_vec();
            let k = rng.range(0, 4);
            let mut cuts: Vec<usize> = (0..k).map(|_| rng.below(z.len() + 1)).collect();
            cuts.sort();
            let mut filters = gen_filters(&mut rng, false, false);
            if filters.is_empty() {
                filters.push(gen_html_filter(&mut rng, 0, false));
            }
            let ctype: Option<&str> = *rng.pick(&[None, Some("text/html")]);
            let flush = flush_json(enc, &split_at_cuts(&z, &cuts));
            emit(json!({"z": true, "enc": enc, "level": level, "body": hex(&body), "trunc": trunc, "ctype": ctype,
                "filters": filters.iter().map(|f| f.to_json()).collect::<Vec<_>>(), "cuts": cuts, "flush": flush, "shape": shape}));
            continue;
        }
        let filters = gen_filters_n(&mut rng, true, false, 5);
        let headers = gen_headers(&mut rng);
        let all_single = body.len() <= 120 || rng.chance(1, 4);
        let scheds = gen_scheds(&mut rng, body.len(), all_single, 6);
        emit(json!({
            "body": hex(&body),
            "filters": filters.iter().map(|f| f.to_json()).collect::<Vec<_>>(),
            "headers": headers_json(&headers),
            "scheds": scheds_json(&scheds),
            "shape": shape,
        }));
    }
}

fn run_z(case: &Value) -> Obs {
    let body = match parse_body(case) {
        Some(b) => b,
        None => return Obs::invalid("body"),
    };
    let fs = match parse_filters(case) {
        Some(f) => f,
        None => return Obs::invalid("filters"),
    };
    let enc = match s(case, "enc") {
        Some(e) if ENCODINGS.contains(&e.as_str()) => e,
        _ => return Obs::invalid("enc"),
    };
    let level = case.get("level").and_then(|v| v.as_u64()).unwrap_or(6) as u32;
    let trunc = case.get("trunc").and_then(|v| v.as_u64()).unwrap_or(0) as usize;
    let z0 = match compress(&enc, level, 22, &[], &body) {
        Some(z) => z,
        None => return Obs::invalid("compress"),
    };
    if trunc > z0.len() {
        return Obs::invalid("trunc");
    }
    let z = z0[..z0.len() - trunc].to_vec();
    let cuts: Vec<usize> = match case.get("cuts").and_then(|v| v.as_array()) {
        Some(a) => a.iter().filter_map(|x| x.as_u64().map(|y| y as usize)).collect(),
        None => return Obs::invalid("cuts"),
    };
    if cuts.windows(2).any(|w| w[0] > w[1]) || cuts.iter().any(|c| *c > z.len()) {
        return Obs::invalid("cuts");
    }
    let chunks = split_at_cuts(&z, &cuts);
    if case.get("flush") != Some(&flush_json(&enc, &chunks)) {
        return Obs::invalid("flush field inconsistent with the schedule");
    }
    let mut headers = vec![Header { name: "Content-Encoding".to_string(), value: enc.clone() }];
    if let Some(c) = s(case, "ctype") {
        headers.push(Header { name: "Content-Type".to_string(), value: c });
    }
    let r = run_chain(&fs, &headers, &chunks);
    let compressed = r.kinds.first() == Some(&"decode");
    let mut o = Obs::new(json!({"kinds": r.kinds, "err": r.err_at})).trivial(!compressed);
    o.tags.push("kind:compressed".to_string());
    o.tags.push(format!("enc:{enc}"));
    if trunc > 0 {
        o.tags.push("truncated-stream".to_string());
    }
    if !compressed {
        if r.concat() != z {
            return o.fail("chain is empty but the output differs from the input", "passthrough-broken");
        }
        return o;
    }
    if let Some(k) = r.err_at {
        o.tags.push("fail:error-inside-compressed-chain".to_string());
        let passthrough = r.concat() == z;
        if !passthrough {
            return o.fail(
                format!("the compressed chain failed at call {k}: the output is neither a pass-through of the input nor a valid stream"),
                "error-inside-compressed-chain",
            );
        }
    }
    o
}

fn run(case: &Value) -> Obs {
    if case.get("z").and_then(|v| v.as_bool()) == Some(true) {
        return run_z(case);
    }
    let body = match parse_body(case) {
        Some(b) => b,
        None => return Obs::invalid("body"),
    };
    let fs = match parse_filters(case) {
        Some(f) => f,
        None => return Obs::invalid("filters"),
    };
    let headers = match parse_headers(case) {
        Some(h) => h,
        None => return Obs::invalid("headers"),
    };
    let scheds = match parse_scheds(case, body.len()) {
        Some(s) => s,
        None => return Obs::invalid("scheds"),
    };
    let single = run_chain(&fs, &headers, &[body.clone()]);
    if single.kinds.iter().any(|k| *k == "decode" || *k == "encode") {
        return Obs::invalid("compressed chains use the z case kind");
    }
    let kinds = single.kinds.clone();
    let one = single.concat();
    // which filters were built (the gates are the code's; the kinds tell how many stages exist)
    let probe_built: Vec<&FSpec> = fs
        .iter()
        .filter(|f| {
            let r = run_chain(std::slice::from_ref(*f), &headers, &[]);
            !r.kinds.is_empty()
        })
        .collect();
    let has_html = kinds.iter().any(|k| *k == "html");
    let has_text_replace = probe_built.iter().any(|f| f.action() == "replace_text");
    let inserts: Vec<Vec<u8>> = probe_built.iter().filter(|f| f.action() != "replace").map(|f| f.value().as_bytes().to_vec()).collect();
    let replaces: Vec<Vec<u8>> = probe_built.iter().filter(|f| f.action() == "replace").map(|f| f.value().as_bytes().to_vec()).collect();
    let sentinel_ok = probe_built.iter().all(|f| !contains(&body, f.value().as_bytes()));
    let invalid_utf8 = match std::str::from_utf8(&body) {
        Ok(_) => false,
        Err(e) => e.error_len().is_some(),
    };

    let mut fail: Option<(String, &'static str)> = None;
    let mut anybytes_tags: Vec<String> = Vec::new();
    let mut sch = Vec::new();
    let mut errs = Vec::new();
    let mut all: Vec<(Vec<Vec<u8>>, RunOut)> = vec![(vec![body.clone()], single)];
    for cuts in &scheds {
        let chunks = split_at_cuts(&body, cuts);
        let r = run_chain(&fs, &headers, &chunks);
        all.push((chunks, r));
    }
    // failures are collected over all schedules; an unlisted class has priority over the known one
    let mut note = |f: (String, &'static str), fail: &mut Option<(String, &'static str)>| {
        let known = |s: &str| s == "error-in-end-loses-held-bytes";
        match fail {
            None => *fail = Some(f),
            Some((_, s0)) if known(s0) && !known(f.1) => *fail = Some(f),
            _ => {}
        }
    };
    for (i, (chunks, r)) in all.iter().enumerate() {
        let out = r.concat();
        if i > 0 {
            sch.push(if out == one { json!("=") } else { json!(hex(&out)) });
            errs.push(json!(r.err_at));
        }
        let which = if i == 0 { "single chunk".to_string() } else { format!("schedule {:?}", scheds[i - 1]) };
        if kinds.is_empty() {
            if out != body {
                note((format!("{which}: empty chain but the output differs from the input"), "passthrough-broken"), &mut fail);
            }
            continue;
        }
        let conserved = has_text_replace || !sentinel_ok || conservative(&body, &out, &inserts, &replaces);
        if let Some(k) = r.err_at {
            if k >= chunks.len() {
                // The chain failed inside end().  Legitimate only when the body ends with an incomplete UTF-8
                // sequence (the pending tail of an html stage met text emitted at end by an earlier text stage);
                // the held bytes must still come out (repaired by 86b76d7; a loss or duplication is a failure).
                let truncated_tail = matches!(std::str::from_utf8(&body), Err(e) if e.error_len().is_none());
                if !conserved {
                    note((format!("{which}: the chain failed during end() and the bytes held by the stages are lost or duplicated"), "error-in-end-loses-held-bytes"), &mut fail);
                } else if !has_text_replace && !(truncated_tail && has_html) {
                    note((format!("{which}: the chain failed during end()"), "error-state-unexpected"), &mut fail);
                }
                continue;
            }
            let mut ok = r.end.is_empty();
            for j in k + 1..chunks.len() {
                ok &= r.outs[j] == chunks[j];
            }
            ok &= r.outs[k].ends_with(&chunks[k]);
            if !ok {
                note((format!("{which}: after the chain failed at call {k} the chunks are not passed through unchanged"), "error-passthrough-broken"), &mut fail);
                continue;
            }
        }
        if !has_text_replace {
            let expect_err = has_html && invalid_utf8;
            if expect_err != r.err_at.is_some() {
                note((format!("{which}: error state {:?} but invalid UTF-8 in the body = {invalid_utf8}", r.err_at), "error-state-unexpected"), &mut fail);
                continue;
            }
        }
        if !conserved {
            note((format!("{which}: the output is not the input with whole values inserted / '<..>' spans replaced"), "bytes-not-conserved"), &mut fail);
        }
        // STRONG relation for ARBITRARY bytes and through the error path (Rio.C04.replace_one_anybytes_final /
        // insert_one_anybytes_final): a chain of exactly one html stage, EVERY schedule, failing or not.  With k = the index of
        // the failing call (all chunks when none fails): out = B ++ chunks[k..] verbatim, B = b' ++ pending where
        // data ++ pending is the UTF-8 split of chunks[..k] and (data, b') meets the stage specification (stage_strong).
        if kinds.len() == 1 && kinds[0] == "html" && probe_built.len() == 1 {
            let f = probe_built[0];
            let k = r.err_at.unwrap_or(chunks.len()).min(chunks.len());
            let p: Vec<u8> = chunks[..k].concat();
            let s: Vec<u8> = chunks[k..].concat();
            match utf8_split(&p) {
                None => note((format!("{which}: the calls before call {k} succeeded on invalid UTF-8"), "error-state-unexpected"), &mut fail),
                Some((data, pending)) => {
                    if !out.ends_with(&s) || !out[..out.len() - s.len()].ends_with(&pending) {
                        note((format!("{which}: the output does not end with the pending character and the chunks from call {k} on, verbatim"), "stage-spec-violated"), &mut fail);
                    } else {
                        let b = &out[..out.len() - s.len() - pending.len()];
                        match stage_strong(&data, b, f) {
                            Ok(None) => {
                                anybytes_tags.push(format!("strong-checked-anybytes:{}", f.action()));
                                if r.err_at.is_some() {
                                    anybytes_tags.push(format!("strong-checked-error-path:{}", f.action()));
                                }
                            }
                            Ok(Some(why)) => anybytes_tags.push(format!("strong-skipped:{why}")),
                            Err(why) => note((format!("{which} (failing call: {:?}): {why}", r.err_at), "stage-spec-violated"), &mut fail),
                        }
                    }
                }
            }
        }
    }
    // STRONG per-stage oracle (review A): valid UTF-8 body, no error.  The stream after each prefix of the filter list is
    // taken from the implementation (single chunk); each built stage must meet its specification on (input, output) —
    // text: exact closed form; insert: only whole copies of the value, at most one per tag token named on the path;
    // replace: only non-overlapping, token-aligned ELEMENT SPANS of the target are substituted (filter_gen::stage_strong).
    let mut strong_tags: Vec<String> = Vec::new();
    if std::str::from_utf8(&body).is_ok() && all[0].1.err_at.is_none() && !kinds.is_empty() {
        let mut prev = body.clone();
        let mut complete = true;
        for j in 0..fs.len() {
            let r = run_chain(&fs[..=j], &headers, &[body.clone()]);
            if r.err_at.is_some() {
                complete = false;
                break;
            }
            let cur = r.concat();
            let built = probe_built.iter().any(|f| std::ptr::eq(*f, &fs[j]));
            if !built {
                if cur != prev {
                    note((format!("filter #{j} builds no stage but changes the stream"), "unbuilt-filter-acts"), &mut fail);
                }
                continue;
            }
            match stage_strong(&prev, &cur, &fs[j]) {
                Ok(None) => strong_tags.push(format!("strong-checked:{}", fs[j].action())),
                Ok(Some(why)) => strong_tags.push(format!("strong-skipped:{why}")),
                Err(why) => note((format!("stage #{j} ({}): {why}", fs[j].action()), "stage-spec-violated"), &mut fail),
            }
            prev = cur;
        }
        if complete && prev != one {
            note(("the output of the chain is not the composition of its prefixes".to_string(), "pipeline-composition"), &mut fail);
        }
    }
    let e1 = all[0].1.err_at;
    let mut o = Obs::new(json!({"kinds": kinds, "one": hex(&one), "e1": e1, "sch": sch, "errs": errs})).trivial(kinds.is_empty() || body.is_empty());
    strong_tags.extend(anybytes_tags);
    strong_tags.sort();
    strong_tags.dedup();
    o.tags.extend(strong_tags);
    if let Some(shape) = case.get("shape").and_then(|s| s.as_str()) {
        o.tags.push(format!("shape:{shape}"));
    }
    o.tags.push(format!("chain:{}", kinds.join("+")));
    if one != body {
        o.tags.push("acted".to_string());
    }
    if e1.is_some() {
        o.tags.push("error-state".to_string());
    }
    if all.iter().any(|(c, r)| matches!(r.err_at, Some(k) if k > 0 && k < c.len())) {
        o.tags.push("error-after-first-chunk".to_string());
    }
    if std::str::from_utf8(&body).is_err() && !invalid_utf8 {
        o.tags.push("truncated-utf8-tail".to_string());
    }
    if has_text_replace {
        o.tags.push("text-replace(no conservativity oracle)".to_string());
    }
    if !sentinel_ok {
        o.tags.push("sentinel-in-body".to_string());
    }
    if !replaces.is_empty() {
        o.tags.push("has-replace".to_string());
    }
    if let Some((why, sig)) = fail {
        o.tags.push(format!("fail:{sig}"));
        return o.fail(why, sig);
    }
    o
}

fn main() {
    main_with(gen, run);
}
