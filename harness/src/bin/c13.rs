//! C13 — header filters: implementation side of the correspondence.
//! case: {"filters":[{"action","header","value"}], "headers":[{"name","value"}], "via":"filter"|"action"}
//! obs:  [[name, value], ...] in output order.
use redirectionio::action::Action;
use redirectionio::api::HeaderFilter;
use redirectionio::filter::FilterHeaderAction;
use redirectionio::http::Header;
use rio_harness::*;
use serde_json::{json, Value};

// non-ASCII cased letters included: the case carries the table name -> str::to_lowercase(name) computed by Rust, which the
// driver uses as the `lower` parameter of the model (the theorems hold for every `lower`)
const NAMES: &[&str] = &["X-A", "x-a", "X-a", "X-B", "x-b", "Keep", "keep", "Set-Cookie", "", "é", "É", "X-É", "x-é", "İ", "i̇", "ǅ", "ǆ", "ẞ", "ß", "Ж", "ж"];
const VALUES: &[&str] = &["", "1", "v", "V", "a b", "é"];
const ACTIONS: &[&str] = &["add", "remove", "replace", "override", "default", "Add", "frobnicate", ""];

fn with_lower(mut case: Value) -> Value {
    let mut table = serde_json::Map::new();
    for key in ["filters", "headers"] {
        if let Some(a) = case.get(key).and_then(|x| x.as_array()) {
            for x in a {
                for f in ["header", "name"] {
                    if let Some(n) = x.get(f).and_then(|n| n.as_str()) {
                        table.insert(n.to_string(), Value::String(n.to_lowercase()));
                    }
                }
            }
        }
    }
    case.as_object_mut().unwrap().insert("lower".to_string(), Value::Object(table));
    case
}

fn gen(args: &Args, emit0: &mut dyn FnMut(Value)) {
    let mut emit_l = |v: Value| emit0(with_lower(v));
    let emit: &mut dyn FnMut(Value) = &mut emit_l;
    let mut rng = Prng::new(args.seed);
    let h = hints();
    if !h.is_empty() {
        // diff-directed cases: hinted strings as header names / values / actions, hinted sizes as list lengths
        let mut names: Vec<String> = vec!["X-A".to_string(), "x-a".to_string()];
        for s in &h.strs {
            names.push(s.clone());
            names.push(s.to_uppercase());
            names.push(s.to_lowercase());
        }
        let acts = ["add", "remove", "replace", "override", "default", "nope"];
        let mut sizes = h.sizes(2000);
        sizes.extend([0usize, 1, 2, 3]);
        for &n in &sizes {
            for a in acts {
                for name in &names {
                    let headers: Vec<Value> = (0..n).map(|i| json!({"name": names[i % names.len()], "value": format!("h{i}")})).collect();
                    for via in ["filter", "action"] {
                        emit(json!({"filters": [{"action": a, "header": name, "value": "v"}, {"action": a, "header": name, "value": "w"}], "headers": headers, "via": via}));
                    }
                }
            }
        }
        for s in &h.strs {
            for a in acts {
                emit(json!({"filters": [{"action": a, "header": "X-A", "value": s}, {"action": s, "header": "X-A", "value": "v"}], "headers": [{"name": "x-a", "value": s}, {"name": s, "value": "1"}], "via": "action"}));
            }
        }
    }
    if args.tier == "thorough" {
        // exhaustive: k <= 3 filters over a 3-name alphabet (mixed case) x header lists of length <= 4 over the same alphabet
        let names = ["X-A", "x-a", "B"];
        let acts = ["add", "remove", "replace", "override", "default", "nope"];
        let mut lists: Vec<Vec<usize>> = vec![vec![]];
        let mut frontier: Vec<Vec<usize>> = vec![vec![]];
        for _ in 0..4 {
            let mut next = Vec::new();
            for l in &frontier {
                for n in 0..names.len() {
                    let mut l2 = l.clone();
                    l2.push(n);
                    next.push(l2);
                }
            }
            lists.extend(next.iter().cloned());
            frontier = next;
        }
        let single: Vec<(usize, usize)> = (0..acts.len()).flat_map(|a| (0..names.len()).map(move |n| (a, n))).collect();
        let mut seqs: Vec<Vec<(usize, usize)>> = vec![vec![]];
        let mut fr: Vec<Vec<(usize, usize)>> = vec![vec![]];
        for _ in 0..3 {
            let mut next = Vec::new();
            for s in &fr {
                for f in &single {
                    let mut s2 = s.clone();
                    s2.push(*f);
                    next.push(s2);
                }
            }
            seqs.extend(next.iter().cloned());
            fr = next;
        }
        for seq in &seqs {
            for l in &lists {
                let filters: Vec<Value> = seq.iter().enumerate().map(|(i, (a, n))| json!({"action": acts[*a], "header": names[*n], "value": format!("f{i}")})).collect();
                let headers: Vec<Value> = l.iter().enumerate().map(|(i, n)| json!({"name": names[*n], "value": format!("h{i}")})).collect();
                emit(json!({"filters": filters, "headers": headers, "via": "filter", "exh": true}));
            }
        }
    }
    for _ in 0..args.n {
        let nf = rng.below(7);
        let nh = rng.below(7);
        let filters: Vec<Value> = (0..nf)
            .map(|_| json!({"action": *rng.pick(ACTIONS), "header": *rng.pick(NAMES), "value": *rng.pick(VALUES)}))
            .collect();
        let headers: Vec<Value> = (0..nh).map(|_| json!({"name": *rng.pick(NAMES), "value": *rng.pick(VALUES)})).collect();
        let via = if rng.chance(1, 2) { "filter" } else { "action" };
        emit(json!({"filters": filters, "headers": headers, "via": via}));
    }
}

fn run(case: &Value) -> Obs {
    let filters: Vec<HeaderFilter> = match case.get("filters").and_then(|f| f.as_array()) {
        Some(a) => {
            let mut v = Vec::new();
            for f in a {
                match (s(f, "action"), s(f, "header"), s(f, "value")) {
                    (Some(action), Some(header), Some(value)) => v.push(HeaderFilter { action, header, value, id: Some("id".to_string()), target_hash: None }),
                    _ => return Obs::invalid("filter"),
                }
            }
            v
        }
        None => return Obs::invalid("filters"),
    };
    let headers: Vec<Header> = match case.get("headers").and_then(|f| f.as_array()) {
        Some(a) => {
            let mut v = Vec::new();
            for h in a {
                match (s(h, "name"), s(h, "value")) {
                    (Some(name), Some(value)) => v.push(Header { name, value }),
                    _ => return Obs::invalid("header"),
                }
            }
            v
        }
        None => return Obs::invalid("headers"),
    };
    let via = s(case, "via").unwrap_or_else(|| "filter".to_string());
    let nontrivial = !filters.is_empty() && !headers.is_empty();
    let out = if via == "action" {
        // through Action::filter_headers: an action deserialised from JSON whose header filters carry no status condition
        let hf: Vec<Value> = filters
            .iter()
            .map(|f| json!({"filter": {"action": f.action, "header": f.header, "value": f.value, "id": null, "target_hash": null}, "on_response_status_codes": [], "exclude_response_status_codes": false, "rule_id": null}))
            .collect();
        let action_json = json!({"status_code_update": null, "header_filters": hf, "body_filters": [], "rule_ids": [], "rule_traces": []});
        let mut action: Action = match serde_json::from_value(action_json) {
            Ok(a) => a,
            Err(e) => return Obs::invalid(&format!("action json: {e}")),
        };
        action.filter_headers(headers, 200, false, None)
    } else {
        match FilterHeaderAction::new(filters) {
            None => headers,
            Some(f) => f.filter(headers, None),
        }
    };
    let obs: Vec<Value> = out.iter().map(|h| json!([h.name, h.value])).collect();
    let mut o = Obs::new(Value::Array(obs)).trivial(!nontrivial);
    o.tags.push(format!("via:{via}"));
    for f in case.get("filters").and_then(|f| f.as_array()).unwrap() {
        o.tags.push(format!("act:{}", f.get("action").and_then(|a| a.as_str()).unwrap_or("?")));
    }
    o
}

fn main() {
    main_with(gen, run);
}
