//! C10 — markers capture the matching text and are substituted: implementation side of the correspondence.
//!
//! case: {"cfg":{"ipc":bool,"ihc":bool,"ihdc":bool},            ignore_path_and_query_case / ignore_host_case / ignore_header_case
//!        "markers":[{"name","regex","tr":[{"type":str|null,"opts":[[k,v]..]|null}]}],
//!        "vars":[{"name","kind":"marker"|"header"|"host"|"method"|"path"|"scheme","arg":str|null,"def":str|null,"tr":[..]}],
//!        "path":str, "host":str|null, "hdrs":[{"name","value"}]   (rule side; header triggers are all `match_regex`)
//!        "target":str|null, "hf":[str], "bf":[str]                 (templates of Location / header-filter / text body-filter values)
//!        "req":{"path":str,"host":str|null,"scheme":str|null,"method":str|null,"hdrs":[[name,value]..]}}
//! obs:  {"match":bool, "outs":[{"loc":[..],"hf":[..],"bf":str,"target":str|null} ..]}
//!       `outs` = the sorted set of outcomes over every order of the variable list that `Rule::variables` can return
//!       (a stable sort by name length over a HashMap iteration: equal-length names come in any order); normally one element.
use redirectionio::action::Action;
use redirectionio::api::Rule;
use redirectionio::http::Request;
use redirectionio::marker::StaticOrDynamic;
use redirectionio::router::Router;
use redirectionio::RouterConfig;
use rio_harness::*;
use serde_json::{json, Value};

const PROBE: &str = "<probe>";

fn get<'a>(v: &'a Value, k: &str) -> &'a Value {
    v.get(k).unwrap_or(&Value::Null)
}

fn str_or_null(v: &Value) -> Result<Option<String>, String> {
    match v {
        Value::Null => Ok(None),
        Value::String(s) => Ok(Some(s.clone())),
        _ => Err("string or null expected".into()),
    }
}

fn strs(v: &Value, what: &str) -> Result<Vec<String>, String> {
    match v {
        Value::Null => Ok(Vec::new()),
        Value::Array(a) => a.iter().map(|x| x.as_str().map(|s| s.to_string()).ok_or_else(|| what.to_string())).collect(),
        _ => Err(what.to_string()),
    }
}

fn transformers_json(v: &Value) -> Result<Value, String> {
    let mut out = Vec::new();
    if let Value::Array(a) = v {
        for t in a {
            let kind = get(t, "type").clone();
            let opts = match get(t, "opts") {
                Value::Null => Value::Null,
                Value::Array(kvs) => {
                    let mut m = serde_json::Map::new();
                    for kv in kvs {
                        match (kv.get(0).and_then(|x| x.as_str()), kv.get(1).and_then(|x| x.as_str())) {
                            (Some(k), Some(val)) => {
                                // serde: a repeated key keeps the last value
                                m.insert(k.to_string(), Value::String(val.to_string()));
                            }
                            _ => return Err("transformer option".into()),
                        }
                    }
                    Value::Object(m)
                }
                _ => return Err("transformer opts".into()),
            };
            out.push(json!({"type": kind, "options": opts}));
        }
    } else if !v.is_null() {
        return Err("transformers".into());
    }
    Ok(Value::Array(out))
}

fn rule_json(case: &Value) -> Result<Value, String> {
    let mut markers = Vec::new();
    for m in get(case, "markers").as_array().ok_or("markers")? {
        markers.push(json!({"name": s(m, "name").ok_or("marker name")?, "regex": s(m, "regex").ok_or("marker regex")?,
                            "transformers": transformers_json(get(m, "tr"))?}));
    }
    let mut variables = Vec::new();
    if let Value::Array(vs) = get(case, "vars") {
        for v in vs {
            let name = s(v, "name").ok_or("var name")?;
            let arg = str_or_null(get(v, "arg"))?;
            let kind = match s(v, "kind").ok_or("var kind")?.as_str() {
                "marker" => json!({"marker": arg.ok_or("marker var needs arg")?}),
                "header" => json!({"request_header": {"name": arg.ok_or("header var needs arg")?, "default": str_or_null(get(v, "def"))?}}),
                "host" => json!("request_host"),
                "method" => json!("request_method"),
                "path" => json!("request_path"),
                "scheme" => json!("request_scheme"),
                _ => return Err("var kind".into()),
            };
            variables.push(json!({"name": name, "type": kind, "transformers": transformers_json(get(v, "tr"))?}));
        }
    }
    let mut headers = Vec::new();
    if let Value::Array(hs) = get(case, "hdrs") {
        for h in hs {
            headers.push(json!({"name": s(h, "name").ok_or("hdr name")?, "type": "match_regex", "value": s(h, "value").ok_or("hdr value")?}));
        }
    }
    let hf: Vec<Value> = strs(get(case, "hf"), "hf")?
        .into_iter()
        .enumerate()
        .map(|(i, v)| json!({"action": "add", "header": format!("X-Out-{i}"), "value": v, "id": null, "target_hash": null}))
        .collect();
    let bf: Vec<Value> = strs(get(case, "bf"), "bf")?
        .into_iter()
        .map(|v| json!({"action": "append_text", "content": v, "id": null, "target_hash": null}))
        .collect();
    Ok(json!({
        "id": "r", "rank": 1,
        "source": {"path": s(case, "path").ok_or("path")?, "host": str_or_null(get(case, "host"))?,
                   "headers": if headers.is_empty() { Value::Null } else { Value::Array(headers) }},
        "target": str_or_null(get(case, "target"))?,
        "status_code": 302,
        "markers": markers,
        "variables": variables,
        "header_filters": hf,
        "body_filters": bf,
    }))
}

fn config_of(case: &Value) -> RouterConfig {
    let c = get(case, "cfg");
    let mut config = RouterConfig::default();
    config.ignore_path_and_query_case = get(c, "ipc").as_bool().unwrap_or(false);
    config.ignore_host_case = get(c, "ihc").as_bool().unwrap_or(false);
    config.ignore_header_case = get(c, "ihdc").as_bool().unwrap_or(false);
    config
}

fn request_of(case: &Value, config: &RouterConfig) -> Result<Request, String> {
    let r = get(case, "req");
    let path = s(r, "path").ok_or("req path")?;
    let mut request = Request::from_config(config, path, str_or_null(get(r, "host"))?, str_or_null(get(r, "scheme"))?, str_or_null(get(r, "method"))?, None, None);
    if let Value::Array(hs) = get(r, "hdrs") {
        for h in hs {
            match (h.get(0).and_then(|x| x.as_str()), h.get(1).and_then(|x| x.as_str())) {
                (Some(n), Some(v)) => request.add_header(n.to_string(), v.to_string(), config.ignore_header_case),
                _ => return Err("req header".into()),
            }
        }
    }
    Ok(request)
}

/// All orders of `vars` that a stable sort by descending name length can produce from some input order.
fn orders(vars: &[(String, String)]) -> Vec<Vec<(String, String)>> {
    let mut sorted = vars.to_vec();
    sorted.sort_by(|(a, _), (b, _)| b.len().cmp(&a.len()));
    let mut groups: Vec<Vec<(String, String)>> = Vec::new();
    for v in sorted {
        match groups.last_mut() {
            Some(g) if g[0].0.len() == v.0.len() => g.push(v),
            _ => groups.push(vec![v]),
        }
    }
    fn perms(g: &[(String, String)]) -> Vec<Vec<(String, String)>> {
        if g.len() <= 1 {
            return vec![g.to_vec()];
        }
        let mut out = Vec::new();
        for i in 0..g.len() {
            let mut rest = g.to_vec();
            let x = rest.remove(i);
            for mut p in perms(&rest) {
                p.insert(0, x.clone());
                out.push(p);
            }
        }
        out
    }
    let mut acc: Vec<Vec<(String, String)>> = vec![vec![]];
    for g in &groups {
        let ps = perms(g);
        let mut next = Vec::new();
        for a in &acc {
            for p in &ps {
                let mut a2 = a.clone();
                a2.extend(p.iter().cloned());
                next.push(a2);
                if next.len() > 5040 {
                    return next;
                }
            }
        }
        acc = next;
    }
    acc
}

fn run(case: &Value) -> Obs {
    let rj = match rule_json(case) {
        Ok(j) => j,
        Err(e) => return Obs::invalid(&e),
    };
    let rule: Rule = match serde_json::from_value(rj) {
        Ok(r) => r,
        Err(e) => return Obs::invalid(&format!("rule json: {e}")),
    };
    let config = config_of(case);
    let request = match request_of(case, &config) {
        Ok(r) => r,
        Err(e) => return Obs::invalid(&e),
    };
    let target_t = rule.target.clone();
    let hf_t: Vec<String> = rule.header_filters.clone().unwrap_or_default().into_iter().map(|f| f.value).collect();
    let bf_t: Vec<String> = strs(get(case, "bf"), "bf").unwrap_or_default();
    let explicit_vars = !rule.variables.is_empty();
    let n_markers = rule.markers.len();
    let mut router = Router::<Rule>::from_config(config.clone());
    router.insert(rule);
    let routes = router.match_request(&request);
    let mut tags = vec![format!("markers:{n_markers}"), format!("vars:{}", if explicit_vars { "explicit" } else { "bc" })];
    if config.ignore_path_and_query_case { tags.push("cfg:ipc".into()); }
    if config.ignore_host_case { tags.push("cfg:ihc".into()); }
    if config.ignore_header_case { tags.push("cfg:ihdc".into()); }
    if routes.is_empty() {
        tags.push("match:no".into());
        let mut o = Obs::new(json!({"match": false})).trivial(n_markers == 0);
        o.tags = tags;
        return o;
    }
    tags.push("match:yes".into());
    let route = routes[0].clone();
    // the outcome the library produced
    let mut action = Action::from_routes_rule(routes, &request, None);
    let headers = action.filter_headers(Vec::new(), 302, false, None);
    let loc: Vec<String> = headers.iter().filter(|h| h.name == "Location").map(|h| h.value.clone()).collect();
    let hf: Vec<String> = headers.iter().filter(|h| h.name.starts_with("X-Out-")).map(|h| h.value.clone()).collect();
    let bf = match action.create_filter_body(200, &[]) {
        None => String::new(),
        Some(mut fb) => {
            let mut o = fb.filter(PROBE.as_bytes().to_vec(), None);
            o.extend(fb.end(None));
            String::from_utf8_lossy(&o).to_string()
        }
    };
    let target = Action::get_target(&route, &request);
    let actual = json!({"loc": loc, "hf": hf, "bf": bf});
    // every outcome the variable order could have produced (real `capture`, `variables`, `replace`)
    let captured = route.capture(&request);
    let vars = route.handler().variables(&captured, &request);
    let mut outs: Vec<Value> = Vec::new();
    let all = if explicit_vars { vec![vars.clone()] } else { orders(&vars) };
    for order in &all {
        let t = target_t.as_ref().map(|t| StaticOrDynamic::replace(t.clone(), order));
        let l: Vec<String> = match &t {
            Some(t) if !target_t.as_ref().unwrap().is_empty() => vec![t.clone()],
            _ => vec![],
        };
        let h: Vec<String> = hf_t.iter().map(|v| StaticOrDynamic::replace(v.clone(), order)).collect();
        let mut b = if bf_t.is_empty() { String::new() } else { PROBE.to_string() };
        for v in &bf_t {
            b.push_str(&StaticOrDynamic::replace(v.clone(), order));
        }
        let o = json!({"loc": l, "hf": h, "bf": b, "target": t});
        if !outs.contains(&o) {
            outs.push(o);
        }
    }
    // `from_routes_rule` and `get_target` each call `variables` (each with its own HashMap order)
    let strip = |o: &Value| json!({"loc": o["loc"], "hf": o["hf"], "bf": o["bf"]});
    let actual_ok = outs.iter().any(|o| strip(o) == actual) && outs.iter().any(|o| o["target"] == json!(target));
    outs.sort_by_key(|o| o.to_string());
    if captured.len() > 0 { tags.push(format!("captured:{}", captured.len())); }
    let mut o = Obs::new(json!({"match": true, "outs": outs})).trivial(n_markers == 0);
    o.tags = tags;
    if !actual_ok {
        return o.fail(format!("the action's outcome {actual} / get_target {target:?} is not among the outcomes of capture + variables + replace"), "action-not-in-orders");
    }
    if outs.len() > 1 {
        return o.fail("the outcome depends on the HashMap iteration order of the captured markers (equal-length names)", "hashmap-order");
    }
    o
}

fn gen(args: &Args, emit: &mut dyn FnMut(Value)) {
    let mut rng = Prng::new(args.seed);
    for _ in 0..args.n {
        let _ = rng.next();
        emit(json!({"cfg": {}, "markers": [{"name": "id", "regex": "[0-9]+"}], "path": "/a/@id", "target": "/t/@id", "req": {"path": "/a/12"}}));
    }
}

fn main() {
    main_with(gen, run);
}
