//! C10 — markers capture the matching text and are substituted: implementation side of the correspondence.
//!
//! case: {"cfg":{"ipc":bool,"ihc":bool,"ihdc":bool},            ignore_path_and_query_case / ignore_host_case / ignore_header_case
//!        "markers":[{"name","regex","tr":[{"type":str|null,"opts":[[k,v]..]|null}]}],
//!        "vars":[{"name","kind":"marker"|"header"|"host"|"method"|"path"|"scheme"|"ip"|"time","arg":str|null,"def":str|null,"tr":[..]}],
//!        "path":str, "host":str|null, "hdrs":[{"name","value"}]   (rule side; header triggers are all `match_regex`)
//!        "target":str|null, "hf":[str], "bf":[str], "hbf":[[value, inner|null]]   (templates of Location / header-filter values /
//!                                                  text body-filter contents / html body-filter value + inner_value)
//!        "req":{"path":str,"host":str|null,"scheme":str|null,"method":str|null,"hdrs":[[name,value]..],"ip":str|null,
//!               "time":{"secs":i64,"year":i64,"rfc2822":str|null,"rfc3339":str}|null},
//!        "cache":{"calls":[limit|null ..],"on_clone":bool}?}      (Router::cache calls after which everything is observed again)
//! obs:  {"match":bool, "outs":[{"loc":[..],"hf":[..],"bf":str,"hb":[[value,inner]..],"target":str|null} ..]}
//!       `outs` = [the outcome] (one element: since repair 96f3afa the variable order is fixed; an always-on oracle, sig
//!       `nondeterministic`, fails if from_routes_rule / get_target / repeated `variables` calls disagree).
use redirectionio::action::Action;
use redirectionio::api::Rule;
use redirectionio::http::Request;
use redirectionio::marker::StaticOrDynamic;
use redirectionio::router::Router;
use redirectionio::RouterConfig;
use rio_harness::*;
use serde_json::{json, Value};

const PROBE: &str = "<probe>";

fn get<'a>(v: &'a Value, k: &str) -> &'a Value {
    v.get(k).unwrap_or(&Value::Null)
}

fn str_or_null(v: &Value) -> Result<Option<String>, String> {
    match v {
        Value::Null => Ok(None),
        Value::String(s) => Ok(Some(s.clone())),
        _ => Err("string or null expected".into()),
    }
}

fn strs(v: &Value, what: &str) -> Result<Vec<String>, String> {
    match v {
        Value::Null => Ok(Vec::new()),
        Value::Array(a) => a.iter().map(|x| x.as_str().map(|s| s.to_string()).ok_or_else(|| what.to_string())).collect(),
        _ => Err(what.to_string()),
    }
}

fn transformers_json(v: &Value) -> Result<Value, String> {
    let mut out = Vec::new();
    if let Value::Array(a) = v {
        for t in a {
            let kind = get(t, "type").clone();
            let opts = match get(t, "opts") {
                Value::Null => Value::Null,
                Value::Array(kvs) => {
                    let mut m = serde_json::Map::new();
                    for kv in kvs {
                        match (kv.get(0).and_then(|x| x.as_str()), kv.get(1).and_then(|x| x.as_str())) {
                            (Some(k), Some(val)) => {
                                // serde: a repeated key keeps the last value
                                m.insert(k.to_string(), Value::String(val.to_string()));
                            }
                            _ => return Err("transformer option".into()),
                        }
                    }
                    Value::Object(m)
                }
                _ => return Err("transformer opts".into()),
            };
            out.push(json!({"type": kind, "options": opts}));
        }
    } else if !v.is_null() {
        return Err("transformers".into());
    }
    Ok(Value::Array(out))
}

fn html_filters(case: &Value) -> Result<Vec<(String, Option<String>)>, String> {
    let mut out = Vec::new();
    if let Value::Array(a) = get(case, "hbf") {
        for f in a {
            let v = f.get(0).and_then(|x| x.as_str()).ok_or("hbf value")?;
            let i = str_or_null(f.get(1).unwrap_or(&Value::Null))?;
            out.push((v.to_string(), i));
        }
    } else if !get(case, "hbf").is_null() {
        return Err("hbf".into());
    }
    Ok(out)
}

fn rule_json(case: &Value) -> Result<Value, String> {
    let mut markers = Vec::new();
    for m in get(case, "markers").as_array().ok_or("markers")? {
        markers.push(json!({"name": s(m, "name").ok_or("marker name")?, "regex": s(m, "regex").ok_or("marker regex")?,
                            "transformers": transformers_json(get(m, "tr"))?}));
    }
    let mut variables = Vec::new();
    if let Value::Array(vs) = get(case, "vars") {
        for v in vs {
            let name = s(v, "name").ok_or("var name")?;
            let arg = str_or_null(get(v, "arg"))?;
            let kind = match s(v, "kind").ok_or("var kind")?.as_str() {
                "marker" => json!({"marker": arg.ok_or("marker var needs arg")?}),
                "header" => json!({"request_header": {"name": arg.ok_or("header var needs arg")?, "default": str_or_null(get(v, "def"))?}}),
                "host" => json!("request_host"),
                "method" => json!("request_method"),
                "path" => json!("request_path"),
                "scheme" => json!("request_scheme"),
                "ip" => json!("request_remote_address"),
                "time" => json!("request_time"),
                _ => return Err("var kind".into()),
            };
            variables.push(json!({"name": name, "type": kind, "transformers": transformers_json(get(v, "tr"))?}));
        }
    }
    let mut headers = Vec::new();
    if let Value::Array(hs) = get(case, "hdrs") {
        for h in hs {
            headers.push(json!({"name": s(h, "name").ok_or("hdr name")?, "type": "match_regex", "value": s(h, "value").ok_or("hdr value")?}));
        }
    }
    let hf: Vec<Value> = strs(get(case, "hf"), "hf")?
        .into_iter()
        .enumerate()
        .map(|(i, v)| json!({"action": "add", "header": format!("X-Out-{i}"), "value": v, "id": null, "target_hash": null}))
        .collect();
    let mut bf: Vec<Value> = strs(get(case, "bf"), "bf")?
        .into_iter()
        .map(|v| json!({"action": "append_text", "content": v, "id": null, "target_hash": null}))
        .collect();
    for (v, i) in html_filters(case)? {
        bf.push(json!({"action": "append_child", "value": v, "inner_value": i, "element_tree": ["html", "body"], "css_selector": null, "id": null, "target_hash": null}));
    }
    Ok(json!({
        "id": "r", "rank": 1,
        "source": {"path": s(case, "path").ok_or("path")?, "host": str_or_null(get(case, "host"))?,
                   "headers": if headers.is_empty() { Value::Null } else { Value::Array(headers) }},
        "target": str_or_null(get(case, "target"))?,
        "status_code": 302,
        "markers": markers,
        "variables": variables,
        "header_filters": hf,
        "body_filters": bf,
    }))
}

fn config_of(case: &Value) -> RouterConfig {
    let c = get(case, "cfg");
    let mut config = RouterConfig::default();
    config.ignore_path_and_query_case = get(c, "ipc").as_bool().unwrap_or(false);
    config.ignore_host_case = get(c, "ihc").as_bool().unwrap_or(false);
    config.ignore_header_case = get(c, "ihdc").as_bool().unwrap_or(false);
    config
}

fn request_of(case: &Value, config: &RouterConfig) -> Result<Request, String> {
    let r = get(case, "req");
    let path = s(r, "path").ok_or("req path")?;
    // the client address must be in the canonical form `IpAddr::to_string` prints (the model takes the string as it is)
    let ip = match str_or_null(get(r, "ip"))? {
        None => None,
        Some(text) => {
            let ip: std::net::IpAddr = text.parse().map_err(|_| "ip".to_string())?;
            if ip.to_string() != text {
                return Err("ip not in canonical form".into());
            }
            Some(ip)
        }
    };
    let mut request = Request::from_config(config, path, str_or_null(get(r, "host"))?, str_or_null(get(r, "scheme"))?, str_or_null(get(r, "method"))?, ip, None);
    // the request time: seconds since the epoch; `year` / `rfc2822` / `rfc3339` in the case are chrono's own renderings (computed
    // by the generator): chrono's formatting is a table for the model, the branch on the year is modelled
    request.created_at = match get(r, "time") {
        Value::Null => None,
        t => {
            let secs = t.get("secs").and_then(|x| x.as_i64()).ok_or("time secs")?;
            let dt = chrono::DateTime::<chrono::Utc>::from_timestamp(secs, 0).ok_or("time out of range")?;
            use chrono::Datelike;
            let in_range = (0..=9999).contains(&dt.year());
            if t.get("year").and_then(|x| x.as_i64()) != Some(dt.year() as i64)
                || (in_range && t.get("rfc2822").and_then(|x| x.as_str()) != Some(dt.to_rfc2822().as_str()))
                || t.get("rfc3339").and_then(|x| x.as_str()) != Some(dt.to_rfc3339().as_str())
            {
                return Err("time renderings do not belong to secs".into());
            }
            Some(dt)
        }
    };
    if let Value::Array(hs) = get(r, "hdrs") {
        for h in hs {
            match (h.get(0).and_then(|x| x.as_str()), h.get(1).and_then(|x| x.as_str())) {
                (Some(n), Some(v)) => request.add_header(n.to_string(), v.to_string(), config.ignore_header_case),
                _ => return Err("req header".into()),
            }
        }
    }
    Ok(request)
}

/// Sort key shared with the driver (plain byte order of the fields joined by control characters).
fn outcome_key(o: &Value) -> String {
    let list = |v: &Value| v.as_array().map(|a| a.iter().map(|x| x.as_str().unwrap_or("").to_string()).collect::<Vec<_>>().join("\u{2}")).unwrap_or_default();
    let pairs = |v: &Value| v.as_array().map(|a| a.iter().map(|x| format!("{}\u{4}{}", x[0].as_str().unwrap_or(""), x[1].as_str().unwrap_or(""))).collect::<Vec<_>>().join("\u{2}")).unwrap_or_default();
    format!("{}\u{1}{}\u{1}{}\u{1}{}\u{1}{}", list(&o["loc"]), list(&o["hf"]), o["bf"].as_str().unwrap_or(""), pairs(&o["hb"]), o["target"].as_str().unwrap_or("\u{3}"))
}

/// `{"kind":"sub","vars":[[name,value]..],"ts":[template..]}`: the variable list goes through the real `Rule::variables`
/// (request-header variables with a default and no such header: value = default), then `StaticOrDynamic::replace`.
fn run_sub(case: &Value) -> Obs {
    let mut variables = Vec::new();
    let vars = match get(case, "vars").as_array() {
        Some(a) => a,
        None => return Obs::invalid("vars"),
    };
    for v in vars {
        match (v.get(0).and_then(|x| x.as_str()), v.get(1).and_then(|x| x.as_str())) {
            (Some(n), Some(val)) => variables.push(json!({"name": n, "type": {"request_header": {"name": "X-None", "default": val}}, "transformers": []})),
            _ => return Obs::invalid("var"),
        }
    }
    if variables.is_empty() {
        return Obs::invalid("no variables");
    }
    let ts = match strs(get(case, "ts"), "ts") {
        Ok(t) => t,
        Err(e) => return Obs::invalid(&e),
    };
    let rule: Rule = match serde_json::from_value(json!({"id": "r", "rank": 1, "source": {"path": "/x"}, "variables": variables})) {
        Ok(r) => r,
        Err(e) => return Obs::invalid(&format!("rule json: {e}")),
    };
    let request = Request::from_config(&RouterConfig::default(), "/x".to_string(), None, None, None, None, None);
    let sorted = rule.variables(&std::collections::HashMap::new(), &request);
    let outs: Vec<String> = ts.iter().map(|t| StaticOrDynamic::replace(t.clone(), &sorted)).collect();
    let mut o = Obs::new(json!({"vars": sorted.iter().map(|(n, v)| json!([n, v])).collect::<Vec<_>>(), "outs": outs})).trivial(ts.iter().all(|t| !t.contains('@')));
    o.tags.push("kind:sub".into());
    o
}

/// `{"kind":"tr","chain":[{"type","opts"}..],"vals":[str..]}`: a transformer chain applied to raw strings by the real code (each
/// string is the default of a request-header variable whose header is absent; `Rule::variables` applies the chain).
fn run_tr(case: &Value) -> Obs {
    let chain = match transformers_json(get(case, "chain")) {
        Ok(c) => c,
        Err(e) => return Obs::invalid(&e),
    };
    let vals = match strs(get(case, "vals"), "vals") {
        Ok(v) if !v.is_empty() && v.len() < 10000 => v,
        _ => return Obs::invalid("vals"),
    };
    let variables: Vec<Value> = vals
        .iter()
        .enumerate()
        .map(|(i, v)| json!({"name": format!("v{i:04}"), "type": {"request_header": {"name": "X-None", "default": v}}, "transformers": chain}))
        .collect();
    let rule: Rule = match serde_json::from_value(json!({"id": "r", "rank": 1, "source": {"path": "/x"}, "variables": variables})) {
        Ok(r) => r,
        Err(e) => return Obs::invalid(&format!("rule json: {e}")),
    };
    let request = Request::from_config(&RouterConfig::default(), "/x".to_string(), None, None, None, None, None);
    let mut out = rule.variables(&std::collections::HashMap::new(), &request);
    out.sort();
    let mut o = Obs::new(json!(out.into_iter().map(|(_, v)| v).collect::<Vec<_>>())).trivial(chain.as_array().map(|a| a.is_empty()).unwrap_or(true));
    o.tags.push("kind:tr".into());
    o
}

/// `{"kind":"uni","cfg":{..},"layer":"path"|"host"|"header","lit":str,"req_lit":str,"regex":str,"value":str}`: NON-ASCII cased text in
/// captured values and in literals under the ignore-case flags.  The driver's character model is ASCII, so these cases are judged
/// on the implementation alone: the value as the layer normalises it (path: sanitised; host / header: `str::to_lowercase` under
/// the flag) accepted by the real crate's `^(?:re)$` ⇒ the rule matches and Location = `/t/` + that value; rejected (and
/// delimiter-free, path / host) ⇒ no match.
fn run_uni(case: &Value) -> Obs {
    use regex::RegexBuilder;
    let config = config_of(case);
    let (layer, lit, req_lit, re, value) = match (s(case, "layer"), s(case, "lit"), s(case, "req_lit"), s(case, "regex"), s(case, "value")) {
        (Some(a), Some(b), Some(c), Some(d), Some(e)) => (a, b, c, d, e),
        _ => return Obs::invalid("uni fields"),
    };
    if [&lit, &req_lit, &value].iter().any(|t| t.contains('?') || t.contains('/') || t.contains('.') || t.contains(';') || t.contains('=')) {
        return Obs::invalid("uni: text must be free of the delimiters");
    }
    let (rule_src, req_path, req_host, req_hdr, nv, ic_match) = match layer.as_str() {
        "path" => (json!({"path": format!("/{lit}/@m/x")}), format!("/{req_lit}/{value}/x"), None, None,
                   redirectionio::http::sanitize_url(&value), config.ignore_path_and_query_case),
        // (the library lower-cases the WHOLE host / header value: context-sensitive mappings such as the final sigma are judged in
        // that context, so the expected value is cut out of the lower-cased whole)
        "host" => {
            let whole = format!("{value}.{req_lit}.org");
            let nv = if config.ignore_host_case { whole.to_lowercase().split('.').next().unwrap_or("").to_string() } else { value.clone() };
            (json!({"path": "/p", "host": format!("@m.{lit}.org")}), "/p".to_string(), Some(whole), None, nv, config.ignore_host_case)
        }
        "header" => {
            let whole = format!("{req_lit}={value};k");
            let nv = if config.ignore_header_case {
                let l = whole.to_lowercase();
                l.split('=').nth(1).unwrap_or("").split(';').next().unwrap_or("").to_string()
            } else {
                value.clone()
            };
            // the trigger regex is case-sensitive while the request value is lower-cased under the flag (by design, also for ASCII):
            // the rule literal is written in lower case then
            let rule_lit = if config.ignore_header_case { lit.to_lowercase() } else { lit.clone() };
            (json!({"path": "/p", "headers": [{"name": "X-Foo", "type": "match_regex", "value": format!("{rule_lit}=@m;k")}]}), "/p".to_string(), None, Some(whole), nv, false)
        }
        _ => return Obs::invalid("uni layer"),
    };
    let rule: Rule = match serde_json::from_value(json!({"id": "r", "rank": 1, "source": rule_src, "target": "/t/@m", "status_code": 302,
                                                         "markers": [{"name": "m", "regex": re, "transformers": []}]})) {
        Ok(r) => r,
        Err(e) => return Obs::invalid(&format!("rule json: {e}")),
    };
    let mut request = Request::from_config(&config, req_path, req_host, None, None, None, None);
    if let Some(h) = req_hdr {
        request.add_header("x-foo".to_string(), h, config.ignore_header_case);
    }
    let accepted = match RegexBuilder::new(&format!("^(?:{re})$")).case_insensitive(ic_match).build() {
        Ok(r) => r.is_match(&nv),
        Err(_) => return Obs::invalid("uni regex"),
    };
    let mut router = Router::<Rule>::from_config(config.clone());
    router.insert(rule);
    let routes = router.match_request(&request);
    let matched = !routes.is_empty();
    let loc = if matched {
        let mut action = Action::from_routes_rule(routes, &request, None);
        action.filter_headers(Vec::new(), 302, false, None).into_iter().find(|h| h.name == "Location").map(|h| h.value)
    } else {
        None
    };
    let mut o = Obs::new(json!({"match": matched, "loc": loc, "accepted": accepted, "nv": nv}));
    o.tags.push(format!("kind:uni:{layer}"));
    if get(case, "hint").as_bool() == Some(true) {
        o.tags.push("hint:out-of-model".into());
    }
    if accepted && !matched {
        // known class (O-W9-1): under ignore_host_case the request host is lower-cased with str::to_lowercase (full mapping) while the
        // LITERAL of a dynamic rule host stays as written inside a (?i) regex with simple case folding: a literal that its own
        // lower-cased form does not match case-insensitively (e.g. `İ` -> `i̇`) makes the rule miss even the identical host.
        // Exactly that class gets its own signature; everything else stays `unicode-case`.
        let literal_breaks = layer == "host"
            && config.ignore_host_case
            && req_lit == lit
            && RegexBuilder::new(&format!("^{}$", regex::escape(&lit))).case_insensitive(true).build().map(|r| !r.is_match(&lit.to_lowercase())).unwrap_or(false);
        if literal_breaks {
            return o.fail(format!("ignore_host_case: the rule host literal {lit:?} is not matched by its own lower-cased form {:?}, so the identical request host does not match", lit.to_lowercase()),
                          "host-literal-multichar-lowercase");
        }
        return o.fail(format!("the value {nv:?} is accepted by {re:?} but the rule does not match"), "unicode-case");
    }
    if accepted && loc != Some(format!("/t/{nv}")) {
        return o.fail(format!("Location {loc:?} is not /t/ + the normalised value {nv:?}"), "unicode-case");
    }
    if !accepted && matched && layer != "header" {
        return o.fail(format!("the value {nv:?} is rejected by {re:?} but the rule matches"), "unicode-case");
    }
    o
}

/// `{"kind":"law","ic":bool,"ts":[["l",char]|["g",name,re]..],"s":str}`: the ASSUMPTION of the matching theorems, checked on the
/// real crate: the pattern rendered from the tokens matches exactly the strings that decompose along the tokens (each group
/// value accepted by `^(?:re)$`), unanchored search = some substring decomposes, the captures are the first-occurrence values
/// of some decomposition.
fn run_law(case: &Value) -> Obs {
    use regex::RegexBuilder;
    let ic = get(case, "ic").as_bool().unwrap_or(false);
    let hay = match s(case, "s") {
        Some(h) => h,
        None => return Obs::invalid("s"),
    };
    enum T {
        Lit(char),
        Grp(String, String),
    }
    let mut ts = Vec::new();
    match get(case, "ts").as_array() {
        None => return Obs::invalid("ts"),
        Some(a) => {
            for t in a {
                match (t.get(0).and_then(|x| x.as_str()), t.get(1).and_then(|x| x.as_str()), t.get(2).and_then(|x| x.as_str())) {
                    (Some("l"), Some(c), None) if c.chars().count() == 1 => ts.push(T::Lit(c.chars().next().unwrap())),
                    (Some("g"), Some(n), Some(re)) => ts.push(T::Grp(n.to_string(), re.to_string())),
                    _ => return Obs::invalid("token"),
                }
            }
        }
    }
    let mut regex = String::new();
    let mut capture = String::new();
    let mut seen: Vec<&str> = Vec::new();
    for t in &ts {
        match t {
            T::Lit(c) => {
                let e = regex::escape(&c.to_string());
                regex.push_str(&e);
                capture.push_str(&e);
            }
            T::Grp(n, re) => {
                regex.push_str(&format!("(?:{re})"));
                if seen.contains(&n.as_str()) {
                    capture.push_str(&format!("(?:{re})"));
                } else {
                    seen.push(n.as_str());
                    capture.push_str(&format!("(?P<{n}>{re})"));
                }
            }
        }
    }
    let build = |p: &str| RegexBuilder::new(p).case_insensitive(ic).build();
    let (full_re, search_re, cap_re) = match (build(&format!("^{regex}$")), build(&regex), build(&format!("^{capture}$"))) {
        (Ok(a), Ok(b), Ok(c)) => (a, b, c),
        _ => return Obs::new(json!({"regex": regex, "capture": capture, "compile": false})).trivial(true),
    };
    let full = full_re.is_match(&hay);
    let search = search_re.is_match(&hay);
    let caps: Option<Vec<(String, String)>> = cap_re.captures(&hay).map(|c| {
        let mut v: Vec<(String, String)> = cap_re.capture_names().flatten().filter_map(|n| c.name(n).map(|m| (n.to_string(), m.as_str().to_string()))).collect();
        v.sort();
        v
    });
    // brute force over the decompositions, with the real language of every group
    let accs: Vec<Option<regex::Regex>> = ts.iter().map(|t| match t { T::Grp(_, re) => build(&format!("^(?:{re})$")).ok(), _ => None }).collect();
    let chars: Vec<char> = hay.chars().collect();
    let ceq = |a: char, b: char| a == b || (ic && a.is_ascii() && b.is_ascii() && a.to_ascii_lowercase() == b.to_ascii_lowercase());
    // all decompositions of chars[from..to) along ts[i..], as lists of (name, value)
    fn go(ts: &[T], accs: &[Option<regex::Regex>], chars: &[char], i: usize, from: usize, to: usize, ceq: &dyn Fn(char, char) -> bool, cur: &mut Vec<(String, String)>, out: &mut Vec<Vec<(String, String)>>) {
        if out.len() > 64 {
            return;
        }
        if i == ts.len() {
            if from == to {
                out.push(cur.clone());
            }
            return;
        }
        match &ts[i] {
            T::Lit(c) => {
                if from < to && ceq(*c, chars[from]) {
                    go(ts, accs, chars, i + 1, from + 1, to, ceq, cur, out);
                }
            }
            T::Grp(n, _) => {
                for end in from..=to {
                    let v: String = chars[from..end].iter().collect();
                    if accs[i].as_ref().map(|r| r.is_match(&v)).unwrap_or(false) {
                        cur.push((n.clone(), v));
                        go(ts, accs, chars, i + 1, end, to, ceq, cur, out);
                        cur.pop();
                    }
                }
            }
        }
    }
    let mut all = Vec::new();
    go(&ts, &accs, &chars, 0, 0, chars.len(), &ceq, &mut Vec::new(), &mut all);
    let mut any_sub = false;
    'outer: for a in 0..=chars.len() {
        for b in a..=chars.len() {
            let mut o = Vec::new();
            go(&ts, &accs, &chars, 0, a, b, &ceq, &mut Vec::new(), &mut o);
            if !o.is_empty() {
                any_sub = true;
                break 'outer;
            }
        }
    }
    let first_values = |vs: &Vec<(String, String)>| {
        let mut m: Vec<(String, String)> = Vec::new();
        for (n, v) in vs {
            if !m.iter().any(|(k, _)| k == n) {
                m.push((n.clone(), v.clone()));
            }
        }
        m.sort();
        m
    };
    let caps_ok = match &caps {
        None => all.is_empty(),
        Some(c) => all.iter().any(|vs| &first_values(vs) == c),
    };
    let mut o = Obs::new(json!({"regex": regex, "capture": capture, "full": full, "search": search,
        "caps": caps.as_ref().map(|c| c.iter().map(|(n, v)| json!([n, v])).collect::<Vec<_>>())}))
    .trivial(!ts.iter().any(|t| matches!(t, T::Grp(..))));
    o.tags.push("kind:law".into());
    o.tags.push(format!("law:full={full}"));
    if all.len() > 1 {
        o.tags.push("law:ambiguous".into());
    }
    if full != !all.is_empty() {
        return o.fail(format!("engine law: ^regex$ matches = {full} but a decomposition along the tokens exists = {}", !all.is_empty()), "engine-law");
    }
    if search != any_sub {
        return o.fail(format!("engine law: unanchored search = {search} but some substring decomposes = {any_sub}"), "engine-law");
    }
    if !caps_ok && all.len() <= 64 {
        return o.fail("engine law: the captures are not the first-occurrence values of any decomposition", "engine-law");
    }
    o
}

fn run(case: &Value) -> Obs {
    if get(case, "kind").as_str() == Some("sub") {
        return run_sub(case);
    }
    if get(case, "kind").as_str() == Some("law") {
        return run_law(case);
    }
    if get(case, "kind").as_str() == Some("tr") {
        return run_tr(case);
    }
    if get(case, "kind").as_str() == Some("uni") {
        return run_uni(case);
    }
    // query strings (sorting, marketing parameters) are C09's: paths here have none, and start with '/'
    for p in [s(case, "path"), s(get(case, "req"), "path")] {
        match p {
            Some(p) if p.starts_with('/') && !p.contains('?') => {}
            _ => return Obs::invalid("path must start with '/' and contain no '?'"),
        }
    }
    let rj = match rule_json(case) {
        Ok(j) => j,
        Err(e) => return Obs::invalid(&e),
    };
    let rule: Rule = match serde_json::from_value(rj) {
        Ok(r) => r,
        Err(e) => return Obs::invalid(&format!("rule json: {e}")),
    };
    let config = config_of(case);
    let request = match request_of(case, &config) {
        Ok(r) => r,
        Err(e) => return Obs::invalid(&e),
    };
    let ctx = Ctx {
        target_t: rule.target.clone(),
        hf_t: rule.header_filters.clone().unwrap_or_default().into_iter().map(|f| f.value).collect(),
        bf_t: strs(get(case, "bf"), "bf").unwrap_or_default(),
        hbf_t: html_filters(case).unwrap_or_default(),
        explicit_vars: !rule.variables.is_empty(),
    };
    let n_markers = rule.markers.len();
    let mut router = Router::<Rule>::from_config(config.clone());
    router.insert(rule);
    let mut tags = vec![format!("markers:{n_markers}"), format!("vars:{}", if ctx.explicit_vars { "explicit" } else { "bc" })];
    if config.ignore_path_and_query_case { tags.push("cfg:ipc".into()); }
    if config.ignore_host_case { tags.push("cfg:ihc".into()); }
    if config.ignore_header_case { tags.push("cfg:ihdc".into()); }
    let (obs, failure, n_captured) = observe(&router, &request, &ctx);
    tags.push(if obs["match"] == json!(true) { "match:yes".into() } else { "match:no".into() });
    if n_captured > 0 { tags.push(format!("captured:{n_captured}")); }
    // C12 (capture clause): warming the caches — on this router or on a clone that shares the routes — changes nothing
    let mut cache_failure = None;
    if let Value::Object(c) = get(case, "cache") {
        let calls: Vec<Option<u64>> = c.get("calls").and_then(|x| x.as_array()).map(|a| a.iter().map(|l| l.as_u64()).collect()).unwrap_or_default();
        let on_clone = c.get("on_clone").and_then(|x| x.as_bool()).unwrap_or(false);
        tags.push(format!("cache:{}{}", calls.len(), if on_clone { ":clone" } else { "" }));
        let mut clone = if on_clone { Some(router.clone()) } else { None };
        for (i, limit) in calls.iter().enumerate() {
            match clone.as_mut() {
                Some(c) => c.cache(*limit),
                None => router.cache(*limit),
            }
            let (obs2, _, _) = observe(&router, &request, &ctx);
            if obs2 != obs && cache_failure.is_none() {
                cache_failure = Some(format!("after cache call {} (limit {:?}{}) the observation changed from {obs} to {obs2}", i + 1, limit, if on_clone { ", on a clone" } else { "" }));
            }
            if let Some(c) = clone.as_ref() {
                let (obs3, _, _) = observe(c, &request, &ctx);
                if obs3 != obs && cache_failure.is_none() {
                    cache_failure = Some(format!("the cached clone observes {obs3} instead of {obs}"));
                }
            }
        }
    }
    let mut o = Obs::new(obs).trivial(n_markers == 0);
    o.tags = tags;
    if let Some(why) = cache_failure {
        return o.fail(why, "cache-visible");
    }
    if let Some((why, sig)) = failure {
        return o.fail(why, sig);
    }
    o
}

struct Ctx {
    target_t: Option<String>,
    hf_t: Vec<String>,
    bf_t: Vec<String>,
    hbf_t: Vec<(String, Option<String>)>,
    explicit_vars: bool,
}

/// Match the request and observe the action: (canonical observation, oracle failure, number of captured markers).
fn observe(router: &Router<Rule>, request: &Request, ctx: &Ctx) -> (Value, Option<(String, &'static str)>, usize) {
    let routes = router.match_request(request);
    if routes.is_empty() {
        return (json!({"match": false}), None, 0);
    }
    let route = routes[0].clone();
    // the outcome the library produced
    let mut action = Action::from_routes_rule(routes, request, None);
    let headers = action.filter_headers(Vec::new(), 302, false, None);
    let loc: Vec<String> = headers.iter().filter(|h| h.name == "Location").map(|h| h.value.clone()).collect();
    let hf: Vec<String> = headers.iter().filter(|h| h.name.starts_with("X-Out-")).map(|h| h.value.clone()).collect();
    // html filters: the substituted value / inner_value as carried by the action (serde), not applied
    let action_json = serde_json::to_value(&action).unwrap_or(Value::Null);
    let hb: Vec<Value> = action_json["body_filters"]
        .as_array()
        .map(|a| a.iter().filter(|f| f["filter"].get("element_tree").is_some()).map(|f| json!([f["filter"]["value"], f["filter"]["inner_value"]])).collect())
        .unwrap_or_default();
    // a non-html content type drops the html filters from the chain: the probe only sees the text filters
    let plain = [redirectionio::http::Header { name: "Content-Type".to_string(), value: "text/plain".to_string() }];
    let bf = match action.create_filter_body(200, &plain) {
        None => String::new(),
        Some(mut fb) => {
            let mut o = fb.filter(PROBE.as_bytes().to_vec(), None);
            o.extend(fb.end(None));
            String::from_utf8_lossy(&o).to_string()
        }
    };
    let target = Action::get_target(&route, request);
    let actual = json!({"loc": loc, "hf": hf, "bf": bf, "hb": hb});
    // every outcome the variable order could have produced (real `capture`, `variables`, `replace`)
    let captured = route.capture(request);
    let vars = route.handler().variables(&captured, request);
    let mut outs: Vec<Value> = Vec::new();
    // `variables` twice, and once more on the captured map rebuilt in the opposite insertion order: the order must be fixed
    let vars2 = route.handler().variables(&captured, request);
    let mut rev: Vec<(&String, &String)> = captured.iter().collect();
    rev.reverse();
    let captured_rev: std::collections::HashMap<String, String> = rev.into_iter().map(|(k, v)| (k.clone(), v.clone())).collect();
    let vars3 = route.handler().variables(&captured_rev, request);
    let stable_order = vars == vars2 && vars == vars3;
    let all = vec![vars.clone()];
    for order in &all {
        let t = ctx.target_t.as_ref().map(|t| StaticOrDynamic::replace(t.clone(), order));
        let l: Vec<String> = match &t {
            Some(t) if !ctx.target_t.as_ref().unwrap().is_empty() => vec![t.clone()],
            _ => vec![],
        };
        let h: Vec<String> = ctx.hf_t.iter().map(|v| StaticOrDynamic::replace(v.clone(), order)).collect();
        let mut b = if ctx.bf_t.is_empty() { String::new() } else { PROBE.to_string() };
        for v in &ctx.bf_t {
            b.push_str(&StaticOrDynamic::replace(v.clone(), order));
        }
        let hbv: Vec<Value> = ctx
            .hbf_t
            .iter()
            .map(|(v, i)| json!([StaticOrDynamic::replace(v.clone(), order), StaticOrDynamic::replace(i.clone().unwrap_or_else(|| v.clone()), order)]))
            .collect();
        let o = json!({"loc": l, "hf": h, "bf": b, "hb": hbv, "target": t});
        if !outs.contains(&o) {
            outs.push(o);
        }
    }
    // `from_routes_rule` and `get_target` each call `variables` (each with its own HashMap order)
    let strip = |o: &Value| json!({"loc": o["loc"], "hf": o["hf"], "bf": o["bf"], "hb": o["hb"]});
    let actual_ok = outs.iter().any(|o| strip(o) == actual) && outs.iter().any(|o| o["target"] == json!(target));
    outs.sort_by_key(outcome_key);
    let n_out = outs.len();
    let obs = json!({"match": true, "outs": outs});
    if !actual_ok {
        return (obs, Some((format!("from_routes_rule gives {actual}, get_target {target:?}: not the outcome of capture + variables + replace (two calls disagree)"), "nondeterministic")), captured.len());
    }
    if n_out > 1 || !stable_order {
        return (obs, Some(("Rule::variables returned different orders for the same captured markers".to_string(), "nondeterministic")), captured.len());
    }
    (obs, None, captured.len())
}

// ---------------------------------------------------------------------------------------------------------
// generator

struct Kind {
    regex: &'static str,
    /// values accepted by `^(?:regex)$`
    acc: &'static [&'static str],
    /// values rejected (case-sensitively)
    rej: &'static [&'static str],
    /// characters that no accepted value contains, even case-insensitively (the literal delimiters that make the decomposition unique)
    excl: &'static str,
}

const KINDS: &[Kind] = &[
    Kind { regex: "[0-9]+", acc: &["7", "42", "2024", "007"], rej: &["", "4a", "x", "1 2", "١"], excl: "/.-_;=abcxyzABC" },
    Kind { regex: "[a-z]+", acc: &["abc", "z", "hello", "ab"], rej: &["", "a1", "a_b", "4"], excl: "/.-_;=0123" },
    Kind { regex: "[a-z0-9-]+?", acc: &["a-b", "x1", "post-42", "b"], rej: &["", "a_b", "a.b"], excl: "/._;=" },
    Kind { regex: "(?:foo|bar|b)", acc: &["foo", "bar", "b"], rej: &["", "fo", "foobar", "baz"], excl: "/.-_;=xyz0123" },
    Kind { regex: "en|fr|de", acc: &["en", "fr", "de"], rej: &["", "e", "enfr", "it"], excl: "/.-_;=xyz0123" },
    Kind { regex: "[0-9a-f]{8}-[0-9a-f]{4}-[0-9a-f]{4}-[0-9a-f]{4}-[0-9a-f]{12}", acc: &["123e4567-e89b-12d3-a456-426614174000", "00000000-0000-0000-0000-000000000000"], rej: &["123e4567", "123e4567-e89b-12d3-a456-42661417400", "g23e4567-e89b-12d3-a456-426614174000"], excl: "/._;=xyz" },
    Kind { regex: "[0-9]{4}-[0-9]{2}-[0-9]{2}", acc: &["2024-01-31", "1999-12-01"], rej: &["2024-1-31", "24-01-31", "2024-01-311", ""], excl: "/._;=abcxyz" },
    Kind { regex: ".+?", acc: &["q", "a/b", "x.y", "@b", "x@id", "a b", "(z)*", "%41", "\u{5d0}\u{65e5}", "A-Z"], rej: &[""], excl: "" },
    Kind { regex: ".*", acc: &["", "q", "p-q", "@a", "\u{20000}x"], rej: &["a\nb"], excl: "" },
    Kind { regex: "[^/]+", acc: &["q", "x.y", "a-b_c", "@ab", "caf\u{5d0}", "A"], rej: &["", "a/b"], excl: "/" },
    Kind { regex: "[A-Za-z_]\\w*", acc: &["Ab_1", "x", "fooBar", "XMLHttp"], rej: &["1a", "", "a-b"], excl: "/.-;=" },
    Kind { regex: "\\d{2,3}", acc: &["12", "123"], rej: &["1", "1234", "ab"], excl: "/.-_;=abcxyz" },
    Kind { regex: "[a-z\u{5d0}]+", acc: &["abc", "%D7"], rej: &["", "\u{5d0}x!"], excl: "/.-_;=" },
    // expressions with characters a URL-ish percent-encode set would rewrite: Rule::markers() encodes with CONTROLS only, so they
    // must reach the regex engine verbatim (in a path the REQUEST side is sanitised: space " # < > never match there)
    Kind { regex: "[A-Za-z]+ [0-9]+", acc: &["Foo 12", "x 7"], rej: &["Foo12", "Foo  12", " 1", "Foo%2012"], excl: "/.-_;=" },
    Kind { regex: "(?P<year>[0-9]{4})-[0-9]{2}", acc: &["2024-01", "1999-12"], rej: &["2024-1", "24-01", ""], excl: "/._;=abcxyz" },
    Kind { regex: "a#b", acc: &["a#b"], rej: &["a#", "ab", "a%23b"], excl: "/.-_;=" },
    Kind { regex: "\"q\"[a-z]*", acc: &["\"q\"", "\"q\"x"], rej: &["q", "\"q", "%22q%22"], excl: "/.-_;=0123" },
    Kind { regex: "[<>]+", acc: &["<>", "<", "><>"], rej: &["", "<a", "%3C"], excl: "/.-_;=abc" },
    Kind { regex: "(?:%[0-9A-F]{2})+", acc: &["%41", "%D7%90", "\u{5d0}", "%20%7B"], rej: &["%4", "41", "%zz", ""], excl: "/.-_;=" },
    Kind { regex: "[a-z+]+\\+[0-9]", acc: &["a+b+1", "x+2", "++3"], rej: &["ab1", "+", "a+b"], excl: "/.-_;=" },
    Kind { regex: "\\{[a-z]+\\}|x{2}", acc: &["{k}", "xx", "{abc}"], rej: &["{}", "x", "{k", "xxx"], excl: "/.-_;=0123" },
    Kind { regex: "p\\|q|r\\\\s", acc: &["p|q", "r\\s"], rej: &["p", "q", "rs", "p|"], excl: "/.-_;=0123" },
    Kind { regex: "a\\^b`?", acc: &["a^b", "a^b`"], rej: &["ab", "a^", "a^b``"], excl: "/.-_;=0123" },
];

const NAMES: &[&str] = &["a", "ab", "abc", "b", "id", "id2", "year", "m", "ID", "x_1", "slug", "idx"];
const ODD_NAMES: &[&str] = &["a-b", "2a", "n\u{5d0}", "a@b", "", "a b", "a.b"];
const LITS: &[&str] = &["p", "blog", "a.b", "x+y", "(z)", "v[1]", "a|b", "c$", "A", "Ab", "%20", "a b", "\u{65e5}", "~u", "at@", "x#y", "q&r", "{k}"];
const DELIMS: &[&str] = &["/", "-", ".", "_", "/x/", ";", "="];

fn tr(rng: &mut Prng) -> Value {
    match rng.below(16) {
        0 | 1 => json!({"type": "lowercase", "opts": null}),
        2 | 3 => json!({"type": "uppercase", "opts": null}),
        4 => json!({"type": "camelize", "opts": null}),
        5 => json!({"type": "dasherize", "opts": null}),
        6 => json!({"type": "underscorize", "opts": []}),
        7 | 8 | 9 => {
            let sm = *rng.pick(&["a", "-", "", "ab", "b", "%", "0", "A"]);
            let w = *rng.pick(&["", "X", "@id", "--", "a", "\u{5d0}"]);
            match rng.below(10) {
                0 => json!({"type": "replace", "opts": [["something", sm]]}),
                1 => json!({"type": "replace", "opts": null}),
                _ => json!({"type": "replace", "opts": [["something", sm], ["with", w]]}),
            }
        }
        10 | 11 | 12 | 13 => {
            let f = *rng.pick(&["0", "1", "2", "3", "7", "x", "+1", "-1", "", "18446744073709551616", "01"]);
            let t = *rng.pick(&["", "2", "3", "5", "100", "x", "0", "1", "+4", "18446744073709551615"]);
            match rng.below(12) {
                0 => json!({"type": "slice", "opts": [["from", f]]}),
                1 => json!({"type": "slice", "opts": null}),
                2 => json!({"type": "slice", "opts": [["to", t], ["from", f], ["from", "1"]]}),
                _ => json!({"type": "slice", "opts": [["from", f], ["to", t]]}),
            }
        }
        14 => json!({"type": "frobnicate", "opts": null}),
        _ => json!({"type": null, "opts": null}),
    }
}

fn trs(rng: &mut Prng) -> Value {
    let n = match rng.below(10) { 0..=4 => 0, 5 | 6 => 1, 7 | 8 => 2, _ => 3 };
    Value::Array((0..n).map(|_| tr(rng)).collect())
}

struct M {
    name: String,
    kind: usize,
    value: String,
    accepted: bool,
}

/// A template over the markers `ms[idx..]` (each used once), literal pieces in between; returns (template, instantiation, delimited?)
fn template(rng: &mut Prng, ms: &[M], sep_first: &str, lits: bool, ic: bool) -> (String, String, bool) {
    let mut t = String::from(sep_first);
    let mut inst = String::from(sep_first);
    let mut delim = true;
    for (i, m) in ms.iter().enumerate() {
        if lits && rng.chance(1, 3) {
            let l = *rng.pick(LITS);
            t.push_str(l);
            inst.push_str(&if ic && rng.chance(1, 2) { flip_case(rng, l) } else { l.to_string() });
            if rng.chance(2, 3) {
                t.push('/');
                inst.push('/');
            }
        }
        t.push('@');
        t.push_str(&m.name);
        inst.push_str(&m.value);
        if i + 1 < ms.len() {
            if rng.chance(1, 8) {
                // adjacent markers: ambiguous on purpose
                delim = false;
            } else {
                let d = *rng.pick(DELIMS);
                t.push_str(d);
                inst.push_str(d);
                let d0 = d.chars().next().unwrap();
                if !KINDS[m.kind].excl.contains(d0) {
                    delim = false;
                }
            }
        } else if rng.chance(1, 3) {
            let d = *rng.pick(DELIMS);
            t.push_str(d);
            inst.push_str(d);
            let d0 = d.chars().next().unwrap();
            if !KINDS[m.kind].excl.contains(d0) {
                delim = false;
            }
            if rng.chance(1, 2) {
                let l = *rng.pick(LITS);
                t.push_str(l);
                inst.push_str(&if ic && rng.chance(1, 2) { flip_case(rng, l) } else { l.to_string() });
            }
        }
    }
    (t, inst, delim)
}

fn out_template(rng: &mut Prng, names: &[String]) -> String {
    let mut t = String::new();
    let n = rng.range(1, 5);
    for _ in 0..n {
        match rng.below(12) {
            0 => t.push_str(*rng.pick(&["/", "/t/", "-", "x", "?q=", "2", "c", "d2", " "])),
            1 => t.push('@'),
            2 => {
                t.push('@');
                t.push_str(*rng.pick(NAMES));
            }
            3 => {
                // a reference immediately followed by text that may extend the name
                t.push('@');
                t.push_str(rng.pick(names).as_str());
                t.push_str(*rng.pick(&["2", "b", "c", "x", "_1", "bc"]));
            }
            4 => {
                // adjacent references (join-prone)
                t.push('@');
                t.push_str(rng.pick(names).as_str());
                t.push('@');
                t.push_str(rng.pick(names).as_str());
            }
            _ => {
                t.push_str(*rng.pick(&["/", "-", "/p/", ".", "="]));
                t.push('@');
                t.push_str(rng.pick(names).as_str());
            }
        }
    }
    if rng.chance(1, 12) {
        t.push('@');
    }
    t
}

fn flip_case(rng: &mut Prng, s: &str) -> String {
    s.chars().map(|c| if c.is_ascii_alphabetic() && rng.chance(1, 2) { if c.is_ascii_lowercase() { c.to_ascii_uppercase() } else { c.to_ascii_lowercase() } } else { c }).collect()
}

fn gen_case(rng: &mut Prng) -> Value {
    let cfg = json!({"ipc": rng.chance(1, 4), "ihc": rng.chance(1, 4), "ihdc": rng.chance(1, 6)});
    let ipc = cfg["ipc"].as_bool().unwrap();
    let k = match rng.below(10) { 0 | 1 => 1, 2..=5 => 2, 6..=8 => 3, _ => 4 };
    // names: mostly from the prefix-sharing pool, distinct
    let mut names: Vec<String> = Vec::new();
    while names.len() < k {
        let n = if rng.chance(1, 40) { *rng.pick(ODD_NAMES) } else { *rng.pick(NAMES) };
        if !names.iter().any(|x| x == n) || rng.chance(1, 60) {
            names.push(n.to_string());
        }
    }
    let all_accepted = rng.chance(3, 5);
    // distribute the markers over path / host / header
    let mut in_path: Vec<usize> = Vec::new();
    let mut in_host: Vec<usize> = Vec::new();
    let mut in_hdr: Vec<usize> = Vec::new();
    for i in 0..k {
        match rng.below(10) {
            0..=5 => in_path.push(i),
            6 | 7 => in_host.push(i),
            _ => in_hdr.push(i),
        }
    }
    let ihc = cfg["ihc"].as_bool().unwrap();
    let mut ms: Vec<M> = Vec::new();
    for (i, n) in names.iter().enumerate() {
        let kind = rng.below(KINDS.len());
        let accepted = all_accepted || rng.chance(2, 3);
        let pool = if accepted { KINDS[kind].acc } else { KINDS[kind].rej };
        let mut value = rng.pick(pool).to_string();
        // where the layer matches case-insensitively the instantiation may use the other case
        if ((ipc && in_path.contains(&i)) || (ihc && in_host.contains(&i))) && rng.chance(1, 2) {
            value = flip_case(rng, &value);
        }
        ms.push(M { name: n.clone(), kind, value, accepted });
    }
    let pick = |idx: &Vec<usize>| -> Vec<&M> { idx.iter().map(|&i| &ms[i]).collect() };
    let own = |v: Vec<&M>| -> Vec<M> { v.into_iter().map(|m| M { name: m.name.clone(), kind: m.kind, value: m.value.clone(), accepted: m.accepted }).collect() };
    let mut delim = true;
    let (mut path_t, mut path_i, d1) = template(rng, &own(pick(&in_path)), "/", true, ipc);
    delim &= d1;
    if rng.chance(1, 25) && !in_path.is_empty() {
        // a marker used twice in one template (the capture regex gets a duplicate group name)
        let m = &ms[in_path[0]];
        path_t.push_str(&format!("/@{}", m.name));
        path_i.push_str(&format!("/{}", m.value));
    }
    // values with '/' '?' '#' in a path would change the URL structure: keep '?' and '#' out of request paths
    let (host_t, host_i) = if in_host.is_empty() {
        if rng.chance(1, 6) { (Some("Example.org".to_string()), Some("Example.org".to_string())) } else { (None, if rng.chance(1, 3) { Some("other.org".to_string()) } else { None }) }
    } else {
        let (t, i, d) = template(rng, &own(pick(&in_host)), "", false, ihc);
        delim &= d;
        let suffix = *rng.pick(&[".example.org", ".Example.ORG", "", "-x.io"]);
        (Some(format!("{t}{suffix}")), Some(format!("{i}{suffix}")))
    };
    let mut rule_hdrs = Vec::new();
    let mut req_hdrs: Vec<Value> = Vec::new();
    if !in_hdr.is_empty() {
        let first = *rng.pick(&["", "v-", "V=", "lang "]);
        let (t, i, d) = template(rng, &own(pick(&in_hdr)), first, false, false);
        delim &= d;
        let name = *rng.pick(&["X-Foo", "x-bar", "Accept-Language"]);
        rule_hdrs.push(json!({"name": name, "value": t}));
        let rname = if rng.chance(1, 2) { name.to_string() } else { flip_case(rng, name) };
        if rng.chance(1, 8) {
            req_hdrs.push(json!([rname.clone(), "zzz"]));
        }
        if rng.chance(1, 10) {
            // the value embedded in a longer one: the trigger is searched unanchored
            req_hdrs.push(json!([rname, format!("xx{i}yy")]));
        } else {
            req_hdrs.push(json!([rname, i]));
        }
        if rng.chance(1, 6) {
            // the header repeated AFTER the accepted line with a value the trigger rejects (seed r9b-2: a capture that reads only the
            // last line of that name); a rejected line captures nothing and must override nothing
            let rname2 = if rng.chance(1, 2) { name.to_string() } else { flip_case(rng, name) };
            req_hdrs.push(json!([rname2, *rng.pick(&["zzz", "", "~"])]));
        }
    }
    if rng.chance(1, 3) {
        req_hdrs.push(json!(["X-Other", *rng.pick(&["o", "Other-Val", "a,b"])]));
    }
    if rng.chance(1, 8) {
        req_hdrs.push(json!(["x-other", "second"]));
    }
    let req_path = path_i.clone();
    // variables
    let explicit = rng.chance(2, 5);
    let mut vars = Vec::new();
    let mut out_names: Vec<String> = names.clone();
    if explicit {
        out_names.clear();
        let nv = rng.range(1, 4);
        for _ in 0..nv {
            let vname = if rng.chance(2, 3) { rng.pick(&names).clone() } else { rng.pick(NAMES).to_string() };
            let v = match rng.below(10) {
                0..=5 => json!({"name": vname, "kind": "marker", "arg": if rng.chance(5, 6) { rng.pick(&names).clone() } else { "nope".to_string() }, "tr": trs(rng)}),
                6 => json!({"name": vname, "kind": "header", "arg": *rng.pick(&["X-Other", "x-foo", "Missing"]), "def": if rng.chance(1, 2) { json!("dflt") } else { Value::Null }, "tr": trs(rng)}),
                7 => json!({"name": vname, "kind": "host", "tr": trs(rng)}),
                8 => json!({"name": vname, "kind": *rng.pick(&["method", "scheme", "ip", "time"]), "tr": trs(rng)}),
                _ => json!({"name": vname, "kind": "path", "tr": trs(rng)}),
            };
            out_names.push(vname);
            vars.push(v);
        }
    }
    let markers: Vec<Value> = ms.iter().map(|m| json!({"name": m.name, "regex": KINDS[m.kind].regex, "tr": trs(rng)})).collect();
    let target = match rng.below(12) {
        0 => Value::Null,
        1 => json!(""),
        _ => json!(out_template(rng, &out_names)),
    };
    let hf: Vec<Value> = (0..rng.below(3)).map(|_| json!(out_template(rng, &out_names))).collect();
    let bf: Vec<Value> = (0..rng.below(3)).map(|_| json!(out_template(rng, &out_names))).collect();
    let hbf: Vec<Value> = (0..(if rng.chance(1, 3) { rng.range(1, 2) } else { 0 }))
        .map(|_| json!([format!("<p>{}</p>", out_template(rng, &out_names)), if rng.chance(1, 2) { json!(out_template(rng, &out_names)) } else { Value::Null }]))
        .collect();
    let inst: Vec<Value> = ms.iter().map(|m| json!([m.name, m.value])).collect();
    let ip = if rng.chance(1, 2) { json!(*rng.pick(&["10.1.2.3", "192.168.0.1", "::1", "2001:db8::1", "::ffff:1.2.3.4", "fe80::1:2"])) } else { Value::Null };
    let time = if rng.chance(2, 3) {
        use chrono::Datelike;
        let secs: i64 = *rng.pick(&[0, 1057056757, 951782400, 253402300799, 253402300800, -62167219200, -62167219201, 1700000000, 4102444800, 32503680000, -86400]);
        let dt = chrono::DateTime::<chrono::Utc>::from_timestamp(secs, 0).unwrap();
        let in_range = (0..=9999).contains(&dt.year());
        json!({"secs": secs, "year": dt.year(), "rfc2822": if in_range { json!(dt.to_rfc2822()) } else { Value::Null }, "rfc3339": dt.to_rfc3339()})
    } else {
        Value::Null
    };
    let cache = if rng.chance(1, 3) {
        let calls: Vec<Value> = (0..rng.range(1, 3)).map(|_| if rng.chance(1, 2) { Value::Null } else { json!(*rng.pick(&[0u64, 1, 2, 100])) }).collect();
        json!({"calls": calls, "on_clone": rng.chance(1, 3)})
    } else {
        Value::Null
    };
    json!({
        "cfg": cfg, "markers": markers, "vars": vars, "path": path_t, "host": host_t, "hdrs": rule_hdrs,
        "target": target, "hf": hf, "bf": bf, "hbf": hbf,
        "req": {"path": req_path, "host": host_i, "scheme": if rng.chance(1, 2) { json!("https") } else { Value::Null },
                "method": if rng.chance(1, 2) { json!("GET") } else { Value::Null }, "hdrs": req_hdrs, "ip": ip, "time": time},
        "cache": cache,
        "inst": inst, "delim": delim, "acc": ms.iter().all(|m| m.accepted),
    })
}

/// Substitution alone: `Rule::variables` (sort) + `StaticOrDynamic::replace` on explicit (name, value) lists.
fn gen_sub(rng: &mut Prng) -> Value {
    let nv = rng.range(1, 5);
    let vars: Vec<Value> = (0..nv)
        .map(|_| json!([*rng.pick(&["a", "ab", "abc", "b", "bc", "id", "id2", "", "a@", "\u{5d0}"]), *rng.pick(&["", "b", "c", "x", "@a", "@b", "2", "bc", "@", "X@ab", "\u{65e5}"])]))
        .collect();
    let alphabet = ["@", "a", "b", "c", "@a", "@ab", "@b", "@id", "2", "/", "@abc", "@bc"];
    let ts: Vec<Value> = (0..rng.range(1, 3)).map(|_| json!((0..rng.range(0, 6)).map(|_| *rng.pick(&alphabet)).collect::<String>())).collect();
    json!({"kind": "sub", "vars": vars, "ts": ts})
}

/// Non-ASCII cased text under the ignore-case flags (implementation-only oracles).
fn gen_uni(rng: &mut Prng) -> Value {
    let values = ["\u{c9}COLE", "\u{3a9}mega", "\u{416}\u{423}\u{41a}", "STRA\u{1e9e}E", "\u{130}stanbul", "\u{1c5}", "\u{1c4}x", "\u{c7}A", "caf\u{e9}", "\u{65e5}\u{672c}", "Stra\u{df}e", "\u{3a3}\u{391}\u{3a3}"];
    let rejected = ["", "\u{c9}-cole", "\u{c9} b", "a\u{416}!"];
    let lits = ["CAF\u{c9}", "\u{3a9}", "\u{416}k", "\u{1e9e}", "\u{c9}cole", "p"];
    let layer = *rng.pick(&["path", "host", "header"]);
    let cfg = json!({"ipc": rng.chance(1, 2), "ihc": rng.chance(1, 2), "ihdc": rng.chance(1, 2)});
    let lit = *rng.pick(&lits);
    // the request literal differs in case only where the layer folds case with Unicode awareness (host under ignore_host_case)
    let req_lit = if layer == "host" && cfg["ihc"] == json!(true) && rng.chance(1, 2) {
        if rng.chance(1, 2) { lit.to_lowercase() } else { lit.to_uppercase() }
    } else {
        lit.to_string()
    };
    let (re, value) = if rng.chance(3, 4) {
        (*rng.pick(&["[^/.;]+", "\\w+", ".+?", "[^/.;]+?"]), *rng.pick(&values))
    } else {
        (*rng.pick(&["\\w+", "[^/.; !-]+"]), *rng.pick(&rejected))
    };
    json!({"kind": "uni", "cfg": cfg, "layer": layer, "lit": lit, "req_lit": req_lit, "regex": re, "value": value})
}

/// The assumption of the matching theorems on the real crate: token list x haystack.
fn gen_law(rng: &mut Prng) -> Value {
    let ic = rng.chance(1, 3);
    let k = rng.range(1, 3);
    let mut ts: Vec<Value> = Vec::new();
    let mut hay = String::new();
    let names = ["a", "ab", "id", "m"];
    if rng.chance(2, 3) {
        ts.push(json!(["l", "/"]));
        hay.push('/');
    }
    for i in 0..k {
        // (a named group inside the expression adds its own capture: outside the token-level law)
        let mut kind = rng.below(KINDS.len());
        while KINDS[kind].regex.contains("(?P<") {
            kind = rng.below(KINDS.len());
        }
        let name = if rng.chance(1, 8) && i > 0 { names[0] } else { names[i % names.len()] };
        ts.push(json!(["g", name, KINDS[kind].regex]));
        let pool = if rng.chance(3, 4) { KINDS[kind].acc } else { KINDS[kind].rej };
        let v = rng.pick(pool).to_string();
        hay.push_str(&if ic && rng.chance(1, 2) { flip_case(rng, &v) } else { v });
        if i + 1 < k || rng.chance(1, 2) {
            match rng.below(5) {
                0 => {}
                _ => {
                    let l = *rng.pick(&["/", "-", ".", "_", "x", "A", "(", "|", "$", "\u{65e5}"]);
                    for c in l.chars() {
                        ts.push(json!(["l", c.to_string()]));
                    }
                    hay.push_str(&if ic && rng.chance(1, 2) { flip_case(rng, l) } else { l.to_string() });
                }
            }
        }
    }
    match rng.below(8) {
        0 => hay = format!("xx{hay}"),
        1 => hay.push_str("yy"),
        2 => {
            hay.pop();
        }
        3 => hay = format!("a{hay}1"),
        _ => {}
    }
    json!({"kind": "law", "ic": ic, "ts": ts, "s": hay})
}

/// Transformer chains on raw strings (words in every case style, separators, digits, uncased non-ASCII letters, multi-byte).
fn gen_tr(rng: &mut Prng) -> Value {
    let pieces = ["foo", "Bar", "BAZ", "x", "Y", "XMLHttp", "Request2", "a1B2", "_", "-", " ", ".", "__", "/", "42", "\u{5d0}", "\u{65e5}\u{672c}", "\u{20000}", "%41", "@id", "", "I", "iOS"];
    let vals: Vec<Value> = (0..rng.range(3, 12)).map(|_| json!((0..rng.range(0, 5)).map(|_| *rng.pick(&pieces)).collect::<String>())).collect();
    let chain: Vec<Value> = (0..rng.range(1, 3)).map(|_| tr(rng)).collect();
    json!({"kind": "tr", "chain": chain, "vals": vals})
}

/// Is the text inside the driver's character model?  ASCII is exact; any other char must be a letter that no case mapping changes
/// (no lower / upper / title case, e.g. Hebrew, CJK): the ASCII stand-ins of to_lowercase / to_uppercase / heck and of the regex
/// classes treat every non-ASCII char as an uncased letter.
fn in_model_scope(t: &str) -> bool {
    t.chars().all(|c| {
        c.is_ascii() || (c.is_alphabetic() && c.to_lowercase().eq(std::iter::once(c)) && c.to_uppercase().eq(std::iter::once(c)) && !c.is_lowercase() && !c.is_uppercase())
    })
}

/// Diff-directed cases (VERIF_HINTS): sizes n-1, n, n+1 at every countable / sizable place of the grammar, hinted strings (also
/// upper/lower-cased) at every place with free text.  No instantiation claims: the model and the substitution specification
/// are compared as for every other case.
fn gen_hints(h: &Hints, emit: &mut dyn FnMut(Value)) {
    let base = |markers: Value, path: String, target: String, req_path: String| -> Value {
        json!({"cfg": {}, "markers": markers, "vars": [], "path": path, "host": null, "hdrs": [], "target": target, "hf": [], "bf": [], "hbf": [],
               "req": {"path": req_path, "host": null, "scheme": null, "method": null, "hdrs": []}})
    };
    // ---- sizes: lengths
    for n in h.sizes(300) {
        let val: String = "a".repeat(n);
        let name: String = "n".repeat(n);
        // a value, a name, a literal, a target of that length
        emit(base(json!([{"name": "m", "regex": "[a-z]+", "tr": []}]), "/p/@m".into(), "/t/@m".into(), format!("/p/{val}")));
        emit(base(json!([{"name": name, "regex": "[a-z]+", "tr": []}]), format!("/p/@{name}"), format!("/t/@{name}-@{name}x"), "/p/abc".into()));
        emit(base(json!([{"name": "m", "regex": "[a-z]+", "tr": []}]), format!("/{val}/@m"), format!("/{val}@m{val}"), format!("/{val}/xy")));
        // slice bounds around n on values of length around n (ASCII and multi-byte)
        for (from, to) in [(n.saturating_sub(1), n + 1), (0, n), (n, n + 1), (n + 1, n), (1, n.saturating_sub(1))] {
            let tr = json!([{"type": "slice", "opts": [["from", from.to_string()], ["to", to.to_string()]]}]);
            emit(json!({"kind": "tr", "chain": tr, "vals": [val.clone(), format!("{val}b"), "a".repeat(n.saturating_sub(1)), "\u{5d0}".repeat(n / 2 + 1), format!("{}\u{65e5}", "a".repeat(n.saturating_sub(2)))]}));
        }
        emit(json!({"kind": "tr", "chain": [{"type": "replace", "opts": [["something", "a".repeat(n.min(40))], ["with", "b"]]}], "vals": [val.clone(), format!("{val}a"), "a".repeat(n.saturating_sub(1))]}));
        emit(json!({"kind": "sub", "vars": [["a", val.clone()], [name.clone(), "x"]], "ts": [format!("@a@{name}@{name}y"), "@".repeat(n.min(120)), "@a".repeat(n.min(120))]}));
    }
    // ---- sizes: counts (markers with prefix-sharing names a, aa, aaa, ..; variables; transformers; filters; cache calls)
    for n in h.sizes(24) {
        let names: Vec<String> = (1..=n).map(|i| "a".repeat(i)).collect();
        let markers: Vec<Value> = names.iter().map(|nm| json!({"name": nm, "regex": "[0-9]+", "tr": []})).collect();
        let path = format!("/{}", names.iter().map(|nm| format!("@{nm}")).collect::<Vec<_>>().join("/"));
        let req = format!("/{}", (1..=n).map(|i| i.to_string()).collect::<Vec<_>>().join("/"));
        let target = names.iter().rev().map(|nm| format!("@{nm}")).collect::<Vec<_>>().join("-");
        let mut c = base(Value::Array(markers.clone()), path.clone(), format!("/t/{target}@"), req.clone());
        c["hf"] = Value::Array((0..n).map(|i| json!(format!("h{i}-@{}", names[i % n]))).collect());
        c["bf"] = Value::Array((0..n.min(6)).map(|i| json!(format!("b{i}@{}", names[n - 1 - i % n]))).collect());
        c["cache"] = json!({"calls": (0..n.min(8)).map(|i| if i % 2 == 0 { Value::Null } else { json!(i as u64) }).collect::<Vec<_>>(), "on_clone": n % 2 == 0});
        emit(c.clone());
        // the same markers, explicit variables (n of them, names colliding with marker names) with n transformers
        let chain: Vec<Value> = (0..n).map(|i| match i % 4 { 0 => json!({"type": "uppercase", "opts": null}), 1 => json!({"type": "replace", "opts": [["something", "1"], ["with", "11"]]}), 2 => json!({"type": "slice", "opts": [["from", "0"], ["to", (n + 2).to_string()]]}), _ => json!({"type": "lowercase", "opts": null}) }).collect();
        c["vars"] = Value::Array((0..n).map(|i| json!({"name": names[n - 1 - i], "kind": "marker", "arg": names[i], "tr": if i == 0 { Value::Array(chain.clone()) } else { json!([]) }})).collect());
        emit(c);
        emit(json!({"kind": "sub", "vars": names.iter().enumerate().map(|(i, nm)| json!([nm, i.to_string()])).collect::<Vec<_>>(), "ts": [format!("{target}-@{}a", names[n - 1]), format!("@{}", "a".repeat(n + 1))]}));
        emit(json!({"kind": "tr", "chain": chain, "vals": ["a1b1", "1", ""]}));
    }
    // ---- strings: every place with free text
    let plain_in_regex = |t: &str| !t.chars().any(|c| "\\.+*?()|[]{}^$".contains(c));
    let mut strs: Vec<String> = Vec::new();
    for t in &h.strs {
        if t.is_empty() {
            continue;
        }
        let t: String = t.chars().take(64).collect();
        if !in_model_scope(&t) {
            // outside the driver's character model (exact on ASCII, every other char an uncased letter): the hinted text is still
            // exercised, on the implementation alone, as captured value and as host literal of `uni` cases (tag hint:out-of-model)
            let clean = |x: &str| !x.is_empty() && !x.chars().any(|c| "/.;=?".contains(c));
            // as a host LITERAL only if lower-casing keeps one char per char: `İ`.to_lowercase() is two chars, which the crate's
            // simple case folding never matches (observation O-W9-1 in notes/wp/W9.md), so such a literal goes to the value only
            let lit_ok = t.chars().all(|c| c.to_lowercase().count() == 1 && c.to_uppercase().count() == 1);
            if clean(&t) {
                for layer in ["path", "host", "header"] {
                    for (ipc, ihc, ihdc) in [(false, false, false), (true, true, true)] {
                        for re in ["[^/.;]+", ".+?", "\\w+"] {
                            for value in [t.clone(), format!("a{t}B"), t.to_uppercase(), t.to_lowercase()] {
                                if clean(&value) {
                                    emit(json!({"kind": "uni", "hint": true, "cfg": {"ipc": ipc, "ihc": ihc, "ihdc": ihdc}, "layer": layer,
                                                "lit": if layer == "host" && lit_ok { t.as_str() } else { "p" }, "req_lit": if layer == "host" && lit_ok { t.as_str() } else { "p" }, "regex": re, "value": value}));
                                }
                            }
                        }
                    }
                }
            }
            continue;
        }
        for v in [t.clone(), t.to_uppercase(), t.to_lowercase()] {
            if in_model_scope(&v) && !strs.contains(&v) {
                strs.push(v);
            }
        }
    }
    for t in &strs {
        let in_path = !t.contains('?');
        let lit = if plain_in_regex(t) { t.clone() } else { regex::escape(t) };
        let swapped: String = t.chars().map(|c| if c.is_ascii_lowercase() { c.to_ascii_uppercase() } else { c.to_ascii_lowercase() }).collect();
        for (ipc, ihc, ihdc) in [(false, false, false), (true, true, true)] {
            let cfg = json!({"ipc": ipc, "ihc": ihc, "ihdc": ihdc});
            // in a marker expression (verbatim when it is plain regex text), in host and header trigger (and path when possible)
            let mut c = json!({"cfg": cfg, "markers": [{"name": "m", "regex": format!("[a-z]+{lit}[0-9]+"), "tr": []}, {"name": "v", "regex": ".+?", "tr": []}],
                "vars": [], "path": if in_path { "/p/@m/@v" } else { "/p" }, "host": "@m.example.org",
                "hdrs": [{"name": "X-Foo", "value": "k=@m;@v"}], "target": format!("/t/{t}@m{t}@v@"), "hf": [format!("{t}@v"), format!("@m{t}")], "bf": [format!("@v{t}@m")],
                "hbf": [[format!("<p>{t}@v</p>"), null]],
                "req": {"path": if in_path { format!("/p/ab{t}12/{t}") } else { "/p".to_string() }, "host": format!("ab{t}12.example.org"), "scheme": null, "method": null,
                        "hdrs": [["x-foo", format!("k=ab{t}12;{t}")]]}});
            emit(c.clone());
            c["req"]["host"] = json!(format!("ab{swapped}12.example.org"));
            c["req"]["hdrs"] = json!([["X-FOO", format!("k=ab{swapped}12;{swapped}")]]);
            emit(c);
            // as marker / variable / header name, as literal of the rule path, in transformer options
            let mut d = json!({"cfg": cfg, "markers": [{"name": t, "regex": "[0-9]+", "tr": [{"type": "replace", "opts": [["something", "1"], ["with", t]]}]},
                                                      {"name": format!("a{t}"), "regex": "[a-z]+", "tr": [{"type": "replace", "opts": [["something", t], ["with", "X"]]}, {"type": "slice", "opts": [["from", t], ["to", t]]}]}],
                "vars": [], "path": format!("/{}/@{t}/@a{t}", if in_path { t.as_str() } else { "q" }), "host": null, "hdrs": [{"name": t, "value": format!("{t}@a{t}")}],
                "target": format!("/t/@{t}/@a{t}/@{swapped}"), "hf": [], "bf": [], "hbf": [],
                "req": {"path": format!("/{}/12/xy", if in_path { t.as_str() } else { "q" }), "host": null, "scheme": null, "method": null, "hdrs": [[swapped, format!("{t}xy")]]}});
            if !in_path {
                // '?' cannot appear in a path here: the markers named after the hint go to the host
                d["path"] = json!("/q");
                d["host"] = json!(format!("@{t}-@a{t}.org"));
                d["req"]["path"] = json!("/q");
                d["req"]["host"] = json!("12-xy.org");
            }
            emit(d.clone());
            d["vars"] = json!([{"name": t, "kind": "header", "arg": swapped, "def": t, "tr": []}, {"name": format!("a{t}"), "kind": "marker", "arg": t, "tr": []},
                               {"name": "h", "kind": "header", "arg": "Missing", "def": t, "tr": [{"type": "uppercase", "opts": null}]}]);
            d["target"] = json!(format!("/t/@{t}/@a{t}/@h"));
            emit(d);
        }
        emit(json!({"kind": "sub", "vars": [[t, "1"], [format!("a{t}"), t], ["a", format!("{t}@a")], [swapped, "2"]], "ts": [format!("@{t}@a{t}@a"), format!("{t}@{swapped}{t}"), format!("@a@{t}")]}));
        for kind in ["camelize", "dasherize", "underscorize", "lowercase", "uppercase"] {
            emit(json!({"kind": "tr", "chain": [{"type": kind, "opts": null}], "vals": [t, format!("foo{t}Bar"), format!("{t}{t}"), format!("A{t}b")]}));
        }
        emit(json!({"kind": "tr", "chain": [{"type": "replace", "opts": [["something", t], ["with", "-"]]}, {"type": "replace", "opts": [["something", "-"], ["with", t]]}], "vals": [format!("a{t}b{t}"), t, ""]}));
        emit(json!({"kind": "law", "ic": false, "ts": [["l", "/"], ["g", "m", format!("[a-z]+{lit}[0-9]+")], ["l", "-"], ["g", "v", ".*"]], "s": format!("/ab{t}12-{t}")}));
        emit(json!({"kind": "law", "ic": true, "ts": [["g", "m", format!("[a-z]+{lit}[0-9]+")]], "s": format!("AB{swapped}12")}));
    }
}

fn gen(args: &Args, emit: &mut dyn FnMut(Value)) {
    let mut rng = Prng::new(args.seed);
    let h = hints();
    if !h.is_empty() {
        gen_hints(&h, emit);
    }
    // fixed family, on every run: the known finding `host-literal-multichar-lowercase` (O-W9-1) and its two neighbours that must pass
    // (the same literal without the flag; a literal whose lower case is char-for-char)
    for (ihc, lit, re, value) in [(true, "\u{130}", "[^/.;]+", "x"), (true, "a\u{130}b", ".+?", "sub"), (true, "\u{130}", "\\w+", "\u{c9}COLE"),
                                  (false, "\u{130}", "[^/.;]+", "x"), (true, "\u{c9}", "[^/.;]+", "x")] {
        emit(json!({"kind": "uni", "cfg": {"ipc": false, "ihc": ihc, "ihdc": false}, "layer": "host", "lit": lit, "req_lit": lit, "regex": re, "value": value}));
    }
    if args.tier == "thorough" {
        // exhaustive: every string of length <= 5 over {a, b, A, B, 1, _, -} through each case transformer
        let sym = ['a', 'b', 'A', 'B', '1', '_', '-'];
        let mut all: Vec<String> = vec![String::new()];
        let mut frontier: Vec<String> = vec![String::new()];
        for _ in 0..5 {
            let mut next = Vec::new();
            for t in &frontier {
                for c in sym {
                    let mut t2 = t.clone();
                    t2.push(c);
                    next.push(t2);
                }
            }
            all.extend(next.iter().cloned());
            frontier = next;
        }
        for kind in ["camelize", "dasherize", "underscorize", "lowercase", "uppercase"] {
            for chunk in all.chunks(400) {
                emit(json!({"kind": "tr", "chain": [{"type": kind, "opts": null}], "vals": chunk, "exh": true}));
            }
        }
    }
    if args.tier == "thorough" {
        // exhaustive small scope of the substitution: every template of length <= 5 over {@, a, b} x every list of <= 2
        // variables over names {a, b, ab} x values {"", b, x} (+ one three-variable family)
        let sym = ['@', 'a', 'b'];
        let mut templates: Vec<String> = vec![String::new()];
        let mut frontier: Vec<String> = vec![String::new()];
        for _ in 0..5 {
            let mut next = Vec::new();
            for t in &frontier {
                for c in sym {
                    let mut t2 = t.clone();
                    t2.push(c);
                    next.push(t2);
                }
            }
            templates.extend(next.iter().cloned());
            frontier = next;
        }
        let names = ["a", "b", "ab"];
        let values = ["", "b", "x"];
        let mut var_lists: Vec<Vec<(usize, usize)>> = Vec::new();
        for n1 in 0..3 {
            for v1 in 0..3 {
                var_lists.push(vec![(n1, v1)]);
                for n2 in 0..3 {
                    for v2 in 0..3 {
                        var_lists.push(vec![(n1, v1), (n2, v2)]);
                    }
                }
            }
        }
        for v1 in 0..3 {
            for v2 in 0..3 {
                for v3 in 0..3 {
                    var_lists.push(vec![(0, v1), (2, v2), (1, v3)]);
                }
            }
        }
        for vl in &var_lists {
            let vars: Vec<Value> = vl.iter().map(|(n, v)| json!([names[*n], values[*v]])).collect();
            for chunk in templates.chunks(40) {
                emit(json!({"kind": "sub", "vars": vars, "ts": chunk, "exh": true}));
            }
        }
    }
    for i in 0..args.n {
        if i % 4 == 3 {
            emit(gen_sub(&mut rng));
        } else if i % 8 == 6 {
            emit(gen_law(&mut rng));
        } else if i % 16 == 2 {
            emit(gen_tr(&mut rng));
        } else if i % 16 == 10 {
            emit(gen_uni(&mut rng));
        } else {
            emit(gen_case(&mut rng));
        }
    }
}

fn main() {
    main_with(gen, run);
}
