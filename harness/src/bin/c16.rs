//! C16 — the HTML tokenizer is lossless and total: implementation side of the correspondence.
//!
//! plain case : {"bytes": "<hex>" [, "ctx": "<ASCII context tag>" (new_fragment)] [, "cdata": bool (allow_cdata)]
//!               [, "family": "<name of the boundary family; only a tag>"]}
//! block case : {"exh": true, "pre": "<hex>", "alpha": "<hex>", "len": L, "lo": a, "n": c [, "expand": true]}
//!              = the strings pre ++ w for the a-th .. (a+c-1)-th word w of length L over alpha
//!              (base-|alpha| digits, most significant first); obs = {"n", "tok", "h"} with h the
//!              FNV-1a-64 of the compact JSON text of every per-string OBS (same on the model side).
//! OBS format: see lean/Drivers/C16.lean.
//!
//! Oracle on the implementation alone (every string, also inside blocks):
//!   * concat(raw() of every token incl. the final ErrorToken) ++ buffered() == input        sig bytes-lost
//!   * every non-error token has a non-empty raw span, and next() is called at most len+1 times  sig no-progress
//!   * tag_name() is Some for start / end / self-closing tokens                                sig tag-name-none
//!   * when the input is valid UTF-8 every accessor returns Ok                                 sig accessor-fails-on-valid-utf8
//!   * no panic (caught by the framework, debug assertions + overflow checks on)               sig panic
//!   * RESTART: at one token boundary with err() unset (the first with a non-empty raw_tag(), else the middle one) a fresh
//!     new_fragment(rest, raw_tag()) yields exactly the remaining tokens (theorem restart_in_context) sig restart-mismatch
//!   * raw_tag() is "" or one of the ten raw-text element names; non-empty only after a (self-closing) start tag or in
//!     plaintext; after a start OR SELF-CLOSING tag it is the lower-cased tag name iff that is one of the ten names
//!     (read_start_tag assigns raw_tag before it looks at the solidus), else ""                  sig raw-tag-context
use redirectionio::html::{TokenType, Tokenizer};
use rio_harness::*;
use serde_json::{json, Value};

const ALPHA: &[u8] = b"<>/!-=\"' ascript[]?";

fn kind_code(t: TokenType) -> &'static str {
    match t {
        TokenType::NoneToken => "N",
        TokenType::ErrorToken => "X",
        TokenType::TextToken => "T",
        TokenType::StartTagToken => "S",
        TokenType::EndTagToken => "E",
        TokenType::SelfClosingTagToken => "C",
        TokenType::CommentToken => "M",
        TokenType::DoctypeToken => "D",
    }
}

struct One {
    obs: Value,
    fail: Option<(String, &'static str)>,
    ntok: usize,
    kinds: u32,
}

/// Run the real tokenizer on one input; OBS + oracle.
fn observe(input: &[u8]) -> One {
    observe_with(input, None, true)
}

/// `ctx`: `Tokenizer::new_fragment(bytes, ctx)` instead of `new`; `cdata`: value given to `allow_cdata`.
fn observe_with(input: &[u8], ctx: Option<&str>, cdata: bool) -> One {
    let mut tk = match ctx {
        Some(c) => Tokenizer::new_fragment(input.to_vec(), c.to_string()),
        None => Tokenizer::new(input.to_vec()),
    };
    if !cdata {
        tk.allow_cdata(false);
    }
    // what new / new_fragment made of the context tag (before the first next())
    let ctx0 = hex(tk.raw_tag().as_bytes());
    let utf8_ok = std::str::from_utf8(input).is_ok();
    let mut toks: Vec<Value> = Vec::new();
    let mut pos = 0usize;
    let mut fail: Option<(String, &'static str)> = None;
    let mut kinds = 0u32;
    let setfail = |f: &mut Option<(String, &'static str)>, why: String, sig: &'static str| {
        if f.is_none() {
            *f = Some((why, sig));
        }
    };
    // (kind, raw span, raw_tag() after, err after) of every token, for the restart oracle below
    let mut trace: Vec<(TokenType, usize, usize, String, bool)> = Vec::new();
    let mut calls = 0usize;
    loop {
        calls += 1;
        if calls > input.len() + 2 {
            setfail(&mut fail, format!("more than len+2 calls of next() on {}", hex(input)), "no-progress");
            break;
        }
        let ctx_before = tk.raw_tag().to_string();
        let tt = match tk.next() {
            Ok(t) => t,
            Err(e) => {
                setfail(&mut fail, format!("next() returned Err({e}) on {}", hex(input)), "next-err");
                toks.push(json!(["ERR", pos, pos, null, hex(tk.raw_tag().as_bytes()), tk.err().is_some()]));
                break;
            }
        };
        // the context the NEXT call of next() will read in, and whether this call ran into the end of the data
        let ctx_after = hex(tk.raw_tag().as_bytes());
        let err_after = tk.err().is_some();
        {
            const RAW: &[&str] = &["", "iframe", "noembed", "noframes", "noscript", "plaintext", "script", "style", "title", "textarea", "xmp"];
            let rt = tk.raw_tag();
            if !RAW.contains(&rt) {
                setfail(&mut fail, format!("raw_tag() = {rt:?} is not a raw-text element name on {}", hex(input)), "raw-tag-context");
            } else if !rt.is_empty() && rt != "plaintext" && tt != TokenType::StartTagToken && tt != TokenType::SelfClosingTagToken {
                setfail(&mut fail, format!("raw_tag() = {rt:?} after a token that is not a start tag on {}", hex(input)), "raw-tag-context");
            } else if (tt == TokenType::StartTagToken || tt == TokenType::SelfClosingTagToken) && ctx_before != "plaintext" {
                // read_start_tag assigns raw_tag BEFORE it looks at the solidus: a raw-text element's start tag sets the
                // context to its lower-cased name whether or not it is written with self-closing syntax (`<script src=a />`,
                // `<title/>`), every other start tag leaves "" (the context before a tag token is "" unless it is plaintext)
                let raw = tk.raw();
                let name: Vec<u8> = raw.iter().skip(1).take_while(|b| !matches!(**b, b' ' | b'\n' | b'\r' | b'\t' | 0x0c | b'/' | b'>')).map(|b| b.to_ascii_lowercase()).collect();
                let expect: &str = RAW.iter().copied().find(|n| !n.is_empty() && n.as_bytes() == &name[..]).unwrap_or("");
                if rt != expect {
                    setfail(&mut fail, format!("raw_tag() = {rt:?} after the {} tag {:?}, expected {expect:?}, on {}", if tt == TokenType::StartTagToken { "start" } else { "self-closing" }, String::from_utf8_lossy(&name), hex(input)), "raw-tag-context");
                }
            }
        }
        let raw = tk.raw();
        let start = pos;
        let end = pos + raw.len();
        if end > input.len() || input[start..end] != raw[..] {
            setfail(&mut fail, format!("raw span of token {} is not the next slice of the input {}", toks.len(), hex(input)), "bytes-lost");
        }
        pos = end;
        let ascii = raw.is_ascii();
        kinds |= 1 << (tt as u32);
        let payload: Value = match tt {
            TokenType::TextToken | TokenType::CommentToken | TokenType::DoctypeToken => match tk.text() {
                Ok(Some(s)) => json!(hex(s.as_bytes())),
                Ok(None) => Value::Null,
                Err(_) => {
                    if utf8_ok {
                        setfail(&mut fail, format!("text() failed on valid UTF-8 input {}", hex(input)), "accessor-fails-on-valid-utf8");
                    }
                    json!("utf8")
                }
            },
            TokenType::StartTagToken | TokenType::EndTagToken | TokenType::SelfClosingTagToken => match tk.tag_name() {
                Ok((name, has)) => {
                    if name.is_none() {
                        setfail(&mut fail, format!("tag_name() is None for a tag token of {}", hex(input)), "tag-name-none");
                    }
                    let nm = |s: &str| if ascii { json!(hex(s.as_bytes())) } else { json!("na") };
                    let mut attrs: Vec<Value> = Vec::new();
                    let mut more = has;
                    let mut guard = 0usize;
                    while more && name.is_some() {
                        guard += 1;
                        if guard > input.len() + 2 {
                            setfail(&mut fail, format!("tag_attr() loop does not stop on {}", hex(input)), "no-progress");
                            break;
                        }
                        match tk.tag_attr() {
                            Ok((Some(k), Some(v), m)) => {
                                attrs.push(json!([nm(&k), hex(v.as_bytes())]));
                                more = m;
                            }
                            Ok(_) => break,
                            Err(_) => {
                                if utf8_ok {
                                    setfail(&mut fail, format!("tag_attr() failed on valid UTF-8 input {}", hex(input)), "accessor-fails-on-valid-utf8");
                                }
                                attrs.push(json!("utf8"));
                                break;
                            }
                        }
                    }
                    match name {
                        Some(n) => json!([nm(&n), has, attrs]),
                        None => json!([null, has, []]),
                    }
                }
                Err(_) => {
                    if utf8_ok {
                        setfail(&mut fail, format!("tag_name() failed on valid UTF-8 input {}", hex(input)), "accessor-fails-on-valid-utf8");
                    }
                    json!(["utf8", false, []])
                }
            },
            _ => Value::Null,
        };
        toks.push(json!([kind_code(tt), start, end, payload, ctx_after, err_after]));
        trace.push((tt, start, end, tk.raw_tag().to_string(), err_after));
        if tt == TokenType::ErrorToken {
            break;
        }
        if raw.is_empty() {
            setfail(&mut fail, format!("token {} of {} has an empty raw span", toks.len() - 1, hex(input)), "no-progress");
        }
    }
    let rest = tk.buffered();
    if pos + rest.len() != input.len() || input[pos.min(input.len())..] != rest[..] {
        setfail(&mut fail, format!("raw spans + buffered() do not reproduce the input {}", hex(input)), "bytes-lost");
    }
    // RESTART oracle (implementation alone): at one token boundary where err() is unset — the first one with a non-empty
    // raw_tag() if there is one (e.g. right after `<script src=a />`), else the middle one — a fresh
    // `new_fragment(rest of the input, raw_tag())` must produce exactly the remaining tokens (kind, raw length, raw_tag, err)
    if fail.is_none() && trace.len() >= 2 {
        let k = trace.iter().position(|t| !t.3.is_empty() && !t.4).unwrap_or(trace.len() / 2 - 1);
        let (_, _, pos_k, ctx_k, err_k) = trace[k].clone();
        if !err_k && pos_k <= input.len() {
            let mut tk2 = Tokenizer::new_fragment(input[pos_k..].to_vec(), ctx_k.clone());
            if !cdata {
                tk2.allow_cdata(false);
            }
            for (j, want) in trace[k + 1..].iter().enumerate() {
                let got = match tk2.next() {
                    Ok(t) => t,
                    Err(_) => break,
                };
                let glen = tk2.raw().len();
                if got != want.0 || glen != want.2 - want.1 || tk2.raw_tag() != want.3 || tk2.err().is_some() != want.4 {
                    setfail(
                        &mut fail,
                        format!(
                            "restart at byte {pos_k} with new_fragment(rest, {ctx_k:?}): token {j} is {:?}/{glen} bytes/raw_tag {:?}, the continued tokenizer gave {:?}/{} bytes/raw_tag {:?} on {}",
                            kind_code(got), tk2.raw_tag(), kind_code(want.0), want.2 - want.1, want.3, hex(input)
                        ),
                        "restart-mismatch",
                    );
                    break;
                }
                if got == TokenType::ErrorToken {
                    break;
                }
            }
        }
    }
    let ntok = toks.len();
    One { obs: json!([toks, rest.len(), ctx0]), fail, ntok, kinds }
}

fn fnv(mut h: u64, s: &[u8]) -> u64 {
    for b in s {
        h = (h ^ (*b as u64)).wrapping_mul(1099511628211);
    }
    h
}

fn word(alpha: &[u8], len: usize, mut i: u64, out: &mut Vec<u8>) {
    let k = alpha.len() as u64;
    let base = out.len();
    out.resize(base + len, 0);
    for j in 0..len {
        out[base + len - 1 - j] = alpha[(i % k) as usize];
        i /= k;
    }
}

// ---------------------------------------------------------------------------------------------
// generators

fn rand_name(rng: &mut Prng) -> String {
    const NAMES: &[&str] = &[
        "a", "p", "div", "b", "em", "br", "img", "input", "meta", "html", "body", "head", "script", "SCRIPT", "Script", "style", "STYLE", "title", "Title",
        "textarea", "TEXTAREA", "xmp", "iframe", "noembed", "noframes", "noscript", "plaintext", "scriptx", "styl", "s", "i", "n", "t", "x", "P", "DIV", "h1",
        "my-el", "a:b", "é", "aÉ", "x\u{212a}", "a\u{e0}", "b\u{c5}c", "n\u{a0}", "t\u{85}x", "h\u{65e5}", "q\u{10020}", "e\u{1f085}z",
    ];
    rng.pick(NAMES).to_string()
}

fn rand_text(rng: &mut Prng) -> String {
    const T: &[&str] = &[
        "foo", " ", "bar baz", "&amp;", "&lt;", "&#x41;", "&noSuch;", "&", "é", "日本", "🎉", "\u{0}", "a < b", "x>y", "<", "<<", "< ", "<3", "-->", "]]>", "\n", "\t", "=", "\"", "'", "/", "\u{c}",
    ];
    let n = rng.range(1, 3);
    (0..n).map(|_| *rng.pick(T)).collect()
}

fn rand_attr(rng: &mut Prng) -> String {
    const KEYS: &[&str] = &[
        "id", "class", "HREF", "data-x", "disabled", "é", "a=b", "x/y", "", "=", "onclick", "V", "\u{e0}", "k\u{c5}", "\u{a0}k", "x\u{85}y", "\u{65e5}\u{672c}", "\u{10020}", "d\u{1f085}",
    ];
    // incl. 2/3/4-byte characters whose continuation bytes are 0x85 / 0xA0 (Latin-1 "whitespace")
    const VALS: &[&str] = &[
        "", "1", "a b", "x>y", "a'b", "a\"b", "é", "/", "a=b", "&quot;", "</p", "\u{0}", "日", "\u{e0}", "v\u{c5}w", "\u{a0}", "a\u{a0}b", "\u{85}", "x\u{85}", "\u{2005}", "\u{20a0}", "\u{3000}",
        "\u{65e5}\u{672c}", "\u{10020}", "\u{1f085}", "p\u{10085}q", "\u{e0}\u{a0}\u{85}",
    ];
    let k = *rng.pick(KEYS);
    let v = *rng.pick(VALS);
    let sp = |rng: &mut Prng| *rng.pick(&["", "", " ", "  ", "\n", "\t"]);
    match rng.below(6) {
        0 => k.to_string(),
        1 => format!("{k}{}={}\"{v}\"", sp(rng), sp(rng)),
        2 => format!("{k}{}={}'{v}'", sp(rng), sp(rng)),
        3 => format!("{k}{}={}{v}", sp(rng), sp(rng)),
        4 => format!("{k}="),
        _ => format!("{k} = "),
    }
}

fn rand_script_body(rng: &mut Prng) -> String {
    const S: &[&str] = &[
        "var a=1;", "<", "</", "</s", "</scr", "</script", "</scriptx", "</SCRIPT", "<!", "<!-", "<!--", "-", "--", "-->", "->", "<script", "<script>", "<SCRIPT ", "<scripty",
        "</script>", "</script >", "</script/", "<s", "<a>", "</a>", "x", " ", "é", "\n", "<!--<script>", "<!--<script></script>", "</style>", "<!-->", "<!--->",
    ];
    let n = rng.below(7);
    (0..n).map(|_| *rng.pick(S)).collect()
}

fn rand_piece(rng: &mut Prng) -> String {
    match rng.below(20) {
        0..=3 => rand_text(rng),
        4..=7 => {
            let n = rand_name(rng);
            let na = rng.below(4);
            let attrs: String = (0..na).map(|_| format!("{}{}", *rng.pick(&[" ", "  ", "\n", "/", ""]), rand_attr(rng))).collect();
            let close = *rng.pick(&[">", ">", ">", "/>", " />", " >", ""]);
            format!("<{n}{attrs}{close}")
        }
        8..=9 => format!("</{}{}", rand_name(rng), *rng.pick(&[">", " >", " x=1>", "", "/>"])),
        10 => {
            const C: &[&str] = &["<!---->", "<!-->", "<!--->", "<!-- x -->", "<!--x--!>", "<!--x->-->", "<!--x", "<!--x-", "<!--x--", "<!--x---", "<!>", "<!->", "<!x>", "<!--a--!b-->", "<!--é-->", "<!--\u{0}-->"];
            rng.pick(C).to_string()
        }
        11 => {
            const D: &[&str] = &["<!DOCTYPE html>", "<!doctype  html>", "<!doctypehtml>", "<!DOCTYPE", "<!DOCTYPE ", "<!DOCUMENT html>", "<!DOCTYP", "<!docTYPE html PUBLIC \"x\">"];
            rng.pick(D).to_string()
        }
        12 => {
            const D: &[&str] = &["<![CDATA[x]]>", "<![CDATA[x]]]>", "<![CDATA[", "<![CDATA[]]]>y", "<![CDATA[a]b]]c]]]>", "<![CDAT", "<![cdata[x]]]>", "<![CDATA[\u{0}]]]>"];
            rng.pick(D).to_string()
        }
        13 => {
            const D: &[&str] = &["<?xml?>", "<?", "<?x", "</>", "</ >", "</.", "</.>", "</", "<", "</3>", "<//>"];
            rng.pick(D).to_string()
        }
        14..=16 => {
            let open = *rng.pick(&["<script>", "<SCRIPT>", "<script type=\"x\">", "<script >", "<script/>", "<script />", "<script src=a />", "<ScRiPt/ >", "<SCRIPT a=b/>"]);
            let close = *rng.pick(&["</script>", "</SCRIPT>", "</script >", "", "</scr", "</script"]);
            format!("{open}{}{close}", rand_script_body(rng))
        }
        17..=18 => {
            let n = *rng.pick(&["title", "textarea", "style", "xmp", "iframe", "noembed", "noframes", "noscript", "TITLE", "Style", "plaintext"]);
            let body = match rng.below(3) {
                0 => rand_text(rng),
                1 => rand_script_body(rng),
                _ => format!("<p>{}</{}x></{}", rand_text(rng), n, &n[..n.len() - 1]),
            };
            let close = match rng.below(4) {
                0 => String::new(),
                1 => format!("</{}>", n.to_uppercase()),
                2 => format!("</{n} >"),
                _ => format!("</{n}>"),
            };
            // the start tag: plain, with attributes, or written with a solidus (the context is set all the same)
            let open_end = if rng.chance(1, 3) { *rng.pick(SELF_CLOSE) } else { ">" };
            let n_open = rng.pick(&case_variants(n)).clone();
            format!("<{n_open}{open_end}{body}{close}")
        }
        _ => {
            let n = rng.range(1, 6);
            (0..n).map(|_| *rng.pick(ALPHA) as char).collect()
        }
    }
}

fn gen_doc(rng: &mut Prng) -> Vec<u8> {
    let n = rng.range(0, 8);
    let s: String = (0..n).map(|_| rand_piece(rng)).collect();
    s.into_bytes()
}

fn mutate(rng: &mut Prng, mut b: Vec<u8>) -> Vec<u8> {
    let k = rng.range(1, 4);
    for _ in 0..k {
        match rng.below(6) {
            0 if !b.is_empty() => {
                let i = rng.below(b.len());
                b.remove(i);
            }
            1 => {
                let i = rng.below(b.len() + 1);
                b.insert(i, *rng.pick(ALPHA));
            }
            2 if !b.is_empty() => {
                let i = rng.below(b.len());
                b[i] = *rng.pick(ALPHA);
            }
            3 if !b.is_empty() => {
                let i = rng.below(b.len());
                b[i] = rng.below(256) as u8;
            }
            4 if !b.is_empty() => {
                let i = rng.below(b.len() + 1);
                b.truncate(i);
            }
            _ => {
                // case flip of an ASCII letter
                if !b.is_empty() {
                    let i = rng.below(b.len());
                    if b[i].is_ascii_alphabetic() {
                        b[i] ^= 0x20;
                    }
                }
            }
        }
    }
    b
}

// ---------------------------------------------------------------------------------------------
// boundary families (deterministic; emitted at the start of EVERY run, plus a small random share)

/// the attribute counts at which a narrowed counter / index would wrap or saturate
const ATTR_COUNTS: &[usize] = &[1, 2, 15, 16, 17, 255, 256, 257, 300, 1000];
/// token lengths around 2^8, 2^12, 2^13, 2^16
const LONG_LENS: &[usize] = &[255, 256, 257, 4095, 4096, 4097, 8191, 8192, 8193, 65535, 65536, 70000];
/// the five ASCII white-space bytes of the HTML spec, then near-misses (VT, NUL, US, and NBSP as U+00A0 in UTF-8 and as a bare 0xA0 byte)
const WS_BYTES: &[&[u8]] = &[b"\t", b"\n", b"\x0c", b"\r", b" ", b"\x0b", b"\0", b"\x1f", b"\xc2\xa0", b"\xa0", b"\x85", b"\x1c"];
const NEST_DEPTHS: &[usize] = &[64, 256, 1024];

/// one attribute in quoting style `style` (0 bare key, 1 double, 2 single, 3 unquoted, 4 `k=`-then-next, 5 spaced `=`)
fn styled_attr(i: usize, style: usize, out: &mut Vec<u8>) {
    let k = format!("k{i}");
    let v = format!("v{i}");
    let s = match style % 6 {
        0 => k,
        1 => format!("{k}=\"{v} {i}\""),
        2 => format!("{k}='{v}>{i}'"),
        3 => format!("{k}={v}"),
        4 => format!("K{i}=\"\""),
        _ => format!("{k} = {v}"),
    };
    out.extend_from_slice(s.as_bytes());
}

/// a start tag with `n` attributes (`style` = 6: cycle through all styles), then a second tag (the counter is reset), then an end tag
fn many_attrs_doc(n: usize, style: usize, selfclose: bool) -> Vec<u8> {
    let mut d = b"<div".to_vec();
    for i in 0..n {
        d.push(if i % 7 == 3 { b'\n' } else { b' ' });
        styled_attr(i, if style == 6 { i } else { style }, &mut d);
    }
    d.extend_from_slice(if selfclose { b"/>" } else { b">" });
    d.extend_from_slice(b"<b x=1 y>t</b></div>");
    d
}

/// every white-space position of a tag, with `w` as the white space; the pieces are independent tags
fn ws_doc(w: &[u8]) -> Vec<u8> {
    const T: &[&str] = &[
        "<a~b=1>", "<a~>", "<a~/>", "<a b=1~c=2>", "<a b~c>", "<a b~=1>", "<a b=~1>", "<a b~=~\"1\"~c~=~'2'~>", "<a b=1~/>", "<a b=1~>", "<a b=\"1\"~>", "<a b='1'~/>", "<a b~/>",
        "<a b=\"x~y\" c='x~y'>", "</a~>", "</a~b>", "<!DOCTYPE~html>", "<!DOCTYPE~~html~>", "<!doctype~>", "<~a>", "</~a>", "<a/~>", "<a~~b~~=~~c~~>", "<br~/~>",
        "<title>x</title~>y</title>", "<script>x</script~>y</script>", "<textarea~>x</textarea~z>y</textarea~/>", "<script~>x</script~", "x~y", "<!--~-->", "<title~a=b>x</title>",
    ];
    let mut d = Vec::new();
    for t in T {
        for b in t.bytes() {
            if b == b'~' {
                d.extend_from_slice(w);
            } else {
                d.push(b);
            }
        }
        d.push(b'|');
    }
    d
}

fn letters(n: usize, salt: usize, out: &mut Vec<u8>) {
    for i in 0..n {
        out.push(b'a' + ((i * 7 + salt) % 26) as u8);
    }
}

/// tag name / attribute key / attribute values / text / comment / raw text / script / doctype of `n` bytes each
fn long_doc(n: usize) -> Vec<u8> {
    let mut d = Vec::new();
    d.push(b'<');
    letters(n, 0, &mut d);
    d.extend_from_slice(b" x=1>");
    letters(n, 1, &mut d); // text
    d.extend_from_slice(b"<a v=\"");
    letters(n, 2, &mut d);
    d.extend_from_slice(b"\" w='");
    letters(n, 3, &mut d);
    d.extend_from_slice(b"' u=");
    letters(n, 4, &mut d);
    d.push(b' ');
    letters(n, 5, &mut d); // long key
    d.extend_from_slice(b"=1><!--");
    letters(n, 6, &mut d);
    d.extend_from_slice(b"--><title>");
    letters(n, 7, &mut d);
    d.extend_from_slice(b"</title><script>");
    letters(n, 8, &mut d);
    d.extend_from_slice(b"</script><!DOCTYPE ");
    letters(n, 9, &mut d);
    d.extend_from_slice(b"></");
    letters(n, 0, &mut d);
    d.extend_from_slice(b">\xc3\xa9");
    d
}

fn nest_doc(depth: usize) -> Vec<u8> {
    let mut d = Vec::new();
    for i in 0..depth {
        d.extend_from_slice(if i % 3 == 0 { b"<div c=1>" } else { b"<p>" });
    }
    d.extend_from_slice(b"deep");
    for i in (0..depth).rev() {
        d.extend_from_slice(if i % 3 == 0 { b"</div>" } else { b"</p>" });
    }
    d
}

/// the names `new_fragment` accepts, then names it must not accept
const FRAG_NAMES: &[&str] = &[
    "iframe", "noembed", "noframes", "noscript", "plaintext", "script", "style", "title", "textarea", "xmp", "div", "", "a", "scriptx", "scrip", "titl", "titles", "textareas", "xm", "svg", "template",
    "noscrip", "i", "s", "t", "plain text", "script ", " title", "html", "head",
    // non-ASCII: long s, dotted capital I, dotless i, Kelvin sign, accented letters, a non-BMP character
    "\u{17f}cript", "scr\u{130}pt", "t\u{131}tle", "\u{212a}", "x\u{212a}mp", "t\u{ee}tle", "styl\u{e9}", "title\u{1f600}", "\u{e9}",
];

fn case_variants(n: &str) -> Vec<String> {
    let mut v = vec![n.to_string(), n.to_uppercase()];
    let mut cap: Vec<char> = n.chars().collect();
    if let Some(c) = cap.first_mut() {
        *c = c.to_ascii_uppercase();
    }
    v.push(cap.into_iter().collect());
    v.push(n.chars().enumerate().map(|(i, c)| if i % 2 == 1 { c.to_ascii_uppercase() } else { c }).collect());
    v.dedup();
    v
}

/// `Tokenizer::new_fragment(data, ctx)` for every raw-text context in every letter case and for non-raw-text names:
/// the data starts inside the element's content (tag-like text, partial and wrong end tags, then the real end tag)
fn fragment_cases(emit: &mut dyn FnMut(Value)) {
    for n in FRAG_NAMES {
        for (vi, ctx) in case_variants(n).iter().enumerate() {
            let lower = n.to_lowercase();
            let lower = lower.trim();
            let docs = [
                format!("x<b>y</{lower}x>z</{lower}</{} ><{lower}>w<i></{lower}><i>t", lower.to_uppercase()),
                format!("<!--<script></script><p>--></{lower}>v<{lower}>"),
                format!("</{lower}>"),
                format!("a</{lower}"),
                String::new(),
            ];
            for (di, d) in docs.iter().enumerate() {
                emit(json!({"bytes": hex(d.as_bytes()), "ctx": ctx, "cdata": (vi + di) % 3 != 0, "family": "fragment"}));
            }
        }
    }
}

/// the ten raw-text element names
const RAW_NAMES: &[&str] = &["iframe", "noembed", "noframes", "noscript", "plaintext", "script", "style", "title", "textarea", "xmp"];
/// ways to write the end of a start tag with a solidus (and the plain `>` for comparison)
const SELF_CLOSE: &[&str] = &["/>", " />", "/ >", " a=b/>", " a=\"b\" />", " a=b / >", " a='/'/>", " src=a />", "\n/>", " / />", ">", " >", " a=b>", " a=/>"];
/// what follows the tag: tag-like text, the element's end tag, another raw-text element, nothing
const AFTER_RAW: &[&str] = &["<p>x</p><!--c--></~>y<b>", "</~>t<i>", "<~>z</~>w", "", "x", "<p>", "</~ >q", "<!--</~>-->e"];

/// a raw-text element's start tag written with self-closing syntax: `raw_tag()` after it and how the following bytes are
/// tokenised (the code sets the context before it looks at the solidus)
fn selfclosing_raw_cases(emit: &mut dyn FnMut(Value)) {
    for n in RAW_NAMES {
        for (vi, name) in case_variants(n).iter().enumerate() {
            for (si, sc) in SELF_CLOSE.iter().enumerate() {
                // every follower for the lower-case spelling, a rotating pair for the other spellings
                for (ai, after) in AFTER_RAW.iter().enumerate() {
                    if vi != 0 && (ai + si + vi) % 4 != 0 {
                        continue;
                    }
                    let d = format!("<{name}{sc}{}", after.replace('~', n));
                    emit(json!({"bytes": hex(d.as_bytes()), "family": "selfclosing-raw"}));
                }
            }
        }
    }
}

/// the fixed boundary cases
fn boundary_cases(emit: &mut dyn FnMut(Value)) {
    fragment_cases(emit);
    selfclosing_raw_cases(emit);
    for &n in ATTR_COUNTS {
        emit(json!({"bytes": hex(&many_attrs_doc(n, 6, n % 2 == 0)), "family": "many-attrs"}));
    }
    for &n in &[255usize, 256, 257] {
        for style in 0..4 {
            emit(json!({"bytes": hex(&many_attrs_doc(n, style, false)), "family": "many-attrs"}));
        }
    }
    for w in WS_BYTES {
        emit(json!({"bytes": hex(&ws_doc(w)), "family": "ws"}));
    }
    for &n in LONG_LENS {
        emit(json!({"bytes": hex(&long_doc(n)), "family": "long"}));
    }
    for &n in NEST_DEPTHS {
        emit(json!({"bytes": hex(&nest_doc(n)), "family": "nest"}));
    }
}

/// a random member of the boundary families (kept small: this is a share of the random cases)
fn rand_boundary(rng: &mut Prng) -> Vec<u8> {
    match rng.below(4) {
        0 => {
            let n = (if rng.chance(1, 16) { 1000 } else { *rng.pick(&ATTR_COUNTS[..9]) }) + rng.below(2);
            many_attrs_doc(n, rng.below(7), rng.chance(1, 2))
        }
        1 => {
            // a random tag with random (near-)white-space bytes at its white-space positions
            let mut d = Vec::new();
            let k = rng.range(1, 5);
            for _ in 0..k {
                let t = format!(
                    "<{}{}~{}~=~{}~{}~{}>",
                    *rng.pick(&["", "/", "!DOCTYPE"]),
                    rand_name(rng),
                    *rng.pick(&["b", "id", "B"]),
                    *rng.pick(&["1", "\"1\"", "'1'", ""]),
                    *rng.pick(&["c", "", "c=2"]),
                    *rng.pick(&["", "/"])
                );
                for b in t.bytes() {
                    if b == b'~' {
                        if rng.chance(2, 3) {
                            let w: &[u8] = *rng.pick(WS_BYTES);
                            d.extend_from_slice(w);
                        }
                    } else {
                        d.push(b);
                    }
                }
            }
            d
        }
        2 => {
            let n = if rng.chance(1, 16) { *rng.pick(LONG_LENS) } else { *rng.pick(&LONG_LENS[..9]) };
            let n = n + rng.below(3) - 1;
            let mut d = Vec::new();
            match rng.below(6) {
                0 => {
                    d.push(b'<');
                    letters(n, 0, &mut d);
                    d.extend_from_slice(b">x");
                }
                1 => {
                    d.extend_from_slice(b"<a b=\"");
                    letters(n, 1, &mut d);
                    d.extend_from_slice(b"\">");
                }
                2 => {
                    letters(n, 2, &mut d);
                    d.extend_from_slice(b"<p>");
                }
                3 => {
                    d.extend_from_slice(b"<!--");
                    letters(n, 3, &mut d);
                    d.extend_from_slice(b"-->");
                }
                4 => {
                    d.extend_from_slice(b"<style>");
                    letters(n, 4, &mut d);
                    d.extend_from_slice(b"</style>");
                }
                _ => {
                    d.extend_from_slice(b"<script>");
                    letters(n, 5, &mut d);
                    d.extend_from_slice(b"</script>");
                }
            }
            d
        }
        _ => nest_doc(*rng.pick(NEST_DEPTHS) / (1 + rng.below(4)) + rng.below(3)),
    }
}

// ---------------------------------------------------------------------------------------------
// diff-directed hints (env VERIF_HINTS, see notes/BUILDER_GUIDE.md): emitted FIRST when present

/// the byte strings to inject: every hinted string, its upper- and lower-cased forms, and every hinted number < 256 as one byte
fn hint_strings(h: &Hints) -> Vec<Vec<u8>> {
    let mut out: Vec<Vec<u8>> = Vec::new();
    let mut add = |b: Vec<u8>| {
        if !b.is_empty() && b.len() <= 64 && !out.contains(&b) {
            out.push(b);
        }
    };
    for s in &h.strs {
        add(s.as_bytes().to_vec());
        add(s.to_uppercase().into_bytes());
        add(s.to_lowercase().into_bytes());
    }
    for n in &h.nums {
        if *n < 256 {
            add(vec![*n as u8]);
        }
    }
    out
}

fn subst(template: &str, w: &[u8]) -> Vec<u8> {
    let mut d = Vec::new();
    for b in template.bytes() {
        if b == b'~' {
            d.extend_from_slice(w);
        } else {
            d.push(b);
        }
    }
    d
}

fn hint_cases(h: &Hints, emit: &mut dyn FnMut(Value)) {
    let mut case = |bytes: Vec<u8>, emit: &mut dyn FnMut(Value)| emit(json!({"bytes": hex(&bytes), "family": "hint"}));
    // sizes: numbers of attributes, token lengths, nesting depths, numbers of tokens, distance of EOF from a construct
    for n in h.sizes(70_001) {
        if n <= 5000 {
            for style in [6usize, 0, 1, 2, 3] {
                case(many_attrs_doc(n, style, style == 2), emit);
            }
            case(nest_doc(n), emit);
            case(b"<p>".repeat(n), emit);
            case(b"<br/>x".repeat(n), emit);
            case([b"<a".to_vec(), b" ".repeat(n), b"b".to_vec(), b"\n".repeat(n), b"=".to_vec(), b"\t".repeat(n), b"c>".to_vec()].concat(), emit);
        }
        case(long_doc(n), emit);
        // EOF `n` bytes after the start of a construct (and one construct of every kind exactly n bytes long)
        const OPEN: &[&str] = &[
            "", "<", "</", "<a ", "<a b=", "<a b=\"", "<a b='", "<!--", "<!", "<!DOCTYPE ", "<![CDATA[", "<?", "<script>", "<script><!--", "<script><!--<script>", "<title>",
            "<textarea>", "<style>", "<plaintext>", "<script></", "<title></",
        ];
        for o in OPEN {
            let mut d = o.as_bytes().to_vec();
            letters(n, 3, &mut d);
            case(d.clone(), emit);
            if n >= o.len() && !o.is_empty() {
                // the whole input is n bytes
                let mut e = o.as_bytes().to_vec();
                letters(n - o.len(), 5, &mut e);
                case(e, emit);
            }
        }
        for (o, c) in [("<", ">"), ("</", ">"), ("<a b=\"", "\">"), ("<!--", "-->"), ("<!DOCTYPE ", ">"), ("<![CDATA[", "]]>"), ("<script>", "</script>"), ("<title>", "</title>")] {
            // the token's raw span is exactly n bytes
            if n >= o.len() + c.len() {
                let mut d = o.as_bytes().to_vec();
                letters(n - o.len() - c.len(), 7, &mut d);
                d.extend_from_slice(c.as_bytes());
                d.extend_from_slice(b"<i>z");
                case(d, emit);
            }
        }
    }
    // strings / bytes: as white space and delimiter, inside names, keys, values, text, after `</`, in script and raw text, at EOF
    for w in hint_strings(h) {
        case(ws_doc(&w), emit);
        const INJECT: &[&str] = &[
            "<a~b ~k~=~v~ x=\"~\" y='~' z=~>t~t</a~></~><~><!--~--><!~><!DOCTYPE~html~><title>~</title><script>~</script><script><!--~<script>~</script>~--></script><style>~</style~>~",
            "<~", "<a~", "<a ~", "<a b~", "<a b=~", "<a b=\"~", "<a b='~", "<a b=c~", "</~", "</a~", "</a ~", "<!--~", "<!--x-~", "<!--x--~", "<!~", "<!DOCTYPE~", "<!DOCTYPE ~", "<![CDATA[~", "<![CDATA[x]~",
            "<?~", "<script>~", "<script><~", "<script></~", "<script></script~", "<script><!--~", "<script><!--<script~", "<script><!--<script>~", "<script><!--<script></script~", "<title>~",
            "<title></~", "<title></title~", "<title></titl~", "<textarea>~", "<plaintext>~", "x~", "~", "~<a>", "<~>", "<a~>", "<a~/>", "<a/~>", "<a b~>", "<a b=c~>", "<a b=c~/>", "<a b=\"c\"~>", "<a b=\"c\"~d>",
            "</a~>x", "<title>x</title~>y</title>", "<script>x</script~>y</script>", "<script~>x</script>", "<scr~ipt>x</script>", "<script>x</scr~ipt>", "<ti~tle>x</title><a>", "<~script>x", "<!DOC~TYPE html>",
            "<!--~>", "<!--~->", "<!--~-->", "<!--x~-->", "<!--x-~->", "<!--x--~>", "<!--x--!~>", "<![CDATA[~]]>", "<![CDATA[x]~]>", "<![CDATA[x]]~>",
        ];
        for t in INJECT {
            case(subst(t, &w), emit);
        }
    }
}

/// context prefixes for the exhaustive suffix enumeration
const CONTEXTS: &[&str] = &[
    "", "<script>", "<script><!--", "<script><!--<script>", "<script><!--<script", "<title>", "<textarea>", "<style>", "<plaintext>", "<!--", "<![CDATA[",
    "<a ", "<a b=", "<a b=\"", "<a b='", "<a b=c", "</a", "<!DOCTYPE", "<!", "<xmp></xm",
];

fn gen(args: &Args, emit: &mut dyn FnMut(Value)) {
    let mut rng = Prng::new(args.seed);
    // diff-directed cases first (only when ./check saw a source change), then the deterministic boundary families, in every tier
    let hs = hints();
    if !hs.is_empty() {
        hint_cases(&hs, emit);
    }
    let hstrs = hint_strings(&hs);
    boundary_cases(emit);
    if args.tier == "thorough" {
        // exhaustive small scopes, in blocks; sizes via gen_args: --exh-len L (all strings of length <= L),
        // --ctx-len M (all suffixes of length <= M after every context prefix)
        let mut exh_len = 5usize;
        let mut ctx_len = 4usize;
        let mut len7 = false;
        let mut i = 0;
        while i + 1 < args.extra.len() {
            match args.extra[i].as_str() {
                "--exh-len" => exh_len = args.extra[i + 1].parse().expect("exh-len"),
                "--ctx-len" => ctx_len = args.extra[i + 1].parse().expect("ctx-len"),
                "--len7-alpha16" => len7 = args.extra[i + 1] == "1",
                _ => {}
            }
            i += 2;
        }
        let k = ALPHA.len() as u64;
        let block: u64 = 8192;
        if len7 {
            // all strings of length exactly 7 over the first 16 symbols (no `[`, `]`, `?`)
            let a16 = &ALPHA[..16];
            let total = 16u64.pow(7);
            let mut lo = 0u64;
            while lo < total {
                let n = (4 * block).min(total - lo);
                emit(json!({"exh": true, "pre": "", "alpha": hex(a16), "len": 7, "lo": lo, "n": n}));
                lo += n;
            }
        }
        for (ci, ctx) in CONTEXTS.iter().enumerate() {
            let maxlen = if ci == 0 { exh_len } else { ctx_len };
            for len in 0..=maxlen {
                if ci != 0 && len == 0 {
                    // the bare prefix
                }
                let total = k.pow(len as u32);
                let mut lo = 0u64;
                while lo < total {
                    let n = block.min(total - lo);
                    emit(json!({"exh": true, "pre": hex(ctx.as_bytes()), "alpha": hex(ALPHA), "len": len, "lo": lo, "n": n}));
                    lo += n;
                }
            }
        }
    }
    for i in 0..args.n {
        // 1 in 25: a random member of the boundary families
        if i % 25 == 24 {
            emit(json!({"bytes": hex(&rand_boundary(&mut rng)), "family": "boundary-random"}));
            continue;
        }
        // with hints: 1 in 5 is a grammar document with hinted strings spliced in or used instead of white space
        if !hstrs.is_empty() && i % 5 == 3 {
            let mut d = gen_doc(&mut rng);
            let k = rng.range(1, 3);
            for _ in 0..k {
                let w = rng.pick(&hstrs).clone();
                let ws: Vec<usize> = (0..d.len()).filter(|&j| matches!(d[j], b' ' | b'\n' | b'\t' | b'>' | b'/' | b'=')).collect();
                if !ws.is_empty() && rng.chance(1, 2) {
                    let at = *rng.pick(&ws);
                    if rng.chance(1, 2) {
                        d.splice(at..at + 1, w);
                    } else {
                        d.splice(at..at, w);
                    }
                } else {
                    let at = rng.below(d.len() + 1);
                    d.splice(at..at, w);
                }
            }
            emit(json!({"bytes": hex(&d), "family": "hint-random"}));
            continue;
        }
        let bytes: Vec<u8> = match i % 10 {
            0..=4 => gen_doc(&mut rng),
            5..=6 => {
                let d = gen_doc(&mut rng);
                mutate(&mut rng, d)
            }
            7 => {
                // random strings over the markup alphabet
                let n = rng.range(0, 40);
                (0..n).map(|_| *rng.pick(ALPHA)).collect()
            }
            8 => {
                // arbitrary bytes
                let n = rng.range(0, 48);
                (0..n).map(|_| rng.below(256) as u8).collect()
            }
            _ => {
                // arbitrary bytes spliced into markup
                let mut d = gen_doc(&mut rng);
                let n = rng.range(1, 6);
                for _ in 0..n {
                    let at = rng.below(d.len() + 1);
                    d.insert(at, rng.below(256) as u8);
                }
                d
            }
        };
        // 1 in 8: fragment context (`new_fragment`) and / or `allow_cdata(false)`
        if rng.chance(1, 8) {
            let name = *rng.pick(FRAG_NAMES);
            let vs = case_variants(name);
            let ctx = rng.pick(&vs).clone();
            let cdata = rng.chance(1, 2);
            emit(json!({"bytes": hex(&bytes), "ctx": ctx, "cdata": cdata}));
        } else {
            emit(json!({"bytes": hex(&bytes)}));
        }
    }
}

fn kinds_tags(o: &mut Obs, kinds: u32) {
    const N: &[&str] = &["none", "error", "text", "start", "end", "selfclosing", "comment", "doctype"];
    for (i, n) in N.iter().enumerate() {
        if i != 1 && kinds & (1 << i) != 0 {
            o.tags.push(format!("tok:{n}"));
        }
    }
}

fn run(case: &Value) -> Obs {
    if case.get("exh").and_then(|v| v.as_bool()) == Some(true) {
        let (pre, alpha) = match (s(case, "pre").and_then(|h| unhex(&h)), s(case, "alpha").and_then(|h| unhex(&h))) {
            (Some(p), Some(a)) if !a.is_empty() => (p, a),
            _ => return Obs::invalid("pre/alpha"),
        };
        let (len, lo, n) = match (case.get("len").and_then(|v| v.as_u64()), case.get("lo").and_then(|v| v.as_u64()), case.get("n").and_then(|v| v.as_u64())) {
            (Some(l), Some(a), Some(c)) if l <= 12 && c <= 2_000_000 => (l as usize, a, c),
            _ => return Obs::invalid("len/lo/n"),
        };
        let expand = case.get("expand").and_then(|v| v.as_bool()) == Some(true);
        let mut h: u64 = 14695981039346656037;
        let mut tok = 0usize;
        let mut all: Vec<Value> = Vec::new();
        let mut fail: Option<(String, &'static str)> = None;
        let mut kinds = 0u32;
        let mut buf: Vec<u8> = Vec::new();
        for i in lo..lo + n {
            buf.clear();
            buf.extend_from_slice(&pre);
            word(&alpha, len, i, &mut buf);
            let one = observe(&buf);
            tok += one.ntok;
            kinds |= one.kinds;
            if fail.is_none() {
                fail = one.fail;
            }
            if expand {
                all.push(one.obs);
            } else {
                h = fnv(h, serde_json::to_string(&one.obs).unwrap().as_bytes());
            }
        }
        let obs = if expand { json!({"n": n, "tok": tok, "all": all}) } else { json!({"n": n, "tok": tok, "h": format!("{:016x}", h)}) };
        let mut o = Obs::new(obs).trivial(n == 0).tag("block");
        kinds_tags(&mut o, kinds);
        if let Some((why, sig)) = fail {
            o = o.fail(why, sig);
        }
        return o;
    }
    let bytes = match s(case, "bytes").and_then(|h| unhex(&h)) {
        Some(b) => b,
        None => return Obs::invalid("bytes"),
    };
    let ctx = s(case, "ctx");
    // A context tag with a non-ASCII character can never be accepted: the ten names are ASCII, and the only characters
    // whose `to_lowercase()` contains an ASCII letter are U+212A KELVIN SIGN (-> "k", in no name) and U+0130 (-> "i" + U+0307,
    // not a name either).  The model maps every non-ASCII character to a byte that matches nothing; the oracle below checks
    // the implementation side of this argument directly.
    let non_ascii_ctx = ctx.as_deref().map(|c| !c.is_ascii()).unwrap_or(false);
    let cdata = case.get("cdata").and_then(|v| v.as_bool()).unwrap_or(true);
    let one = observe_with(&bytes, ctx.as_deref(), cdata);
    let ctx0_empty = one.obs.get(2).and_then(|v| v.as_str()).map(|x| x.is_empty()).unwrap_or(false);
    let mut o = Obs::new(one.obs).trivial(one.ntok <= 1);
    if ctx.is_some() {
        o.tags.push("fragment-ctx".to_string());
    }
    if non_ascii_ctx {
        o.tags.push("fragment-ctx-non-ascii".to_string());
        if !ctx0_empty {
            o = o.fail(format!("new_fragment accepted the non-ASCII context tag {:?}", ctx.as_deref().unwrap_or("")), "raw-tag-context");
        }
    }
    if !cdata {
        o.tags.push("no-cdata".to_string());
    }
    if let Some(f) = s(case, "family") {
        o.tags.push(format!("family:{f}"));
    }
    kinds_tags(&mut o, one.kinds);
    if std::str::from_utf8(&bytes).is_err() {
        o.tags.push("invalid-utf8".to_string());
    }
    if bytes.windows(7).any(|w| w.eq_ignore_ascii_case(b"<script")) {
        o.tags.push("has-script".to_string());
    }
    if let Some((why, sig)) = one.fail {
        o = o.fail(why, sig);
    }
    o
}

fn main() {
    main_with(gen, run);
}
