//! C07 — no input makes the library panic: search harness (every public entry point under catch_unwind,
//! the C entry points under every null pattern) + the two small correspondences of W8.
//!
//! case: {"family": F, ...}; one case = one entry-point family on one generated-then-mutated input.
//!   rule      {"config", "rules": [Rule JSON, mutated], "requests": [..], "response": {"status", "headers", "chunks": [hex]}}
//!             rule loading (serde) -> Router insert/cache/match/trace/remove -> Action (build, JSON round trip, status,
//!             headers, body filter on the chunks, log decision) -> Log::from_proxy
//!   analysis  {"kind": test_examples|explain|impact|unit_ids, "input": Input JSON (mutated), "base": [Rule], "project": bool}
//!   body      {"filters": [BodyFilter JSON], "headers": [[n, v]], "chunks": [hex]}      FilterBodyAction on arbitrary bytes
//!   html      {"bytes": hex, "context": str}                                           Tokenizer on arbitrary bytes
//!   request   {"str": str, "json": any, "config"}                                      Request::from_str / serde / from_config / rebuild
//!   log       {"request_json", "headers": [[n, v]], "client_ip", "proxy", "time", "legacy": any}   api/log.rs
//!   api_misc  {"uri","host","scheme","method","headers":[[n,v]],"ip","action_json","dates":[..],"times":[..],"weekdays":[..],"cidrs":[..],"strs":[..]}
//!             the wasm_api.rs surface re-enacted with the public API it wraps (wasm32 cannot be built here) and the public
//!             functions no other harness reaches directly: Request struct literal + PathAndQueryWithSkipped::from_config,
//!             add_header, Hash, set_remote_ip, header_values, serialize -> deserialize -> serialize (fixpoint); Action from an
//!             arbitrary string + every wrapper method; Header::create_header_map; Buffer::from_string; UnitTrace's mutators;
//!             StatusCodeUpdate / LogOverride through serde; RouteTime / RouteDateTime / RouteWeekday / RouteIp directly;
//!             Router::from_arc_config / insert_route / get_route_by_id; SupportedEncoding::new_hash_set
//!   marker_transform {"rule": Rule JSON, "host", "xh", "xv", "config"}   a rule whose markers (host marker, header match_regex marker) and
//!             variables (marker, request_header with default) carry transformer chains with degenerate options (empty
//!             `something` / `with`, zero / inverted / huge slice bounds), matched by a request whose captured values and header
//!             values are NON-ASCII: load -> match -> Action::from_routes_rule -> filter_headers / get_target / body filter
//!   rule_strings {"rule": Rule JSON}   rule `time` / `datetime` / `weekdays` / ip strings malformed in multi-byte ways (a multi-byte
//!             char at every byte offset 0..=12, full-width digits, trailing zone designators, > 8 bytes) at RULE LOADING
//!             (Router::insert / into_route), then one match and one trace
//!   deep_tree {"level": "tree"|"router", "n": N, "stack_kib": K, "ops": [..]}   N rules with CHAINED literal prefixes (`/a@m`, `/aa@m`, …:
//!             the radix tree gets depth N; insert / find / trace / cache / Clone / Drop / remove / retain are recursive) in a CHILD
//!             process on a thread with an explicit stack of K KiB; obs {"n","stack_kib","level","outcome": "ok"|"abort"|"timeout",
//!             "failed_op"}; an abort by stack overflow is the known finding `deep-tree-stack-overflow` (the driver abstains)
//!   addr_parse {"s": str, "std": {text: {"ip": text|null, "sock": [text, port]|null}}}   `str::parse::<http::Addr>()` — obs {"addr": null | [ip text,
//!             port|null]} compared with Model/AddrParse.lean; "std" = what the real std parsers answer for the trimmed text (recorded
//!             by `gen`, re-validated by `run`)
//!   log_ips   {"client_ip", "headers": [[n, v]], "std": {..}}   the `ips` of the real `Log::from_proxy` compared with Model/LogParse.lean
//!   transform {"kind", "options", "s"}                                                  every marker transformer through api::Transformer
//!   slice     {"s": hex, "from": n, "to": n|null}         Slice::transform — compared with the Lean model (obs {"out": hex})
//!   ffi_null  {"fn": name, "nulls": [bool]}               one extern "C" function under one null pattern of its nullable
//!                                                        parameters (the others valid) — obs {"early": bool|null} compared with
//!                                                        the model run on the regenerated null-check table
//!   ffi_str   {"fn": name, "payload": hex}                the string-taking extern "C" functions on arbitrary bytes (invalid UTF-8, …)
//!   ffi_logger {"seq": ["stderr"|"callback", ...]}        the logger initialisers, in a CHILD process (a panic in extern "C" aborts)
//!   request_time {"created_at": str, "ymdhms": [y,m,d,H,M,S], "via": "request"|"example"}   a rule with a `request_time`
//!                                                        variable on a request dated `created_at` — obs {"panics": bool, "value":
//!                                                        the rendered variable} compared with the model (Model/PanicTime.lean)
//! The two defects this harness found (W8-F1 logger re-initialisation, W8-F2 request_time x year outside 0..=9999) are repaired
//! in /repo (6ded9a9, 2547641); their families are always generated and the models follow the repaired code.
//! obs: {"ok": true} for the search families (the model predicts "returns normally"), see above for slice / ffi_null /
//! ffi_logger.  A panic is caught by the framework (sig `panic`); an abort / stack overflow / hang kills the shard and is
//! reported by ./check as `crash` on the first missing case.
use redirectionio::action::Action;
use redirectionio::api::{
    BodyFilter, Example, ExplainRequestInput, ExplainRequestOutput, ExplainRequestProjectInput, HeaderFilter, ImpactInput, ImpactOutput, ImpactProjectInput,
    LegacyLog, Log, Rule, TestExamplesInput, TestExamplesOutput, TestExamplesProjectInput, Transformer, UnitIdsInput, UnitIdsOutput, UnitIdsProjectInput,
};
use redirectionio::filter::{FilterBodyAction, FilterHeaderAction};
use redirectionio::html::{TokenType, Tokenizer};
use redirectionio::http::{Header, PathAndQueryWithSkipped, Request};
use redirectionio::marker::{Slice, Transform};
use redirectionio::router::Router;
use redirectionio::RouterConfig;
use rio_harness::*;
use serde_json::{json, Value};
use std::ffi::CString;
use std::os::raw::{c_char, c_void};
use std::ptr::{null, null_mut};
use std::sync::Arc;

include!("w8_ffi.inc");
include!("w8_common.inc");

// ------------------------------------------------------------------------------------------------
// adversarial material

const STRS: &[&str] = &[
    "", "a", "/", "/a", "/a/b?c=d&e", "é", "日本語", "\u{0}", " ", "%", "%zz", "%C3%A9", "a\u{301}", "\u{1F600}", "@m", "@", "(?:", "(", ")", "[a-", "\\", "*", ".*", "a{1000}",
    "(?P<x>a)", "[)]a", "x{99999}", "\\p{Greek}+", "(a|b)*c", "^$", "http://[::1", "http://example.org:99999/", "//", "?", "#", "\r\n", "İ", "ǅ", "ß", "K",
];
const NUMS: &[&str] = &["0", "1", "2", "5", "-1", "abc", "", "18446744073709551615", "18446744073709551616", "99999999999999999999999", " 3", "3.5", "٣"];
const HEADER_KINDS: &[&str] = &[
    "is_defined", "is_not_defined", "is_equals", "is_not_equal_to", "contains", "does_not_contain", "ends_with", "starts_with", "match_regex", "unknown", "",
];
const TRANSFORMERS: &[&str] = &["camelize", "dasherize", "lowercase", "replace", "slice", "underscorize", "uppercase", "nope", ""];
const IPS: &[&str] = &["10.0.0.0/8", "10.1.0.0/16", "::/0", "::1/128", "300.0.0.0/8", "10.0.0.0/33", "any", "", "10.0.0.1", "é"];
const DATES: &[&str] = &[
    "2000-01-01T00:00:00Z", "2030-01-01T00:00:00+02:00", "+10000-01-01T00:00:00Z", "-0001-01-01T00:00:00Z", "0000-01-01T00:00:00Z", "9999-12-31T23:59:59Z",
    "+262142-12-31T23:59:59Z", "garbage", "", "2000-13-01T00:00:00Z", "2000-01-01", "2000-01-01T00:00:60Z",
];
const TIMES: &[&str] = &["00:00:00", "23:59:59", "24:00:00", "12:00", "garbage", "", "23:59:60"];
const WEEKDAYS: &[&str] = &["monday", "Mon", "sunday", "funday", "", "é"];
const METHODS: &[&str] = &["GET", "POST", "get", "", "G ET", "é", "PURGE"];
const SELECTORS: &[&str] = &["", "p", "div > p", "[[[", "a:not(", "*", "#é", ":nth-child(99999999999)", "meta[name=\"description\"]"];
const ELEMENTS: &[&str] = &["html", "body", "head", "title", "p", "div", "script", "meta", "é", "", "BODY"];
const HTML_ACTIONS: &[&str] = &["append_child", "prepend_child", "replace", "nope", ""];
const HEADER_ACTIONS: &[&str] = &["add", "remove", "replace", "override", "default", "nope", ""];
const HTML_BITS: &[&str] = &[
    "<html>", "</html>", "<head>", "</head>", "<body>", "</body>", "<p>", "</p>", "<div class=\"a\">", "</div>", "<script>", "</script>", "<!--", "-->", "<!DOCTYPE html>",
    "<![CDATA[", "]]>", "<title>", "</title>", "<textarea>", "</textarea>", "<meta name=\"description\" content=\"x\"/>", "<br/>", "<", ">", "</", "<!", "<?", "é", "\u{0}", "text",
    " ", "=", "\"", "'", "<a href='x' b=c d>", "<plaintext>", "<style>", "</style>", "<!-->", "<!--->", "--!>", "<script><!--<script></script>--></script>", "<P", "</p",
];

fn pick_str(rng: &mut Prng) -> String {
    match rng.below(12) {
        0 => "x".repeat(rng.below(3000)),
        1 => {
            let k = rng.below(4) + 1;
            (0..k).map(|_| *rng.pick(STRS)).collect::<Vec<_>>().join("")
        }
        _ => rng.pick(STRS).to_string(),
    }
}

fn pick_bytes(rng: &mut Prng, max: usize) -> Vec<u8> {
    let n = rng.below(max + 1);
    let mut out = Vec::new();
    while out.len() < n {
        match rng.below(6) {
            0 => out.push(rng.below(256) as u8),
            1 => out.extend_from_slice(&[0xC3, 0xA9]),
            2 => out.push(*rng.pick(&[0x80u8, 0xC3, 0xFF, 0xE2, 0xF0, 0x00])),
            _ => out.extend_from_slice(rng.pick(HTML_BITS).as_bytes()),
        }
    }
    out
}

fn opt_val(rng: &mut Prng, num: usize, den: usize, f: impl FnOnce(&mut Prng) -> Value) -> Value {
    if rng.chance(num, den) {
        f(rng)
    } else {
        Value::Null
    }
}

fn gen_transformer(rng: &mut Prng) -> Value {
    let kind = *rng.pick(TRANSFORMERS);
    let options: Value = match rng.below(5) {
        0 => Value::Null,
        1 => json!({}),
        2 => json!({"from": *rng.pick(NUMS), "to": *rng.pick(NUMS)}),
        3 => json!({"something": pick_str(rng), "with": pick_str(rng)}),
        _ => json!({"from": *rng.pick(NUMS), "something": pick_str(rng)}),
    };
    json!({"type": if rng.chance(1, 12) { Value::Null } else { json!(kind) }, "options": options})
}

fn gen_transformers(rng: &mut Prng) -> Value {
    Value::Array((0..rng.below(3)).map(|_| gen_transformer(rng)).collect())
}

fn gen_example(rng: &mut Prng) -> Value {
    let mut ex = json!({
        "url": pick_str(rng),
        "method": opt_val(rng, 1, 2, |r| json!(*r.pick(METHODS))),
        "headers": opt_val(rng, 1, 2, |r| Value::Array((0..r.below(3)).map(|_| json!({"name": pick_str(r), "value": pick_str(r)})).collect())),
        "ip_address": opt_val(rng, 1, 2, |r| json!(*r.pick(IPS))),
        "response_status_code": opt_val(rng, 1, 2, |r| json!(*r.pick(&[0u32, 200, 301, 404, 65535]))),
        "must_match": rng.chance(1, 2),
        "unit_ids_applied": opt_val(rng, 2, 3, |r| Value::Array((0..r.below(3)).map(|_| json!(pick_str(r))).collect())),
    });
    if rng.chance(1, 2) {
        ex["datetime"] = json!(*rng.pick(DATES));
    }
    ex
}

fn gen_rule(rng: &mut Prng, id: &str) -> Value {
    let marker_names = ["m", "mm", "n", "é", ""];
    let markers: Vec<Value> = (0..rng.below(3))
        .map(|_| json!({"name": *rng.pick(&marker_names), "regex": pick_str(rng), "transformers": gen_transformers(rng)}))
        .collect();
    let variables: Vec<Value> = (0..rng.below(3))
        .map(|_| {
            let kinds = if rng.chance(1, 8) { 9 } else { 8 };
            let kind: Value = match rng.below(kinds) {
                0 => json!({"marker": *rng.pick(&marker_names)}),
                1 => json!({"request_header": {"name": pick_str(rng), "default": opt_val(rng, 1, 2, |r| json!(pick_str(r)))}}),
                2 => json!("request_host"),
                3 => json!("request_method"),
                4 => json!("request_path"),
                5 => json!("request_remote_address"),
                6 => json!("request_scheme"),
                7 => json!("request_time"),
                _ => json!("nope"),
            };
            json!({"name": *rng.pick(&marker_names), "type": kind, "transformers": gen_transformers(rng)})
        })
        .collect();
    let path = match rng.below(4) {
        0 => format!("/x/@{}", rng.pick(&marker_names)),
        1 => format!("@{}@{}", rng.pick(&marker_names), rng.pick(&marker_names)),
        _ => pick_str(rng),
    };
    let range = |r: &mut Prng, pool: &[&str]| json!([opt_val(r, 2, 3, |r| json!(*r.pick(pool))), opt_val(r, 2, 3, |r| json!(*r.pick(pool)))]);
    let mut source = json!({
        "scheme": opt_val(rng, 1, 4, |r| json!(*r.pick(&["http", "https", "", "é"]))),
        "host": opt_val(rng, 1, 3, |r| if r.chance(1, 2) { json!(format!("@{}.example.org", r.pick(&["m", "n", ""]))) } else { json!(pick_str(r)) }),
        "path": path,
        "query": opt_val(rng, 1, 3, |r| json!(pick_str(r))),
        "ips": opt_val(rng, 1, 3, |r| Value::Array((0..r.below(3)).map(|_| if r.chance(1, 2) { json!({"in_range": *r.pick(IPS)}) } else { json!({"not_in_range": *r.pick(IPS)}) }).collect())),
        "headers": opt_val(rng, 1, 3, |r| Value::Array((0..r.below(3)).map(|_| json!({"type": *r.pick(HEADER_KINDS), "name": pick_str(r), "value": opt_val(r, 3, 4, |r| json!(pick_str(r)))})).collect())),
        "methods": opt_val(rng, 1, 3, |r| Value::Array((0..r.below(3)).map(|_| json!(*r.pick(METHODS))).collect())),
        "exclude_methods": opt_val(rng, 1, 4, |r| json!(r.chance(1, 2))),
        "response_status_codes": opt_val(rng, 1, 3, |r| Value::Array((0..r.below(3)).map(|_| json!(*r.pick(&[0u32, 200, 301, 404, 65535]))).collect())),
        "exclude_response_status_codes": opt_val(rng, 1, 4, |r| json!(r.chance(1, 2))),
        "sampling": opt_val(rng, 1, 4, |r| json!(*r.pick(&[0u64, 1, 50, 100, 101, 4294967295]))),
    });
    if rng.chance(1, 2) {
        // a rule that is easy to match: path (+ markers) only
        for k in ["scheme", "host", "query", "ips", "headers", "methods", "exclude_methods", "sampling"] {
            source[k] = Value::Null;
        }
        if rng.chance(2, 3) {
            source["path"] = json!(*rng.pick(&["/a", "/b", "/x/@m", "/é", "/a b", "/@m/@n"]));
        }
    }
    if rng.chance(1, 4) {
        source["datetime"] = Value::Array((0..rng.below(3)).map(|_| range(rng, DATES)).collect());
    }
    if rng.chance(1, 4) {
        source["time"] = Value::Array((0..rng.below(3)).map(|_| range(rng, TIMES)).collect());
    }
    if rng.chance(1, 4) {
        source["weekdays"] = Value::Array((0..rng.below(3)).map(|_| json!(*rng.pick(WEEKDAYS))).collect());
    }
    let body_filters = opt_val(rng, 1, 2, |r| Value::Array((0..r.below(3)).map(|_| gen_body_filter(r)).collect()));
    let header_filters = opt_val(rng, 1, 2, |r| {
        Value::Array((0..r.below(3)).map(|_| json!({"action": *r.pick(HEADER_ACTIONS), "header": pick_str(r), "value": pick_str(r), "id": opt_val(r, 1, 2, |r| json!(pick_str(r))), "target_hash": opt_val(r, 1, 2, |r| json!(pick_str(r)))})).collect())
    });
    let mut rule = json!({
        "id": id,
        "source": source,
        "target": opt_val(rng, 3, 4, |r| json!(pick_str(r))),
        "status_code": opt_val(rng, 3, 4, |r| json!(*r.pick(&[0u32, 200, 301, 302, 307, 308, 404, 410, 65535]))),
        "rank": *rng.pick(&[0u32, 1, 2, 65535]),
        "markers": markers,
        "variables": variables,
        "body_filters": body_filters,
        "header_filters": header_filters,
        "log_override": opt_val(rng, 1, 4, |r| json!(r.chance(1, 2))),
        "reset": opt_val(rng, 1, 6, |r| json!(r.chance(1, 2))),
        "stop": opt_val(rng, 1, 6, |r| json!(r.chance(1, 2))),
        "examples": Value::Null,
        "redirect_unit_id": opt_val(rng, 1, 2, |r| json!(pick_str(r))),
        "configuration_log_unit_id": opt_val(rng, 1, 3, |r| json!(pick_str(r))),
        "configuration_reset_unit_id": opt_val(rng, 1, 3, |r| json!(pick_str(r))),
        "target_hash": opt_val(rng, 1, 2, |r| json!(pick_str(r))),
    });
    // examples: mostly requests this very rule should match
    if rng.chance(2, 3) {
        let n = rng.below(3);
        let exs: Vec<Value> = (0..n)
            .map(|_| {
                let mut ex = gen_example(rng);
                if rng.chance(3, 4) {
                    let rq = gen_request_for(rng, &rule);
                    ex["url"] = rq["url"].clone();
                    ex["method"] = rq["method"].clone();
                }
                ex
            })
            .collect();
        rule["examples"] = Value::Array(exs);
    }
    rule
}

fn gen_body_filter(rng: &mut Prng) -> Value {
    if rng.chance(1, 3) {
        json!({"action": *rng.pick(&["append_text", "prepend_text", "replace_text"]), "content": pick_str(rng), "id": opt_val(rng, 1, 2, |r| json!(pick_str(r))), "target_hash": opt_val(rng, 1, 2, |r| json!(pick_str(r)))})
    } else {
        let value = match rng.below(3) {
            0 => pick_str(rng),
            _ => String::from_utf8_lossy(&pick_bytes(rng, 60)).to_string(),
        };
        json!({
            "action": *rng.pick(HTML_ACTIONS),
            "value": value,
            "inner_value": opt_val(rng, 1, 2, |r| json!(String::from_utf8_lossy(&pick_bytes(r, 40)).to_string())),
            "element_tree": Value::Array((0..rng.below(4)).map(|_| json!(*rng.pick(ELEMENTS))).collect()),
            "css_selector": opt_val(rng, 1, 2, |r| json!(*r.pick(SELECTORS))),
            "id": opt_val(rng, 1, 2, |r| json!(pick_str(r))),
            "target_hash": opt_val(rng, 1, 2, |r| json!(pick_str(r))),
        })
    }
}

fn gen_config(rng: &mut Prng) -> Value {
    json!({
        "ignore_host_case": rng.chance(1, 2),
        "ignore_header_case": rng.chance(1, 2),
        "ignore_path_and_query_case": rng.chance(1, 2),
        "ignore_marketing_query_params": rng.chance(1, 2),
        "marketing_query_params": Value::Array((0..rng.below(3)).map(|_| json!(*rng.pick(&["utm_source", "c", "", "é"]))).collect()),
        "pass_marketing_query_params_to_target": rng.chance(1, 2),
        "always_match_any_host": rng.chance(1, 2),
    })
}

/// a request aimed at a rule: its path with the markers instantiated, its host / scheme / method when it has any
fn gen_request_for(rng: &mut Prng, rule: &Value) -> Value {
    let mut r = gen_request(rng);
    let src = &rule["source"];
    if let Some(p) = src["path"].as_str() {
        let mut url = p.replace("@mm", "abc").replace("@m", *rng.pick(&["abc", "a", "é", "ABC"])).replace("@n", "b").replace("@é", "c");
        if let Some(q) = src["query"].as_str() {
            if !q.is_empty() {
                url = format!("{url}?{q}");
            }
        }
        if rng.chance(1, 4) {
            url.push_str("?utm_source=x&c=1");
        }
        r["url"] = json!(url);
    }
    r["host"] = match src["host"].as_str() {
        Some(h) => json!(h.replace("@m", "abc").replace("@n", "b")),
        None => r["host"].clone(),
    };
    if let Some(sc) = src["scheme"].as_str() {
        r["scheme"] = json!(sc);
    }
    if let Some(m) = src["methods"].as_array().and_then(|a| a.first()).and_then(|m| m.as_str()) {
        r["method"] = json!(m);
    }
    r
}

fn gen_request(rng: &mut Prng) -> Value {
    json!({
        "url": pick_str(rng),
        "host": opt_val(rng, 1, 2, |r| json!(*r.pick(&["example.org", "abc.example.org", "", "é", "EXAMPLE.org"]))),
        "scheme": opt_val(rng, 1, 2, |r| json!(*r.pick(&["http", "https", ""]))),
        "method": opt_val(rng, 1, 2, |r| json!(*r.pick(METHODS))),
        "headers": Value::Array((0..rng.below(3)).map(|_| json!([pick_str(rng), pick_str(rng)])).collect()),
        "ip": opt_val(rng, 1, 2, |r| json!(*r.pick(&["10.1.2.3", "::1", "bad"]))),
        "created_at": opt_val(rng, 1, 2, |r| json!(*r.pick(DATES))),
        "sampling_override": opt_val(rng, 1, 4, |r| json!(r.chance(1, 2))),
    })
}

/// one random structural / scalar mutation of a JSON value
fn mutate(rng: &mut Prng, v: &mut Value, depth: usize) {
    let adversarial = |rng: &mut Prng| -> Value {
        match rng.below(12) {
            0 => Value::Null,
            1 => json!(-1),
            2 => json!(18446744073709551615u64),
            3 => json!(1e308),
            4 => json!(""),
            5 => json!(pick_str(rng)),
            6 => json!([]),
            7 => json!({}),
            8 => json!(true),
            9 => json!(65536),
            10 => json!(4294967296u64),
            _ => json!("\u{fffd}\u{0}é"),
        }
    };
    match v {
        Value::Object(m) if !m.is_empty() && depth < 6 => {
            let keys: Vec<String> = m.keys().cloned().collect();
            let k = rng.pick(&keys).clone();
            match rng.below(5) {
                0 => {
                    m.remove(&k);
                }
                1 => {
                    m.insert(k, adversarial(rng));
                }
                _ => mutate(rng, m.get_mut(&k).unwrap(), depth + 1),
            }
        }
        Value::Array(a) if !a.is_empty() && depth < 6 => {
            let i = rng.below(a.len());
            match rng.below(5) {
                0 => {
                    a.remove(i);
                }
                1 => {
                    let x = a[i].clone();
                    a.push(x);
                }
                2 => a[i] = adversarial(rng),
                _ => mutate(rng, &mut a[i], depth + 1),
            }
        }
        other => *other = adversarial(rng),
    }
}

fn mutated(rng: &mut Prng, mut v: Value) -> Value {
    let k = match rng.below(4) {
        0 => 0,
        1 | 2 => 1,
        _ => 3,
    };
    for _ in 0..k {
        mutate(rng, &mut v, 0);
    }
    v
}

const FORWARDED_FIXED: &[&str] = &[
    "[", "\"[\"", "[é", "[日", "é[", "[]", "[]:", "[:", "[::1", "::1]", "[::1]", "[::1]:", "[::1]:80", "[::1]:99999", "::1", "::1:80", "]", "\"", "\"\"", "[\"", "\"]", "1.2.3.4",
    "1.2.3.4:", "1.2.3.4:80", "1.2.3.4:é", ":80", ":", "", " ", ",", ";", "=", "==", "=\"", "for", "for=", "FOR=[", "_obf", "unknown", "[::ffff:1.2.3.4]:65536", "１.２.３.４", "1.2.3.4é",
];

/// a rule carrying one suspicious string in the trigger of the given kind (and in the matching Example fields)
fn rule_with_string(kind: &str, v: &str) -> Value {
    let mut source = json!({"path": "/rs", "host": null, "scheme": null, "query": null, "ips": null, "headers": null, "methods": null, "exclude_methods": null,
        "response_status_codes": null, "exclude_response_status_codes": null, "sampling": null});
    match kind {
        "time" => source["time"] = json!([[v, null], [null, v], [v, v], ["00:00:00", v]]),
        "datetime" => source["datetime"] = json!([[v, null], [null, v], [v, v]]),
        "weekday" => source["weekdays"] = json!([v, "monday", v]),
        _ => source["ips"] = json!([{"in_range": v}, {"not_in_range": v}]),
    }
    json!({"id": "rs", "source": source, "target": "/t", "status_code": 302, "rank": 0, "body_filters": null, "header_filters": null, "log_override": null, "reset": null, "stop": null,
        "examples": [{"url": "/rs", "method": null, "headers": null, "datetime": v, "ip_address": v, "response_status_code": null, "must_match": true, "unit_ids_applied": []}],
        "redirect_unit_id": null, "configuration_log_unit_id": null, "configuration_reset_unit_id": null, "target_hash": null})
}

const NON_ASCII: &[&str] = &["é", "日本語", "aé", "éa", "İ", "ß", "\u{1F600}x", "a\u{301}", "ǆ", "éééééééé", "ÀÉ"];

/// transformer chains with degenerate options
fn gen_degenerate_transformers(rng: &mut Prng) -> Value {
    let one = |rng: &mut Prng| -> Value {
        match rng.below(12) {
            0 => json!({"type": "replace", "options": {"something": "", "with": ""}}),
            1 => json!({"type": "replace", "options": {"something": "", "with": *rng.pick(NON_ASCII)}}),
            2 => json!({"type": "replace", "options": {"something": *rng.pick(NON_ASCII), "with": ""}}),
            3 => json!({"type": "replace", "options": {"something": *rng.pick(NON_ASCII), "with": *rng.pick(NON_ASCII)}}),
            4 => json!({"type": "slice", "options": {"from": "0", "to": "0"}}),
            5 => json!({"type": "slice", "options": {"from": rng.below(9).to_string(), "to": rng.below(9).to_string()}}),
            6 => json!({"type": "slice", "options": {"from": *rng.pick(&["18446744073709551615", "9223372036854775808", "4294967296"]), "to": *rng.pick(&["18446744073709551615", "0", "1"])}}),
            7 => json!({"type": "slice", "options": {"from": *rng.pick(NUMS), "to": *rng.pick(NUMS)}}),
            8 => json!({"type": *rng.pick(&["camelize", "dasherize", "underscorize"]), "options": null}),
            9 => json!({"type": *rng.pick(&["uppercase", "lowercase"]), "options": {}}),
            10 => json!({"type": "replace", "options": {"something": "", "with": "x".repeat(rng.below(50))}}),
            _ => gen_transformer(rng),
        }
    };
    Value::Array((0..rng.below(4) + 1).map(|_| one(rng)).collect())
}

fn gen_marker_transform(rng: &mut Prng) -> Value {
    let with_variables = rng.chance(2, 3);
    let variables: Value = if with_variables {
        json!([
            {"name": "vm", "type": {"marker": "m"}, "transformers": gen_degenerate_transformers(rng)},
            {"name": "vh", "type": {"request_header": {"name": "X-V", "default": *rng.pick(NON_ASCII)}}, "transformers": gen_degenerate_transformers(rng)},
            {"name": "vn", "type": {"marker": "n"}, "transformers": gen_degenerate_transformers(rng)},
            {"name": "vd", "type": {"request_header": {"name": "X-Absent", "default": *rng.pick(NON_ASCII)}}, "transformers": gen_degenerate_transformers(rng)},
            {"name": "vp", "type": "request_path", "transformers": gen_degenerate_transformers(rng)},
            {"name": "vo", "type": "request_host", "transformers": gen_degenerate_transformers(rng)},
        ])
    } else {
        json!([])
    };
    let names = if with_variables { "@vm|@vh|@vn|@vd|@vp|@vo" } else { "@m|@n" };
    let rule = json!({
        "id": "mt",
        "source": {"scheme": null, "host": "@m.example.org", "path": "/x", "query": null, "ips": null,
            "headers": [{"type": "match_regex", "name": "X-H", "value": "v-@n"}],
            "methods": null, "exclude_methods": null, "response_status_codes": null, "exclude_response_status_codes": null, "sampling": null},
        "markers": [{"name": "m", "regex": "[^.]+", "transformers": gen_degenerate_transformers(rng)}, {"name": "n", "regex": ".+", "transformers": gen_degenerate_transformers(rng)}],
        "variables": variables,
        "target": format!("/t/{names}"), "status_code": 302, "rank": 0,
        "header_filters": [{"action": "add", "header": "X-O", "value": names, "id": null, "target_hash": null}],
        "body_filters": [{"action": "append_text", "content": names, "id": null, "target_hash": null}],
        "log_override": null, "reset": null, "stop": null, "examples": null,
        "redirect_unit_id": null, "configuration_log_unit_id": null, "configuration_reset_unit_id": null, "target_hash": null,
    });
    json!({"family": "marker_transform", "rule": rule, "host": format!("{}.example.org", rng.pick(NON_ASCII)), "xh": format!("v-{}", rng.pick(NON_ASCII)), "xv": *rng.pick(NON_ASCII),
        "config": {"ignore_host_case": rng.chance(1, 2), "ignore_header_case": rng.chance(1, 2), "always_match_any_host": rng.chance(1, 2)}})
}

/// what the real std parsers answer for one text (the `Std` parameter of the Lean models)
fn std_entry(t: &str) -> Value {
    let ip = t.parse::<std::net::IpAddr>().ok().map(|a| a.to_string());
    let sock = t.parse::<std::net::SocketAddr>().ok().map(|a| json!([a.ip().to_string(), a.port()]));
    json!({"ip": ip, "sock": sock})
}

fn addr_trim(t: &str) -> &str {
    t.trim_matches(|c| c == '\0' || c == '\n' || c == '\r' || c == '\t' || c == ' ')
}

/// every text the library can hand to the std parsers for these inputs (an over-approximation is harmless)
fn std_table(client_ip: &str, headers: &[(String, String)]) -> Value {
    let mut m = serde_json::Map::new();
    let mut add = |t: &str| {
        m.insert(addr_trim(t).to_string(), std_entry(addr_trim(t)));
    };
    add(client_ip);
    for (_, v) in headers {
        for piece in v.split(',') {
            add(piece);
        }
        for pair in v.split(';').flat_map(|x| x.split(',')) {
            let mut it = pair.trim().splitn(2, '=');
            if let (Some(_), Some(val)) = (it.next(), it.next()) {
                add(val.trim().trim_start_matches('"').trim_end_matches('"'));
            }
        }
    }
    Value::Object(m)
}

/// executable specification of `Addr::from_str` (what DESIGN / the Lean closed forms say): trim, IpAddr, else SocketAddr
fn spec_addr(t: &str) -> Option<(String, Option<u16>)> {
    let t = addr_trim(t);
    if let Ok(ip) = t.parse::<std::net::IpAddr>() {
        return Some((ip.to_string(), None));
    }
    t.parse::<std::net::SocketAddr>().ok().map(|a| (a.ip().to_string(), Some(a.port())))
}

/// executable specification of the `ips` of `Log::from_proxy`
fn spec_ips(client_ip: &str, headers: &[(String, String)]) -> Vec<String> {
    let mut out: Vec<String> = spec_addr(client_ip).map(|a| a.0).into_iter().collect();
    for (n, v) in headers {
        if n.to_lowercase() == "x-forwarded-for" {
            out.extend(v.split(',').filter_map(|p| spec_addr(p).map(|a| a.0)));
        }
        if n.to_lowercase() == "forwarded" {
            for pair in v.split(';').flat_map(|x| x.split(',')) {
                let mut it = pair.trim().splitn(2, '=');
                if let (Some(name), Some(val)) = (it.next(), it.next()) {
                    if name.trim().to_lowercase() == "for" {
                        out.extend(spec_addr(val.trim().trim_start_matches('"').trim_end_matches('"')).map(|a| a.0));
                    }
                }
            }
        }
    }
    out
}

fn addr_case(s: &str) -> Value {
    json!({"family": "addr_parse", "s": s, "std": std_table(s, &[])})
}

fn log_ips_case(client_ip: &str, headers: Vec<(String, String)>) -> Value {
    json!({"family": "log_ips", "client_ip": client_ip, "headers": headers.iter().map(|(n, v)| json!([n, v])).collect::<Vec<_>>(), "std": std_table(client_ip, &headers)})
}

const ADDR_TEXTS: &[&str] = &["127.0.0.1", "127.0.0.1:8080", "::1", "[::1]:8080", "[::1]", "[::1]:", "[::1%1]:80", "1.2.3.4:65535", "1.2.3.4:65536", "1.2.3.4:080", "01.2.3.4", "1.2.3", "1.2.3.4.5",
    "::ffff:1.2.3.4", "[::ffff:1.2.3.4]:1", "2001:db8::1", "2001:DB8::1", "fe80::1%eth0", "invalid", "", ":", "[", "]", "[]:1", "1.2.3.4 :80", "1.2.3.4: 80", "１.２.３.４", "1.2.3.4\u{a0}", "0x7f.0.0.1", "255.255.255.255:0"];
const FWD_NAMES: &[&str] = &["X-Forwarded-For", "x-forwarded-for", "X-FORWARDED-FOR", "Forwarded", "forwarded", "FORWARDED", "Forwarded ", "X-Forwarded-Host", "User-Agent", "for"];

/// hand-parsed header values (api/log.rs: `Forwarded`, `X-Forwarded-For`): grammar pieces glued at random, with brackets,
/// quotes, ports, obfuscated identifiers, empty items, stray separators and multi-byte characters
fn forwarded_value(rng: &mut Prng) -> String {
    const ADDR: &[&str] = &["[", "\"[\"", "[é", "[日", "[]:", "[::1]:", "[::1]:80", "[::1", "::1]", "]", "\"", "\"\"", "[\"", "1.2.3.4:", ":80", "[::ffff:1.2.3.4]:65536", "10.0.0.1", "192.168.0.1:8080", "[::1]", "[::1]:443", "::1", "[2001:db8::1", "2001:db8::1]", "_hidden", "unknown", "é", "10.0.0.256", "1.2.3.4:99999", "[]", "", " ", "\u{0}", "1.2.3.4\t", "٣.٣.٣.٣", "0x7f.1", "127.1"];
    const KEYS: &[&str] = &["for", "For", "FOR", "by", "host", "proto", "fo", "for ", " for", "", "é", "for=for"];
    const SEPS: &[&str] = &[", ", ",", ";", "; ", " ", ",,", ";;", ";,", ""];
    let n = rng.below(5);
    let mut out = String::new();
    for i in 0..n {
        if i > 0 {
            out.push_str(*rng.pick(SEPS));
        }
        let a = *rng.pick(ADDR);
        match rng.below(7) {
            0 => out.push_str(a),
            1 => out.push_str(&format!("{}={}", rng.pick(KEYS), a)),
            2 => out.push_str(&format!("{}=\"{}\"", rng.pick(KEYS), a)),
            3 => out.push_str(&format!("{}=\"{}", rng.pick(KEYS), a)),
            4 => out.push_str(&format!("{}={}\"", rng.pick(KEYS), a)),
            5 => out.push_str(&format!("{}=\"\"{}\"\"=x", rng.pick(KEYS), a)),
            _ => out.push_str(&format!("{} = {} ", rng.pick(KEYS), a)),
        }
    }
    if rng.chance(1, 10) {
        out.push_str(&"x,;=\"".repeat(rng.below(200)));
    }
    out
}

fn chunks(rng: &mut Prng, max: usize) -> Value {
    Value::Array((0..rng.below(4) + 1).map(|_| json!(hex(&pick_bytes(rng, max)))).collect())
}

// ---- the nullable parameters of every extern "C" function, as tools/consts.d/w8_ffi.py counts them
const FFI_FUNCS: &[(&str, usize)] = &[
    ("redirectionio_action_json_deserialize", 1),
    ("redirectionio_action_json_serialize", 1),
    ("redirectionio_action_drop", 1),
    ("redirectionio_action_get_status_code", 1),
    ("redirectionio_action_header_filter_filter", 2),
    ("redirectionio_action_body_filter_create", 2),
    ("redirectionio_action_body_filter_filter", 2),
    ("redirectionio_action_body_filter_close", 1),
    ("redirectionio_action_body_filter_drop", 1),
    ("redirectionio_action_should_log_request", 1),
    ("redirectionio_request_json_deserialize", 1),
    ("redirectionio_request_json_serialize", 1),
    ("redirectionio_request_create", 5),
    ("redirectionio_trusted_proxies_create", 1),
    ("redirectionio_trusted_proxies_add_proxy", 2),
    ("redirectionio_request_set_remote_addr", 3),
    ("redirectionio_request_from_str", 1),
    ("redirectionio_request_drop", 1),
    ("redirectionio_api_get_rule_api_version", 0),
    ("redirectionio_api_create_log_in_json", 5),
    ("redirectionio_api_buffer_drop", 1),
];
const FFI_STR_FUNCS: &[&str] = &[
    "redirectionio_action_json_deserialize", "redirectionio_request_json_deserialize", "redirectionio_request_create", "redirectionio_trusted_proxies_create",
    "redirectionio_trusted_proxies_add_proxy", "redirectionio_request_set_remote_addr", "redirectionio_request_from_str", "redirectionio_api_create_log_in_json",
    "header_map",
];

/// Diff-directed block (VERIF_HINTS, BUILDER_GUIDE last section): every hinted string (also upper / lower-cased) at every place
/// the grammar has free text, every hinted size (n-1, n, n+1) at every place it has a length or a count.
fn gen_hinted(h: &Hints, rng: &mut Prng, emit: &mut dyn FnMut(Value)) {
    for t in w8_hint_strs(h) {
        let t = t.as_str();
        for kind in TRANSFORMERS {
            emit(json!({"family": "transform", "kind": kind, "options": {"from": t, "to": t, "something": t, "with": t}, "s": format!("{t}é{t}")}));
            emit(json!({"family": "transform", "kind": kind, "options": {"from": "1", "to": "3", "something": "é", "with": t}, "s": t}));
        }
        emit(json!({"family": "slice", "s": hex(format!("{t}é{t}").as_bytes()), "from": t.len(), "to": t.len() + 1}));
        let mut rule = gen_rule(rng, "h0");
        rule["source"] = json!({"scheme": null, "host": null, "path": format!("/{t}"), "query": t, "ips": [{"in_range": t}], "headers": [{"type": "match_regex", "name": t, "value": t}, {"type": "contains", "name": "X", "value": t}],
            "methods": [t], "exclude_methods": null, "response_status_codes": null, "exclude_response_status_codes": null, "sampling": null, "time": [[t, t]], "datetime": [[t, null]], "weekdays": [t]});
        rule["target"] = json!(t);
        rule["markers"] = json!([{"name": "m", "regex": t, "transformers": [{"type": t, "options": {"from": t, "to": t}}, {"type": "replace", "options": {"something": t, "with": t}}]}]);
        rule["header_filters"] = json!([{"action": "add", "header": t, "value": t, "id": t, "target_hash": t}, {"action": t, "header": "X", "value": "v", "id": null, "target_hash": null}]);
        rule["body_filters"] = json!([{"action": "append_text", "content": t, "id": null, "target_hash": null}, {"action": "append_child", "value": t, "inner_value": t, "element_tree": ["html", t], "css_selector": t, "id": null, "target_hash": null}]);
        let mut rule2 = gen_rule(rng, "h1");
        rule2["source"]["path"] = json!(format!("/x/@m{t}"));
        rule2["source"]["host"] = json!(t);
        let req = json!({"url": format!("/{t}?{t}"), "host": t, "scheme": t, "method": t, "headers": [[t, t], ["X", t]], "ip": null, "created_at": t, "sampling_override": null});
        emit(json!({"family": "rule", "config": {"marketing_query_params": [t]}, "rules": [rule.clone(), rule2], "requests": [req.clone(), {"url": "/x/abc", "host": t, "headers": []}], "cache": true,
            "response": {"status": 200, "headers": [["Content-Type", t], ["Content-Encoding", t], [t, t]], "chunks": [hex(t.as_bytes()), hex(format!("<html><{t}>{t}</{t}></html>").as_bytes())]}}));
        emit(json!({"family": "analysis", "kind": "explain", "project": false, "base": [], "base_config": {}, "input": {"router_config": {}, "rules": [rule], "max_hops": 3, "project_domains": [t],
            "example": {"url": format!("/{t}"), "method": t, "headers": [{"name": t, "value": t}], "datetime": t, "ip_address": t, "response_status_code": null, "must_match": true, "unit_ids_applied": [t]}}}));
        for ctx in ["", "script", "title", t] {
            for body in [t.to_string(), format!("<{t}>"), format!("<p {t}={t} {t}>"), format!("<script>{t}</script>"), format!("<!--{t}-->"), format!("<![CDATA[{t}]]>"), format!("a{t}<p>{t}</p>{t}")] {
                emit(json!({"family": "html", "bytes": hex(body.as_bytes()), "context": ctx}));
            }
        }
        for enc in ["gzip", "deflate", "br", t] {
            emit(json!({"family": "body", "filters": [{"action": "append_text", "content": t, "id": null, "target_hash": null}, {"action": "replace", "value": t, "inner_value": null, "element_tree": ["html", "body"], "css_selector": t, "id": null, "target_hash": null}],
                "headers": [["Content-Encoding", enc], ["Content-Type", "text/html"]], "chunks": [hex(t.as_bytes()), hex(format!("<html><body>{t}").as_bytes()), hex(format!("{t}</body></html>").as_bytes())]}));
        }
        emit(json!({"family": "request", "str": t, "json": {"path_and_query": {"path_and_query": t, "path_and_query_matching": t, "skipped_query_params": t, "original": t}, "path_and_query_v2": t, "host": t, "scheme": t, "method": t,
            "headers": [{"name": t, "value": t}], "remote_addr": null, "created_at": null, "sampling_override": null}, "config": {"marketing_query_params": [t]}}));
        for name in ["Forwarded", "X-Forwarded-For", "User-Agent", t] {
            emit(json!({"family": "log", "request": req, "headers": [[name, t], [name, format!("for={t}, for=\"{t}\";by={t}")]], "client_ip": t, "proxy": t, "time": 1, "legacy": {"status_code": 200, "host": t, "method": t, "request_uri": t, "user_agent": t, "referer": t, "scheme": t, "use_json": true, "target": t, "rule_id": t}}));
        }
        for f in FFI_STR_FUNCS {
            emit(json!({"family": "ffi_str", "fn": f, "payload": hex(t.as_bytes())}));
        }
        for a in ["1.2.3.4", "[::1]:80", ""] {
            for v in [format!("{t}{a}"), format!("{a}{t}"), format!("{t}{a}{t}"), format!("[{t}]:80")] {
                emit(addr_case(&v));
                emit(log_ips_case(&v, vec![("Forwarded".to_string(), format!("for={v};{t}=x,for=\"{v}\"")), ("X-Forwarded-For".to_string(), format!("{v},{t},{v}")), (t.to_string(), v.clone())]));
            }
        }
        emit(json!({"family": "api_misc", "uri": t, "host": t, "scheme": t, "method": t, "headers": [[t, t], ["Host", t], ["Forwarded", t]], "ip": t, "action_json": t, "dates": [t, t], "times": [t, t], "weekdays": [t], "cidrs": [t, t], "strs": [t, t, t, t], "code": 200}));
        let mut mt = gen_marker_transform(rng);
        mt["host"] = json!(format!("{t}.example.org"));
        mt["xh"] = json!(format!("v-{t}"));
        mt["xv"] = json!(t);
        emit(mt);
        for kind in ["time", "datetime", "weekday", "ip"] {
            emit(json!({"family": "rule_strings", "rule": rule_with_string(kind, t)}));
        }
    }
    for n in h.sizes(70_000) {
        for body in ["a".repeat(n), "<".repeat(n), format!("<p{}>", " a=b".repeat(n.min(5000))), format!("<!--{}", "-".repeat(n)), format!("<script>{}", "x".repeat(n)), format!("{}<p>", "é".repeat(n / 2)), "<p>".repeat(n.min(8000))] {
            emit(json!({"family": "html", "bytes": hex(body.as_bytes()), "context": ""}));
            emit(json!({"family": "body", "filters": [{"action": "append_child", "value": "<i>x</i>", "inner_value": null, "element_tree": ["html", "body"], "css_selector": null, "id": null, "target_hash": null}],
                "headers": [], "chunks": [hex(b"<html><body>"), hex(body.as_bytes()), hex(b"</body></html>")]}));
        }
        let one = "<html><body><p>é</p></body></html>".as_bytes();
        emit(json!({"family": "body", "filters": [{"action": "replace_text", "content": "x".repeat(n), "id": null, "target_hash": null}], "headers": [], "chunks": (0..n.min(3000)).map(|i| hex(&one[i % one.len()..i % one.len() + 1])).collect::<Vec<_>>()}));
        let sn = "é".repeat(n / 2 + 1);
        for (f, t) in [(n, n + 1), (n - 1, n), (0, n), (n, 0), (n + 1, n + 2)] {
            emit(json!({"family": "slice", "s": hex(sn.as_bytes()), "from": f, "to": t}));
        }
        for kind in TRANSFORMERS {
            emit(json!({"family": "transform", "kind": kind, "options": {"from": n.to_string(), "to": (n + 1).to_string(), "something": "a", "with": "x".repeat(n.min(5000))}, "s": "aé".repeat(n.min(20000) / 3 + 1)}));
        }
        emit(json!({"family": "request", "str": format!("/{}?{}", "a".repeat(n), "b=c&".repeat(n.min(3000))), "json": null, "config": {}}));
        let many = n.min(64);
        emit(json!({"family": "rule", "config": {}, "rules": (0..many).map(|k| { let mut r = gen_rule(rng, &format!("s{k}")); r["source"]["path"] = json!(format!("/s/{}", k % 3)); r["markers"] = json!([{"name": "m", "regex": format!("a{{{}}}", n.min(900)), "transformers": []}]); r }).collect::<Vec<_>>(),
            "requests": [{"url": "/s/1", "headers": (0..n.min(400)).map(|k| json!([format!("H{k}"), "v"])).collect::<Vec<_>>()}], "cache": true, "response": {"status": 200, "headers": [], "chunks": []}}));
        emit(json!({"family": "log", "request": {"url": "/", "headers": []}, "headers": [["Forwarded", (0..n.min(3000)).map(|k| format!("for=10.0.0.{}", k % 250)).collect::<Vec<_>>().join(", ")]], "client_ip": "10.0.0.1", "proxy": "p", "time": n, "legacy": null}));
        emit(json!({"family": "analysis", "kind": "test_examples", "project": false, "base": [], "base_config": {}, "input": {"router_config": {}, "max_hops": n.min(255), "rules": (0..many).map(|k| gen_rule(rng, &format!("a{k}"))).collect::<Vec<_>>()}}));
    }
}

fn gen(args: &Args, emit: &mut dyn FnMut(Value)) {
    let mut rng = Prng::new(args.seed);
    let h = hints();
    if !h.is_empty() {
        gen_hinted(&h, &mut rng, emit);
    }
    // exhaustive: every extern "C" function under every null pattern of its nullable parameters
    for (name, n) in FFI_FUNCS {
        for mask in 0..(1u32 << n) {
            let nulls: Vec<bool> = (0..*n).map(|i| mask & (1 << i) != 0).collect();
            emit(json!({"family": "ffi_null", "fn": name, "nulls": nulls, "exh": true}));
        }
    }
    // logger initialisers (child process): every sequence of length <= 3 (re-initialisation aborted before 6ded9a9)
    for a in ["stderr", "callback"] {
        emit(json!({"family": "ffi_logger", "seq": [a]}));
        for b in ["stderr", "callback"] {
            emit(json!({"family": "ffi_logger", "seq": [a, b]}));
            for c in ["stderr", "callback"] {
                emit(json!({"family": "ffi_logger", "seq": [a, b, c]}));
            }
        }
    }
    // request_time: around both ends of the range the RFC 2822 formatter accepts (outside it panicked before 2547641)
    for (d, c) in [
        ("2000-01-01T00:00:00Z", [2000, 1, 1, 0, 0, 0]),
        ("2003-07-01T10:52:37Z", [2003, 7, 1, 10, 52, 37]),
        ("0000-01-01T00:00:00Z", [0, 1, 1, 0, 0, 0]),
        ("9999-12-31T23:59:59Z", [9999, 12, 31, 23, 59, 59]),
        ("1970-01-01T00:00:00+14:00", [1969, 12, 31, 10, 0, 0]),
        ("2024-02-29T12:00:00Z", [2024, 2, 29, 12, 0, 0]),
        ("1900-03-01T00:00:09Z", [1900, 3, 1, 0, 0, 9]),
        ("+10000-01-01T00:00:00Z", [10000, 1, 1, 0, 0, 0]),
        ("-0001-01-01T00:00:00Z", [-1, 1, 1, 0, 0, 0]),
        ("-0001-12-31T23:59:59Z", [-1, 12, 31, 23, 59, 59]),
        ("+262142-12-31T23:59:59Z", [262142, 12, 31, 23, 59, 59]),
        ("9999-12-31T23:59:59-01:00", [10000, 1, 1, 0, 59, 59]),
        ("0000-01-01T00:00:00+01:00", [-1, 12, 31, 23, 0, 0]),
    ] {
        for via in ["request", "example"] {
            emit(json!({"family": "request_time", "created_at": d, "ymdhms": c, "via": via}));
        }
    }
    // depth of the regex radix tree = number of chained literal prefixes: below the measured 2 MiB threshold (must pass), above
    // it (known finding deep-tree-stack-overflow), and on 8 MiB
    if !args.extra.iter().any(|a| a == "--no-deep-tree") {
        let all = ["insert_deep", "find", "trace", "cache", "clone", "drop_clone", "retain", "remove", "drop"];
        // measured thresholds on a 2 MiB stack, harness profile (first overflowing N, tree / router level): insert 4 720 / 4 540,
        // remove 5 710, retain 5 980, clone 7 690, trace 8 085, find > 9 000, drop > 12 000; 8 MiB: insert 18 375 (router)
        for (level, n, stack) in [("tree", 1000usize, 2048usize), ("router", 1000, 2048), ("tree", 2000, 8192)] {
            emit(json!({"family": "deep_tree", "level": level, "n": n, "stack_kib": stack, "ops": all}));
        }
        // above the thresholds: known finding deep-tree-stack-overflow (KNOWN-FINDING line, exit 0); the 8 MiB case needs 900 MB
        // and 7 s: thorough tier only
        let mut over = vec![("router", 6000usize, 2048usize, vec!["insert_deep"]), ("tree", 6500, 2048, vec!["remove"]), ("tree", 6500, 2048, vec!["retain"]), ("tree", 8500, 2048, vec!["clone"])];
        if args.tier == "thorough" {
            over.push(("tree", 21000, 8192, vec!["insert_deep"]));
        }
        for (level, n, stack, ops) in over {
            emit(json!({"family": "deep_tree", "level": level, "n": n, "stack_kib": stack, "ops": ops}));
        }
    }
    // api/log.rs parses `Forwarded` / `X-Forwarded-For` by hand: every adversarial element alone, keyed, quoted and in a list
    for v in FORWARDED_FIXED {
        for shape in 0..5 {
            let value = match shape {
                0 => v.to_string(),
                1 => format!("for={v}"),
                2 => format!("for=\"{v}\""),
                3 => format!("for={v};by={v}, for={v}"),
                _ => format!("{v}, {v},,{v}"),
            };
            for name in ["Forwarded", "X-Forwarded-For"] {
                emit(json!({"family": "log", "request": {"url": "/", "headers": []}, "headers": [[name, value]], "client_ip": *v, "proxy": "p", "time": 1, "legacy": null, "exh": true}));
            }
        }
    }
    // Addr::from_str: the unit-test fixtures of addr.rs, the adversarial pool, every text padded with the trimmed characters (and
    // with characters that are NOT trimmed) on either side
    for t in ADDR_TEXTS.iter().chain(FORWARDED_FIXED.iter()) {
        emit(addr_case(t));
        for pad in ["\u{0}", "\n", "\r", "\t", " ", " \t\r\n\u{0}", "\u{b}", "\u{a0}", "\"", "é"] {
            emit(addr_case(&format!("{pad}{t}")));
            emit(addr_case(&format!("{t}{pad}")));
            emit(addr_case(&format!("{pad}{t}{pad}")));
        }
    }
    // Log::from_proxy: every adversarial element under every header name spelling, alone, keyed, quoted, in lists
    for v in FORWARDED_FIXED.iter().chain(ADDR_TEXTS.iter()) {
        for value in [v.to_string(), format!("for={v}"), format!("For = \"{v}\" "), format!("for={v};by={v}, FOR=\"\"{v}\"; proto=http;for"), format!("{v}, {v},,{v} ,"), format!("by={v};for=\"{v}")] {
            for name in ["Forwarded", "x-forwarded-for", "FORWARDED", "X-Forwarded-For"] {
                emit(log_ips_case(v, vec![(name.to_string(), value.clone()), ("Forwarded".to_string(), format!("for={v}"))]));
            }
        }
    }
    // rule strings malformed in multi-byte ways, at rule loading
    for (kind, base) in [("time", "12:30:00"), ("time", "23:59:59.999"), ("datetime", "2000-01-01T00:00:00Z"), ("datetime", "2030-06-15T12:00:00+02:00"), ("weekday", "monday"), ("weekday", "Wed"), ("ip", "10.0.0.0/8"), ("ip", "2001:db8::/32")] {
        let mut variants: Vec<String> = Vec::new();
        for off in 0..=12usize {
            for ch in ["é", "日", "１", "\u{1F600}"] {
                let o = off.min(base.len());
                variants.push(format!("{}{}{}", &base[..o], ch, &base[o..]));
                if o < base.len() {
                    variants.push(format!("{}{}{}", &base[..o], ch, &base[o + 1..])); // replaces one byte
                }
            }
        }
        let full_width: String = base.chars().map(|c| if c.is_ascii_digit() { char::from_u32(0xFF10 + c as u32 - '0' as u32).unwrap() } else { c }).collect();
        variants.push(full_width);
        for tail in ["Z", "z", "+02:00", " UTC", " +0000", "\u{0}", " ", "é"] {
            variants.push(format!("{base}{tail}"));
        }
        variants.extend(["", "1", "12", "12:", "12:30", "12:30:0", "012:030:000", "12:30:00:00", "99:99:99", "１２:３０:００", "١٢:٣٠:٠٠", "12：30：00"].iter().map(|x| x.to_string()));
        for v in variants {
            emit(json!({"family": "rule_strings", "rule": rule_with_string(kind, &v), "exh": true}));
        }
    }
    // slice boundaries, exhaustively on three short strings
    for s in ["", "abc", "aé", "é日a"] {
        let n = s.len() as u64;
        for from in (0..=n + 1).chain([u64::MAX]) {
            for to in (0..=n + 1).map(Some).chain([None, Some(u64::MAX)]) {
                emit(json!({"family": "slice", "s": hex(s.as_bytes()), "from": from, "to": to, "exh": true}));
            }
        }
    }
    for i in 0..args.n {
        let case = match i % 18 {
            0..=4 => {
                let nr = rng.below(4) + 1;
                let clean: Vec<Value> = (0..nr).map(|k| gen_rule(&mut rng, &format!("r{k}"))).collect();
                let requests: Vec<Value> = (0..rng.below(3) + 1).map(|_| if rng.chance(4, 5) { let r = rng.pick(&clean).clone(); gen_request_for(&mut rng, &r) } else { gen_request(&mut rng) }).collect();
                json!({
                    "family": "rule",
                    "config": ({ let c = gen_config(&mut rng); mutated(&mut rng, c) }),
                    "rules": Value::Array(clean.into_iter().map(|r| if rng.chance(1, 2) { mutated(&mut rng, r) } else { r }).collect()),
                    "requests": requests,
                    "cache": rng.chance(1, 2),
                    "response": {"status": *rng.pick(&[0u32, 200, 301, 404, 65535]),
                        "headers": Value::Array((0..rng.below(3)).map(|_| match rng.below(4) {
                            0 => json!(["Content-Encoding", *rng.pick(&["gzip", "deflate", "br", "GZIP", "nope", ""])]),
                            1 => json!(["Content-Type", *rng.pick(&["text/html", "text/html; charset=utf-8", "application/json", ""])]),
                            _ => json!([pick_str(&mut rng), pick_str(&mut rng)]),
                        }).collect()),
                        "chunks": chunks(&mut rng, 200)},
                })
            }
            5..=7 => {
                let kind = *rng.pick(&["test_examples", "explain", "impact", "unit_ids"]);
                let rules = Value::Array((0..rng.below(4)).map(|k| gen_rule(&mut rng, &format!("r{k}"))).collect());
                let base = Value::Array((0..rng.below(3)).map(|k| gen_rule(&mut rng, &format!("r{k}"))).collect());
                let change_set = json!({"added": (0..rng.below(2)).map(|k| gen_rule(&mut rng, &format!("n{k}"))).collect::<Vec<_>>(),
                    "updated": (0..rng.below(2)).map(|k| gen_rule(&mut rng, &format!("r{k}"))).collect::<Vec<_>>(),
                    "deleted": (0..rng.below(2)).map(|k| format!("r{k}")).collect::<Vec<_>>()});
                let project = rng.chance(1, 2);
                let max_hops = *rng.pick(&[0u32, 1, 3, 10, 255]);
                let domains = Value::Array((0..rng.below(3)).map(|_| json!(*rng.pick(&["example.org", "", "é"]))).collect());
                let mut input = match kind {
                    "test_examples" => json!({"max_hops": max_hops, "project_domains": domains}),
                    "explain" => json!({"example": gen_example(&mut rng), "max_hops": max_hops, "project_domains": domains}),
                    "impact" => json!({"max_hops": max_hops, "with_redirection_loop": rng.chance(3, 4), "domains": domains, "rule": ({ let id = *rng.pick(&["r0", "imp"]); gen_rule(&mut rng, id) }), "action": *rng.pick(&["add", "update", "delete", "nope"])}),
                    _ => json!({}),
                };
                if project {
                    input["change_set"] = change_set;
                } else {
                    input["router_config"] = gen_config(&mut rng);
                    input["rules"] = rules;
                }
                json!({"family": "analysis", "kind": kind, "project": project, "base": base, "base_config": gen_config(&mut rng), "input": mutated(&mut rng, input)})
            }
            8 | 9 => json!({
                "family": "body",
                "filters": Value::Array((0..rng.below(3) + 1).map(|_| { let f = gen_body_filter(&mut rng); mutated(&mut rng, f) }).collect()),
                "headers": Value::Array((0..rng.below(3)).map(|_| match rng.below(3) {
                    0 => json!(["Content-Encoding", *rng.pick(&["gzip", "deflate", "br", "nope"])]),
                    1 => json!(["content-type", *rng.pick(&["text/html", "text/plain"])]),
                    _ => json!([pick_str(&mut rng), pick_str(&mut rng)]),
                }).collect()),
                "chunks": chunks(&mut rng, 400),
            }),
            10 | 11 => json!({"family": "html", "bytes": hex(&pick_bytes(&mut rng, 600)), "context": *rng.pick(&["", "", "script", "title", "textarea", "plaintext", "style", "xmp", "SCRIPT", "é", "div"])}),
            12 => json!({"family": "request", "str": pick_str(&mut rng), "json": ({ let j = json!({
                "path_and_query": {"path_and_query": pick_str(&mut rng), "path_and_query_matching": pick_str(&mut rng), "skipped_query_params": null, "original": pick_str(&mut rng)},
                "path_and_query_v2": opt_val(&mut rng, 1, 2, |r| json!(pick_str(r))), "host": "example.org", "scheme": "https", "method": "GET",
                "headers": [{"name": "X", "value": "y"}], "remote_addr": *rng.pick(&["10.0.0.1", "::1", "bad"]), "created_at": *rng.pick(DATES), "sampling_override": null}); mutated(&mut rng, j) }),
                "config": gen_config(&mut rng)}),
            16 | 17 => {
                let strs: Vec<String> = (0..4).map(|_| pick_str(&mut rng)).collect();
                json!({"family": "api_misc", "uri": pick_str(&mut rng), "host": pick_str(&mut rng), "scheme": *rng.pick(&["http", "https", "", "é"]), "method": *rng.pick(METHODS),
                    "headers": Value::Array((0..rng.below(5)).map(|_| json!([*rng.pick(&["Host", "X-Forwarded-For", "Forwarded", "x-forwarded-host", "X-Forwarded-Proto", "X-Forwarded-By", "é", "", "a b", "Set-Cookie", "set-cookie"]), forwarded_value(&mut rng)])).collect()),
                    "ip": *rng.pick(&["10.1.2.3", "::1", "[::1]:80", "10.0.0.1:99999", "bad", ""]),
                    "action_json": match rng.below(4) { 0 => ACTION_JSON.to_string(), 1 => String::from_utf8_lossy(&pick_bytes(&mut rng, 60)).to_string(), 2 => "{}".to_string(), _ => { let a: Value = serde_json::from_str(ACTION_JSON).unwrap(); mutated(&mut rng, a).to_string() } },
                    "dates": [*rng.pick(DATES), *rng.pick(DATES)], "times": [*rng.pick(TIMES), *rng.pick(TIMES)],
                    "weekdays": Value::Array((0..rng.below(4)).map(|_| json!(*rng.pick(WEEKDAYS))).collect()),
                    "cidrs": [*rng.pick(IPS), *rng.pick(IPS)], "strs": strs, "code": *rng.pick(&[0u32, 200, 301, 404, 65535])})
            }
            15 => gen_marker_transform(&mut rng),
            13 => json!({"family": "log", "request": gen_request(&mut rng),
                "headers": Value::Array((0..rng.below(5)).map(|_| match rng.below(5) {
                    0 | 1 => json!([*rng.pick(&["Forwarded", "forwarded", "FORWARDED"]), forwarded_value(&mut rng)]),
                    2 | 3 => json!([*rng.pick(&["X-Forwarded-For", "x-forwarded-for"]), forwarded_value(&mut rng)]),
                    _ => json!([*rng.pick(&["Location", "content-type", "User-Agent", "Referer", "LOCATION", "İ"]), pick_str(&mut rng)]),
                }).collect()),
                "client_ip": *rng.pick(&["10.0.0.1", "[::1]:80", "bad", "", "10.0.0.1\u{0}"]), "proxy": pick_str(&mut rng), "time": *rng.pick(&[0u64, 1, u64::MAX, 1700000000000]),
                "legacy": ({ let l = json!({"status_code": 200, "host": "h", "method": "GET", "request_uri": "/", "user_agent": null, "referer": null, "scheme": "http", "use_json": true, "target": "/t", "rule_id": "r"}); mutated(&mut rng, l) })}),
            14 if i % 36 < 18 => json!({"family": "transform", "kind": *rng.pick(TRANSFORMERS), "options": {"from": *rng.pick(NUMS), "to": *rng.pick(NUMS), "something": pick_str(&mut rng), "with": pick_str(&mut rng)}, "s": pick_str(&mut rng)}),
            _ => {
                if rng.chance(1, 2) {
                    let s = pick_str(&mut rng);
                    let n = s.len() as u64;
                    let idx = |r: &mut Prng| match r.below(4) { 0 => r.below(n as usize + 2) as u64, 1 => u64::MAX, 2 => n, _ => r.below(4) as u64 };
                    json!({"family": "slice", "s": hex(s.as_bytes()), "from": idx(&mut rng), "to": if rng.chance(1, 4) { Value::Null } else { json!(idx(&mut rng)) }})
                } else if rng.chance(1, 2) {
                    let t = if rng.chance(1, 2) { rng.pick(ADDR_TEXTS).to_string() } else { forwarded_value(&mut rng) };
                    if rng.chance(1, 2) {
                        let pad = |r: &mut Prng| (0..r.below(3)).map(|_| *r.pick(&["\u{0}", "\n", "\r", "\t", " ", "\u{a0}", "\u{3000}"])).collect::<String>();
                        addr_case(&format!("{}{}{}", pad(&mut rng), t, pad(&mut rng)))
                    } else {
                        let hs: Vec<(String, String)> = (0..rng.below(4)).map(|_| (rng.pick(FWD_NAMES).to_string(), forwarded_value(&mut rng))).collect();
                        log_ips_case(&t, hs)
                    }
                } else if rng.chance(1, 2) {
                    json!({"family": "ffi_str", "fn": *rng.pick(FFI_STR_FUNCS), "payload": hex(&pick_bytes(&mut rng, 80))})
                } else {
                    // a random UTC instant, years -260000..=260000 (chrono covers about +-262000) with both ends of 0..=9999 favoured
                    let y: i64 = match rng.below(6) {
                        0 => rng.below(520001) as i64 - 260000,
                        1 => 9990 + rng.below(20) as i64,
                        2 => rng.below(20) as i64 - 10,
                        _ => 1900 + rng.below(300) as i64,
                    };
                    let (mo, d, h, mi, sec) = (rng.below(12) + 1, rng.below(28) + 1, rng.below(24), rng.below(60), rng.below(60));
                    let ys = if (0..=9999).contains(&y) { format!("{y:04}") } else { format!("{y:+05}") };
                    json!({"family": "request_time", "created_at": format!("{ys}-{mo:02}-{d:02}T{h:02}:{mi:02}:{sec:02}Z"), "ymdhms": [y, mo, d, h, mi, sec], "via": *rng.pick(&["request", "example"])})
                }
            }
        };
        emit(case);
    }
}

// ------------------------------------------------------------------------------------------------
// run

fn ok() -> Value {
    json!({"ok": true})
}

fn arr<'a>(v: &'a Value, k: &str) -> &'a [Value] {
    v.get(k).and_then(|x| x.as_array()).map(|a| a.as_slice()).unwrap_or(&[])
}

fn header_pairs(v: &Value, k: &str) -> Vec<Header> {
    arr(v, k)
        .iter()
        .filter_map(|p| Some(Header { name: p.get(0)?.as_str()?.to_string(), value: p.get(1)?.as_str()?.to_string() }))
        .collect()
}

fn build_request(config: &RouterConfig, r: &Value) -> Request {
    let mut req = Request::from_config(
        config,
        s(r, "url").unwrap_or_default(),
        s(r, "host"),
        s(r, "scheme"),
        s(r, "method"),
        s(r, "ip").and_then(|i| i.parse().ok()),
        r.get("sampling_override").and_then(|b| b.as_bool()),
    );
    for h in header_pairs(r, "headers") {
        req.add_header(h.name, h.value, config.ignore_header_case);
    }
    req.set_created_at(s(r, "created_at"));
    req
}

fn run_rule(case: &Value) -> Obs {
    let config: RouterConfig = serde_json::from_value(case.get("config").cloned().unwrap_or(json!({}))).unwrap_or_default();
    let mut router = Router::<Rule>::from_config(config.clone());
    let mut loaded = 0;
    let mut ids = Vec::new();
    for r in arr(case, "rules") {
        // both loaders: serde value and the string entry point
        let _ = Rule::from_json(&r.to_string());
        if let Ok(rule) = serde_json::from_value::<Rule>(r.clone()) {
            ids.push(rule.id.clone());
            router.insert(rule);
            loaded += 1;
        }
    }
    if case.get("cache").and_then(|b| b.as_bool()).unwrap_or(false) {
        router.cache(Some(3));
        router.cache(None);
    }
    let resp = case.get("response").cloned().unwrap_or(json!({}));
    let status = resp.get("status").and_then(|x| x.as_u64()).unwrap_or(200) as u16;
    let resp_headers = header_pairs(&resp, "headers");
    let mut matched = 0;
    for r in arr(case, "requests") {
        let request = build_request(&config, r);
        let rebuilt = router.rebuild_request(&request);
        let routes = router.match_request(&rebuilt);
        matched += routes.len();
        let _ = router.get_route(&rebuilt);
        let _ = serde_json::to_string(&router.trace_request(&request));
        let _ = serde_json::to_string(&router.get_trace(&request));
        let mut action = Action::from_routes_rule(routes, &rebuilt, None);
        // JSON round trip of the action and of the request (what travels between agent and proxy)
        if let Ok(js) = serde_json::to_string(&action) {
            if let Ok(a2) = serde_json::from_str::<Action>(&js) {
                action = a2;
            }
        }
        if let Ok(js) = serde_json::to_string(&request) {
            let _ = serde_json::from_str::<Request>(&js);
        }
        let s0 = action.get_status_code(0, None);
        let backend = if s0 != 0 { s0 } else { status };
        let _ = action.get_status_code(backend, None);
        let headers = action.filter_headers(resp_headers.clone(), backend, true, None);
        if let Some(mut f) = action.create_filter_body(backend, &headers) {
            for c in arr(&resp, "chunks") {
                let _ = f.filter(c.as_str().and_then(unhex).unwrap_or_default(), None);
            }
            let _ = f.end(None);
        }
        let _ = action.should_log_request(true, backend, None);
        let log = Log::from_proxy(&request, backend, &headers, Some(&action), "proxy", 0, "10.0.0.1");
        let _ = serde_json::to_string(&log);
    }
    let router2 = router.clone();
    for id in ids.iter() {
        router.remove(id);
    }
    drop(router2);
    Obs::new(ok()).trivial(loaded == 0).tag(format!("rule:loaded{}", loaded.min(3))).tag(format!("rule:matched{}", matched.min(2)))
}

fn run_analysis(case: &Value) -> Obs {
    let kind = s(case, "kind").unwrap_or_default();
    let input = case.get("input").cloned().unwrap_or(Value::Null);
    let project = case.get("project").and_then(|b| b.as_bool()).unwrap_or(false);
    let base_router = || {
        let cfg: RouterConfig = serde_json::from_value(case.get("base_config").cloned().unwrap_or(json!({}))).unwrap_or_default();
        let mut router = Router::<Rule>::from_config(cfg);
        for r in arr(case, "base") {
            if let Ok(rule) = serde_json::from_value::<Rule>(r.clone()) {
                router.insert(rule);
            }
        }
        Arc::new(router)
    };
    let mut parsed = false;
    match (kind.as_str(), project) {
        ("test_examples", false) => {
            if let Ok(i) = serde_json::from_value::<TestExamplesInput>(input) {
                parsed = true;
                let _ = serde_json::to_string(&TestExamplesOutput::create_result_without_project(i));
            }
        }
        ("test_examples", true) => {
            if let Ok(i) = serde_json::from_value::<TestExamplesProjectInput>(input) {
                parsed = true;
                let _ = serde_json::to_string(&TestExamplesOutput::from_project(i, base_router()));
            }
        }
        ("explain", false) => {
            if let Ok(i) = serde_json::from_value::<ExplainRequestInput>(input) {
                parsed = true;
                let _ = ExplainRequestOutput::create_result_without_project(i).map(|o| serde_json::to_string(&o));
            }
        }
        ("explain", true) => {
            if let Ok(i) = serde_json::from_value::<ExplainRequestProjectInput>(input) {
                parsed = true;
                let _ = ExplainRequestOutput::create_result_from_project(i, base_router()).map(|o| serde_json::to_string(&o));
            }
        }
        ("impact", false) => {
            if let Ok(i) = serde_json::from_value::<ImpactInput>(input) {
                parsed = true;
                let _ = serde_json::to_string(&ImpactOutput::create_result(i));
            }
        }
        ("impact", true) => {
            if let Ok(i) = serde_json::from_value::<ImpactProjectInput>(input) {
                parsed = true;
                let _ = serde_json::to_string(&ImpactOutput::from_impact_project(i, base_router()));
            }
        }
        ("unit_ids", false) => {
            if let Ok(i) = serde_json::from_value::<UnitIdsInput>(input) {
                parsed = true;
                let _ = serde_json::to_string(&UnitIdsOutput::create_result_without_project(i));
            }
        }
        ("unit_ids", true) => {
            if let Ok(i) = serde_json::from_value::<UnitIdsProjectInput>(input) {
                parsed = true;
                let _ = serde_json::to_string(&UnitIdsOutput::create_result_from_project(i, base_router()));
            }
        }
        _ => return Obs::invalid("analysis kind"),
    }
    Obs::new(ok()).trivial(!parsed).tag(format!("analysis:{kind}:{}", if parsed { "run" } else { "rejected" }))
}

fn run_body(case: &Value) -> Obs {
    let filters: Vec<BodyFilter> = arr(case, "filters").iter().filter_map(|f| serde_json::from_value(f.clone()).ok()).collect();
    let n = filters.len();
    let headers = header_pairs(case, "headers");
    let mut f = FilterBodyAction::new(filters, &headers);
    let mut out = Vec::new();
    let mut input_len = 0;
    for c in arr(case, "chunks") {
        let bytes = c.as_str().and_then(unhex).unwrap_or_default();
        input_len += bytes.len();
        out.extend(f.filter(bytes, None));
    }
    out.extend(f.end(None));
    Obs::new(ok()).trivial(n == 0 || input_len == 0).tag(format!("body:{}", if f.verif_in_error() { "error" } else { "filtered" }))
}

fn run_html(case: &Value) -> Obs {
    let bytes = s(case, "bytes").and_then(|h| unhex(&h)).unwrap_or_default();
    let n = bytes.len();
    let mut t = Tokenizer::new_fragment(bytes, s(case, "context").unwrap_or_default());
    let mut tokens = 0;
    for round in 0..(n + 8) {
        let tt = match t.next() {
            Ok(tt) => tt,
            Err(_) => break,
        };
        if tt == TokenType::ErrorToken {
            break;
        }
        tokens += 1;
        let _ = t.raw();
        let _ = t.raw_as_string();
        let _ = t.buffered();
        match round % 3 {
            0 => {
                if let Ok(tok) = t.token() {
                    let _ = tok.to_string();
                }
            }
            1 => {
                let _ = t.text();
                if let Ok((_, mut more)) = t.tag_name() {
                    let mut guard = 0;
                    while more && guard < n + 2 {
                        more = t.tag_attr().map(|(_, _, m)| m).unwrap_or(false);
                        guard += 1;
                    }
                }
            }
            _ => {
                let _ = t.tag_attr();
                let _ = t.tag_name();
                let _ = t.tag_name();
                let _ = t.text();
            }
        }
    }
    let _ = t.buffered_as_string();
    let _ = t.err().is_some();
    Obs::new(ok()).trivial(n == 0).tag(format!("html:tokens{}", tokens.min(3)))
}

fn run_request(case: &Value) -> Obs {
    let text = s(case, "str").unwrap_or_default();
    let config: RouterConfig = serde_json::from_value(case.get("config").cloned().unwrap_or(json!({}))).unwrap_or_default();
    let mut built = 0;
    if let Ok(r) = text.parse::<Request>() {
        built += 1;
        let r2 = Request::rebuild_with_config(&config, &r);
        let _ = r2.path_and_query();
        let _ = serde_json::to_string(&r2);
    }
    let _ = redirectionio::http::sanitize_url(&text);
    let _ = PathAndQueryWithSkipped::from_config(&config, &text);
    let _ = PathAndQueryWithSkipped::from_static(&text);
    let _ = Request::build_sorted_query(&text);
    let r = Request::from_config(&config, text.clone(), Some(text.clone()), Some(text.clone()), Some(text.clone()), None, None);
    let _ = (r.method().len(), r.host(), r.scheme(), r.header_exists(&text), r.header_value(&text));
    if let Some(j) = case.get("json") {
        if let Ok(r) = serde_json::from_value::<Request>(j.clone()) {
            built += 1;
            let r2 = Request::rebuild_with_config(&config, &r);
            let _ = serde_json::to_string(&r2);
            let ex: Result<Example, _> = serde_json::from_value(json!({"url": text, "method": null, "headers": null, "ip_address": null, "response_status_code": null, "must_match": true, "unit_ids_applied": null}));
            if let Ok(ex) = ex {
                let _ = Request::from_example(&config, &ex);
            }
        }
    }
    Obs::new(ok()).tag(format!("request:built{built}"))
}

fn run_log(case: &Value) -> Obs {
    let config = RouterConfig::default();
    let request = build_request(&config, case.get("request").unwrap_or(&Value::Null));
    let headers = header_pairs(case, "headers");
    let mut request2 = request.clone();
    for h in &headers {
        request2.add_header(h.name.clone(), h.value.clone(), false);
    }
    let time = case.get("time").and_then(|t| t.as_u64()).unwrap_or(0) as u128;
    let log = Log::from_proxy(&request2, 200, &headers, None, &s(case, "proxy").unwrap_or_default(), time, &s(case, "client_ip").unwrap_or_default());
    let _ = serde_json::to_string(&log);
    let mut legacy = false;
    if let Some(l) = case.get("legacy") {
        if let Ok(l) = serde_json::from_value::<LegacyLog>(l.clone()) {
            legacy = true;
            let _ = serde_json::to_string(&Log::from_legacy(l, "p".to_string()));
        }
    }
    Obs::new(ok()).tag(format!("log:legacy-{legacy}"))
}

fn run_api_misc(case: &Value) -> Obs {
    use redirectionio::action::{StatusCodeUpdate, UnitTrace};
    use redirectionio::router::{IntoRoute, RouteDateTime, RouteIp, RouteTime, RouteWeekday};
    use std::hash::{Hash, Hasher};
    let g = |k: &str| s(case, k).unwrap_or_default();
    let config = RouterConfig::default();
    let uri = g("uri");
    // wasm Request::new + add_header + get_hash + serialize
    let mut request = Request {
        headers: Vec::new(),
        host: Some(g("host")),
        method: Some(g("method")),
        scheme: Some(g("scheme")),
        path_and_query_skipped: PathAndQueryWithSkipped::from_config(&config, uri.as_str()),
        path_and_query: Some(uri.clone()),
        remote_addr: None,
        created_at: Some(chrono::Utc::now()),
        sampling_override: None,
    };
    let headers = header_pairs(case, "headers");
    for h in &headers {
        request.add_header(h.name.clone(), h.value.clone(), false);
    }
    if let Ok(ip) = g("ip").parse::<std::net::IpAddr>() {
        request.set_remote_ip(ip);
    }
    let mut hasher = std::collections::hash_map::DefaultHasher::new();
    request.hash(&mut hasher);
    let _ = hasher.finish();
    for h in &headers {
        let _ = (request.header_values(&h.name), request.header_value(&h.name), request.header_exists(&h.name));
    }
    let mut o = Obs::new(ok());
    // serialize -> deserialize -> serialize is a fixpoint
    if let Ok(js) = serde_json::to_string(&request) {
        match serde_json::from_str::<Request>(&js) {
            Ok(r2) => {
                if serde_json::to_string(&r2).ok().as_deref() != Some(js.as_str()) {
                    o = o.fail("Request: serialize . deserialize . serialize differs from serialize", "request-json-fixpoint");
                }
            }
            Err(e) => o = o.fail(format!("Request: its own serialisation is rejected: {e}"), "request-json-fixpoint"),
        }
    }
    // wasm Action::new + every wrapper method + create_log_in_json
    let code = case.get("code").and_then(|x| x.as_u64()).unwrap_or(200) as u16;
    let mut action: Option<Action> = serde_json::from_str(&g("action_json")).ok();
    let filtered = match action.as_mut() {
        Some(a) => {
            let _ = a.get_status_code(code, None);
            let hs = a.filter_headers(headers.clone(), code, true, None);
            if let Some(mut f) = a.create_filter_body(code, &hs) {
                let _ = f.filter(uri.clone().into_bytes(), None);
                let _ = f.end(None);
            }
            let _ = a.should_log_request(true, code, None);
            if let Ok(js) = serde_json::to_string(&*a) {
                match serde_json::from_str::<Action>(&js) {
                    Ok(a2) => {
                        if serde_json::to_string(&a2).ok().as_deref() != Some(js.as_str()) {
                            o = o.fail("Action: serialize . deserialize . serialize differs from serialize", "action-json-fixpoint");
                        }
                    }
                    Err(e) => o = o.fail(format!("Action: its own serialisation is rejected: {e}"), "action-json-fixpoint"),
                }
            }
            hs
        }
        None => headers.clone(),
    };
    let log = Log::from_proxy(&request, code, &filtered, action.as_ref(), &g("host"), u64::MAX as u128, &g("ip"));
    let _ = serde_json::to_string(&log);
    // public functions no other harness calls directly
    let _ = Header::create_header_map(headers.clone());
    let _ = redirectionio::filter::Buffer::from_string(uri.clone()).into_vec();
    let _ = redirectionio::filter::SupportedEncoding::new_hash_set();
    let strs: Vec<String> = arr(case, "strs").iter().filter_map(|x| x.as_str().map(|s| s.to_string())).collect();
    let mut ut = UnitTrace::default();
    for (i, a) in strs.iter().enumerate() {
        match i % 4 {
            0 => ut.add_unit_id(a.clone()),
            1 => ut.add_unit_id_with_target(&uri, a),
            2 => ut.override_unit_id_with_target(&uri, a),
            _ => ut.add_value_computed_by_unit(a, &uri),
        }
    }
    ut.squash_with_target_unit_traces();
    let _ = (ut.diff(strs.clone()), ut.get_rule_ids_applied(), ut.get_unit_ids_applied(), ut.rule_ids_contains(&uri), serde_json::to_string(&ut));
    if let Ok(scu) = serde_json::from_value::<StatusCodeUpdate>(json!({"status_code": code, "on_response_status_codes": [code, 0], "exclude_response_status_codes": code % 2 == 0,
        "fallback_status_code": 65535, "rule_id": uri, "fallback_rule_id": null, "unit_id": null, "target_hash": null})) {
        let _ = (scu.get_status_code(0), scu.get_status_code(code), scu.get_status_code(65535));
    }
    let dates: Vec<Option<String>> = arr(case, "dates").iter().map(|x| x.as_str().map(|s| s.to_string())).collect();
    let times: Vec<Option<String>> = arr(case, "times").iter().map(|x| x.as_str().map(|s| s.to_string())).collect();
    let weekdays: Vec<String> = arr(case, "weekdays").iter().filter_map(|x| x.as_str().map(|s| s.to_string())).collect();
    let instants: Vec<chrono::DateTime<chrono::Utc>> = DATES.iter().filter_map(|d| d.parse().ok()).collect();
    if dates.len() == 2 && times.len() == 2 {
        let (rd, rt, rw) = (RouteDateTime::from_range(&dates[0], &dates[1]), RouteTime::from_range(&times[0], &times[1]), RouteWeekday::from_weekdays(&weekdays));
        for t in &instants {
            let _ = (rd.match_datetime(t), rt.match_datetime(t), rw.as_ref().map(|w| w.match_datetime(t)));
        }
        let _ = (rd.to_string(), rt.to_string(), rw.map(|w| w.to_string()));
    }
    for c in arr(case, "cidrs") {
        if let Some(Ok(cidr)) = c.as_str().map(|c| c.parse::<cidr::AnyIpCidr>()) {
            for ip in ["10.1.2.3", "::1", "255.255.255.255"] {
                let ip: std::net::IpAddr = ip.parse().unwrap();
                let _ = (RouteIp::InRange(cidr).match_ip(&ip), RouteIp::NotInRange(cidr).match_ip(&ip));
            }
        }
    }
    // Router::from_arc_config / insert_route / get_route_by_id
    let mut router = Router::<Rule>::from_arc_config(Arc::new(config.clone()));
    if let Ok(rule) = serde_json::from_str::<Rule>(RT_RULE) {
        let mut rule = rule;
        rule.source.path = uri.clone();
        rule.id = g("host");
        router.insert_route(rule.clone().into_route(&config));
        router.insert_route(rule.into_route(&config));
        let _ = (router.get_route_by_id(&g("host")).map(|r| r.priority()), router.get_route_by_id(&uri).is_some(), router.len(), router.is_empty());
        let _ = router.match_request(&request);
        let _ = router.remove(&g("host"));
    }
    o.tag(format!("api_misc:action-{}", action.is_some()))
}

fn run_marker_transform(case: &Value) -> Obs {
    let config: RouterConfig = serde_json::from_value(case.get("config").cloned().unwrap_or(json!({}))).unwrap_or_default();
    let rule: Rule = match serde_json::from_value(case.get("rule").cloned().unwrap_or(Value::Null)) {
        Ok(r) => r,
        Err(_) => return Obs::invalid("rule"),
    };
    let mut router = Router::<Rule>::from_config(config.clone());
    router.insert(rule);
    let mut request = Request::from_config(&config, "/x".to_string(), s(case, "host"), Some("http".to_string()), None, None, None);
    request.add_header("X-H".to_string(), s(case, "xh").unwrap_or_default(), config.ignore_header_case);
    request.add_header("X-V".to_string(), s(case, "xv").unwrap_or_default(), config.ignore_header_case);
    let routes = router.match_request(&request);
    let matched = routes.len();
    for r in &routes {
        let _ = Action::get_target(r, &request);
        let _ = r.capture(&request);
    }
    let mut action = Action::from_routes_rule(routes, &request, None);
    let status = action.get_status_code(0, None);
    let headers = action.filter_headers(Vec::new(), status, true, None);
    if let Some(mut f) = action.create_filter_body(status, &headers) {
        let _ = f.filter("é<html>".as_bytes().to_vec(), None);
        let _ = f.end(None);
    }
    let _ = serde_json::to_string(&router.trace_request(&request));
    Obs::new(ok()).trivial(matched == 0).tag(format!("marker_transform:matched{}", matched.min(1)))
}

fn run_rule_strings(case: &Value) -> Obs {
    let rj = case.get("rule").cloned().unwrap_or(Value::Null);
    let _ = Rule::from_json(&rj.to_string());
    let rule: Rule = match serde_json::from_value(rj) {
        Ok(r) => r,
        Err(_) => return Obs::new(ok()).trivial(true).tag("rule_strings:rejected"),
    };
    let config = RouterConfig::default();
    let mut router = Router::<Rule>::from_config(config.clone());
    let examples = rule.examples.clone().unwrap_or_default();
    router.insert(rule.clone()); // into_route: route_ips / route_datetimes / route_times / route_weekdays
    let mut request = Request::from_config(&config, "/rs".to_string(), None, None, None, "10.1.2.3".parse().ok(), None);
    request.set_created_at(Some("2000-01-03T12:30:00Z".to_string()));
    let n = router.match_request(&request).len();
    let _ = serde_json::to_string(&router.trace_request(&request));
    let _ = serde_json::to_string(&router.get_trace(&request));
    for ex in &examples {
        let _ = Request::from_example(&config, ex);
    }
    let input: Result<TestExamplesInput, _> = serde_json::from_value(json!({"router_config": {}, "rules": [serde_json::to_value(&rule).unwrap()], "max_hops": 1}));
    if let Ok(i) = input {
        let _ = TestExamplesOutput::create_result_without_project(i);
    }
    router.cache(None);
    let _ = router.remove("rs");
    Obs::new(ok()).tag(format!("rule_strings:matched{}", n.min(1)))
}

/// `c07 child-deep <tree|router> <n> <stack_kib> <op,op,..>`: builds the chain (longest pattern first: each insertion then
/// happens at the root, so building does not recurse) and runs the operations on a thread with the given stack, printing one
/// line per completed step; a stack overflow kills the process with SIGABRT / SIGSEGV.
fn child_deep(level: &str, n: usize, stack_kib: usize, ops: &str) {
    use std::io::Write;
    let level = level.to_string();
    let ops: Vec<String> = ops.split(',').map(|s| s.to_string()).collect();
    let say = |m: &str| {
        let mut o = std::io::stdout();
        let _ = writeln!(o, "{m}");
        let _ = o.flush();
    };
    let body = move || {
        let hay = format!("/{}7", "a".repeat(n));
        if level == "tree" {
            let mut tree: redirectionio::regex_radix_tree::RegexTreeMap<u32> = redirectionio::regex_radix_tree::RegexTreeMap::new(false);
            for i in (1..=n).rev() {
                tree.insert(&format!("/{}(?:[0-9]+)", "a".repeat(i)), &format!("r{i}"), i as u32);
            }
            say("build");
            let mut copy = None;
            for op in &ops {
                match op.as_str() {
                    "insert_deep" => tree.insert(&format!("/{}(?:[0-9]+)", "a".repeat(n + 1)), "deep", 0),
                    "find" => {
                        let _ = tree.find(&hay).len();
                    }
                    "trace" => {
                        let _ = tree.trace(&hay);
                    }
                    "cache" => {
                        let _ = tree.cache(10, None);
                    }
                    "clone" => copy = Some(tree.clone()),
                    "drop_clone" => drop(copy.take()),
                    "retain" => tree.retain(&|id: &str, _: &mut u32| id != "r1"),
                    "remove" => {
                        let _ = tree.remove(&format!("r{n}"));
                    }
                    "drop" => {
                        let t = std::mem::replace(&mut tree, redirectionio::regex_radix_tree::RegexTreeMap::new(false));
                        drop(t);
                    }
                    _ => {}
                }
                say(op);
            }
            // the implicit drop at the end of the thread would recurse too: only the explicit `drop` op measures it
            std::mem::forget(tree);
            std::mem::forget(copy);
        } else {
            let config = RouterConfig::default();
            let mut router = Router::<Rule>::from_config(config.clone());
            let mk = |i: usize| -> Rule {
                serde_json::from_value(json!({"id": format!("r{i}"), "rank": 1, "source": {"path": format!("/{}@m", "a".repeat(i))}, "markers": [{"name": "m", "regex": "[0-9]+"}], "status_code": 301, "target": "/t"})).unwrap()
            };
            for i in (1..=n).rev() {
                router.insert(mk(i));
            }
            say("build");
            let request = Request::from_config(&config, hay.clone(), None, None, None, None, None);
            let mut copy = None;
            for op in &ops {
                match op.as_str() {
                    "insert_deep" => router.insert(mk(n + 1)),
                    "find" => {
                        let _ = router.match_request(&request).len();
                    }
                    "trace" => {
                        let _ = router.trace_request(&request).len();
                    }
                    "cache" => router.cache(Some(10)),
                    "clone" => copy = Some(router.clone()),
                    "drop_clone" => drop(copy.take()),
                    "retain" => router.batch_remove(&["r1".to_string()].into_iter().collect()),
                    "remove" => {
                        let _ = router.remove(&format!("r{n}"));
                    }
                    "drop" => {
                        let r = std::mem::replace(&mut router, Router::<Rule>::from_config(config.clone()));
                        drop(r);
                    }
                    _ => {}
                }
                say(op);
            }
            std::mem::forget(router);
            std::mem::forget(copy);
        }
        say("done");
    };
    match std::thread::Builder::new().stack_size(stack_kib * 1024).spawn(body) {
        Ok(h) => {
            let ok = h.join().is_ok();
            std::process::exit(if ok { 0 } else { 4 });
        }
        Err(_) => std::process::exit(5),
    }
}

fn run_deep_tree(case: &Value) -> Obs {
    use std::os::unix::process::ExitStatusExt;
    let level = s(case, "level").unwrap_or_default();
    let n = case.get("n").and_then(|x| x.as_u64()).unwrap_or(0) as usize;
    let stack = case.get("stack_kib").and_then(|x| x.as_u64()).unwrap_or(0) as usize;
    let ops: Vec<String> = arr(case, "ops").iter().filter_map(|x| x.as_str().map(|s| s.to_string())).collect();
    if !(level == "tree" || level == "router") || n == 0 || n > 40_000 || !(64..=65536).contains(&stack) || ops.len() > 12 {
        return Obs::invalid("deep_tree parameters");
    }
    w8_watchdog::arm(120);
    let exe = match std::env::current_exe() {
        Ok(e) => e,
        Err(_) => return Obs::invalid("no current_exe"),
    };
    let out = std::process::Command::new(exe).arg("child-deep").arg(&level).arg(n.to_string()).arg(stack.to_string()).arg(ops.join(",")).stdin(std::process::Stdio::null()).stderr(std::process::Stdio::piped()).output();
    let out = match out {
        Ok(o) => o,
        Err(_) => return Obs::invalid("cannot spawn child"),
    };
    let done: Vec<String> = String::from_utf8_lossy(&out.stdout).lines().map(|l| l.to_string()).collect();
    let finished = done.last().map(|l| l == "done").unwrap_or(false);
    // the step that did not complete: the first of build, ops.. that was not reported
    let steps: Vec<String> = std::iter::once("build".to_string()).chain(ops.iter().cloned()).collect();
    let failed_op = if finished { Value::Null } else { json!(steps.get(done.len()).cloned().unwrap_or_default()) };
    let overflow = String::from_utf8_lossy(&out.stderr).contains("overflowed its stack") || matches!(out.status.signal(), Some(6) | Some(11));
    let outcome = if out.status.code() == Some(0) && finished { "ok" } else if overflow { "abort" } else { "error" };
    let o = Obs::new(json!({"n": n, "stack_kib": stack, "level": level, "outcome": outcome, "failed_op": failed_op})).tag(format!("deep_tree:{level}:{outcome}"));
    match outcome {
        "ok" => o,
        "abort" => o.fail(format!("{n} rules with chained literal prefixes ({level} level) overflow a {stack} KiB stack in `{}` (the process aborts)", failed_op.as_str().unwrap_or("?")), "deep-tree-stack-overflow"),
        _ => o.fail(format!("deep_tree child failed: status {:?}", out.status), "deep-tree-child-error"),
    }
}

fn run_addr_parse(case: &Value) -> Obs {
    let text = match s(case, "s") {
        Some(t) => t,
        None => return Obs::invalid("s"),
    };
    if case.get("std") != Some(&std_table(&text, &[])) {
        return Obs::invalid("stale std table");
    }
    let r = text.parse::<redirectionio::http::Addr>();
    let obs = match &r {
        Ok(a) => json!({"addr": [a.addr.to_string(), a.port]}),
        Err(_) => json!({"addr": null}),
    };
    if let Ok(a) = &r {
        let _ = a.to_string();
    }
    let o = Obs::new(obs).tag(format!("addr_parse:{}", if r.is_ok() { "ok" } else { "err" }));
    if r.as_ref().ok().map(|a| (a.addr.to_string(), a.port)) != spec_addr(&text) {
        return o.fail(format!("Addr::from_str({text:?}) differs from: trim, IpAddr, else SocketAddr = {:?}", spec_addr(&text)), "addr-parse-spec");
    }
    o
}

fn run_log_ips(case: &Value) -> Obs {
    let client_ip = s(case, "client_ip").unwrap_or_default();
    let headers: Vec<(String, String)> = header_pairs(case, "headers").into_iter().map(|h| (h.name, h.value)).collect();
    if case.get("std") != Some(&std_table(&client_ip, &headers)) {
        return Obs::invalid("stale std table");
    }
    let config = RouterConfig::default();
    let mut request = Request::from_config(&config, "/".to_string(), None, None, None, None, None);
    for (n, v) in &headers {
        request.add_header(n.clone(), v.clone(), false);
    }
    let log = Log::from_proxy(&request, 200, &[], None, "p", 0, &client_ip);
    let ips = serde_json::to_value(&log).map(|v| v["ips"].clone()).unwrap_or(Value::Null);
    let n = ips.as_array().map(|a| a.len()).unwrap_or(0);
    let o = Obs::new(json!({"ips": ips})).trivial(headers.is_empty()).tag(format!("log_ips:{}", n.min(3)));
    if ips != json!(spec_ips(&client_ip, &headers)) {
        return o.fail(format!("Log::from_proxy reports ips {ips}, the specification gives {:?}", spec_ips(&client_ip, &headers)), "log-ips-spec");
    }
    o
}

fn run_transform(case: &Value) -> Obs {
    let t: Transformer = match serde_json::from_value(json!({"type": case.get("kind"), "options": case.get("options")})) {
        Ok(t) => t,
        Err(_) => return Obs::invalid("transformer"),
    };
    let input = s(case, "s").unwrap_or_default();
    let applied = match t.to_transform() {
        Some(tr) => {
            let _ = tr.transform(input);
            true
        }
        None => false,
    };
    Obs::new(ok()).trivial(!applied).tag(format!("transform:{}", s(case, "kind").unwrap_or_default()))
}

fn run_slice(case: &Value) -> Obs {
    let bytes = match s(case, "s").and_then(|h| unhex(&h)) {
        Some(b) => b,
        None => return Obs::invalid("s"),
    };
    let text = match String::from_utf8(bytes) {
        Ok(t) => t,
        Err(_) => return Obs::invalid("s is not UTF-8"),
    };
    let from = match case.get("from").and_then(|x| x.as_u64()) {
        Some(f) => f as usize,
        None => return Obs::invalid("from"),
    };
    let to = match case.get("to") {
        None | Some(Value::Null) => None,
        Some(x) => match x.as_u64() {
            Some(t) => Some(t as usize),
            None => return Obs::invalid("to"),
        },
    };
    let out = Slice::new(from, to).transform(text.clone());
    // the same through the rule syntax (options are strings)
    let mut o = Obs::new(json!({"out": hex(out.as_bytes())})).tag("slice");
    if let Some(to) = to {
        let t: Transformer = serde_json::from_value(json!({"type": "slice", "options": {"from": from.to_string(), "to": to.to_string()}})).unwrap();
        let out2 = t.to_transform().map(|tr| tr.transform(text.clone()));
        if out2.as_deref() != Some(out.as_str()) {
            o = o.fail("api::Transformer(slice) differs from marker::Slice", "slice-options");
        }
    }
    if !text.contains(out.as_str()) {
        o = o.fail("output is not a substring of the input", "slice-substring");
    }
    o
}

// ---- the C API

struct CStrs(Vec<CString>);
impl CStrs {
    fn new() -> Self {
        CStrs(Vec::new())
    }
    /// a NUL-terminated copy that lives as long as `self`
    fn c(&mut self, bytes: &[u8]) -> *const c_char {
        let clean: Vec<u8> = bytes.iter().cloned().filter(|b| *b != 0).collect();
        self.0.push(CString::new(clean).unwrap());
        self.0.last().unwrap().as_ptr()
    }
}

const ACTION_JSON: &str = r#"{"status_code_update":{"status_code":301,"on_response_status_codes":[],"exclude_response_status_codes":false,"fallback_status_code":0,"rule_id":"r","fallback_rule_id":null,"unit_id":null,"target_hash":null},"header_filters":[{"filter":{"action":"override","header":"Location","value":"/t","id":null,"target_hash":null},"on_response_status_codes":[],"exclude_response_status_codes":false,"rule_id":"r"}],"body_filters":[{"filter":{"action":"append_text","content":"x","id":null,"target_hash":null},"on_response_status_codes":[],"exclude_response_status_codes":false,"rule_id":"r"}],"rule_ids":["r"],"rule_traces":[],"rules_applied":[],"log_override":null}"#;

unsafe fn free_c_string(p: *const c_char) {
    if !p.is_null() {
        drop(unsafe { CString::from_raw(p as *mut c_char) });
    }
}

unsafe fn free_header_map(mut h: *const CHeaderMap) {
    while !h.is_null() {
        let node = unsafe { Box::from_raw(h as *mut CHeaderMap) };
        unsafe {
            free_c_string(node.name);
            free_c_string(node.value);
        }
        h = node.next;
    }
}

/// One function under one null pattern; the non-null arguments are valid.  Returns whether the function visibly
/// took an early exit (Some(bool)) when that is observable from the return value, None otherwise.
fn run_ffi_null(case: &Value) -> Obs {
    let name = s(case, "fn").unwrap_or_default();
    let nulls: Vec<bool> = arr(case, "nulls").iter().map(|b| b.as_bool().unwrap_or(false)).collect();
    let want = FFI_FUNCS.iter().find(|(n, _)| *n == name).map(|(_, k)| *k);
    if want != Some(nulls.len()) {
        return Obs::invalid("ffi_null: unknown function or wrong pattern length");
    }
    let n = |i: usize| nulls[i];
    let mut cs = CStrs::new();
    let early: Option<bool> = unsafe {
        // valid objects
        let action = redirectionio_action_json_deserialize(cs.c(ACTION_JSON.as_bytes()) as *mut c_char) as *mut Action;
        let request = redirectionio_request_from_str(cs.c(b"http://example.org/a?b=c")) as *mut Request;
        let hname = cs.c(b"Content-Type");
        let hvalue = cs.c(b"text/html");
        let mut node = CHeaderMap { name: hname, value: hvalue, next: null_mut() };
        let headers: *const CHeaderMap = &mut node;
        assert!(!action.is_null() && !request.is_null());
        let r = match name.as_str() {
            "redirectionio_action_json_deserialize" => {
                let a = redirectionio_action_json_deserialize(if n(0) { null_mut() } else { cs.c(ACTION_JSON.as_bytes()) as *mut c_char });
                redirectionio_action_drop(a as *mut Action);
                Some(a.is_null())
            }
            "redirectionio_action_json_serialize" => {
                let p = redirectionio_action_json_serialize(if n(0) { null_mut() } else { action });
                free_c_string(p);
                Some(p.is_null())
            }
            "redirectionio_action_drop" => {
                if n(0) {
                    redirectionio_action_drop(null_mut());
                }
                None
            }
            "redirectionio_action_get_status_code" => Some(redirectionio_action_get_status_code(if n(0) { null_mut() } else { action }, 0) == 0),
            "redirectionio_action_header_filter_filter" => {
                let h = if n(1) { null() } else { headers };
                let out = redirectionio_action_header_filter_filter(if n(0) { null_mut() } else { action }, h, 301, true);
                let same = out == h;
                if !same {
                    free_header_map(out);
                }
                // early exit returns the very pointer it was given; the normal path returns a fresh non-null list
                Some(same)
            }
            "redirectionio_action_body_filter_create" => {
                let f = redirectionio_action_body_filter_create(if n(0) { null_mut() } else { action }, 200, if n(1) { null() } else { headers });
                redirectionio_action_body_filter_drop(f as *mut FilterBodyAction);
                Some(f.is_null())
            }
            "redirectionio_action_body_filter_filter" => {
                let filter = redirectionio_action_body_filter_create(action, 200, null()) as *mut FilterBodyAction;
                let input = if n(1) { CBuffer { data: null_mut(), len: 3 } } else { std::mem::transmute::<redirectionio::filter::Buffer, CBuffer>(redirectionio::filter::Buffer::from_vec(b"abc".to_vec())) };
                let out = redirectionio_action_body_filter_filter(if n(0) { null_mut() } else { filter }, input);
                redirectionio_api_buffer_drop(out);
                if n(0) && !n(1) {
                    // a null filter duplicates and leaves the input with the caller
                    redirectionio_api_buffer_drop(input);
                }
                let tail = redirectionio_action_body_filter_close(filter);
                redirectionio_api_buffer_drop(tail);
                None
            }
            "redirectionio_action_body_filter_close" => {
                let filter = redirectionio_action_body_filter_create(action, 200, null()) as *mut FilterBodyAction;
                let b = redirectionio_action_body_filter_close(if n(0) { null_mut() } else { filter });
                let early = b.data.is_null();
                redirectionio_api_buffer_drop(b);
                if n(0) {
                    redirectionio_action_body_filter_drop(filter);
                }
                // the append_text filter of ACTION_JSON emits "x" at the end of the stream
                Some(early)
            }
            "redirectionio_action_body_filter_drop" => {
                if n(0) {
                    redirectionio_action_body_filter_drop(null_mut());
                }
                None
            }
            "redirectionio_action_should_log_request" => {
                // early exit echoes allow_log_config; ACTION_JSON has no log override, so the normal path echoes it too
                let _ = redirectionio_action_should_log_request(if n(0) { null_mut() } else { action }, false, 200);
                None
            }
            "redirectionio_request_json_deserialize" => {
                let js = redirectionio_request_json_serialize(request);
                let r = redirectionio_request_json_deserialize(if n(0) { null_mut() } else { js as *mut c_char });
                free_c_string(js);
                redirectionio_request_drop(r as *mut Request);
                Some(r.is_null())
            }
            "redirectionio_request_json_serialize" => {
                let p = redirectionio_request_json_serialize(if n(0) { null() } else { request });
                free_c_string(p);
                Some(p.is_null())
            }
            "redirectionio_request_create" => {
                let r = redirectionio_request_create(
                    if n(0) { null() } else { cs.c(b"/a") },
                    if n(1) { null() } else { cs.c(b"example.org") },
                    if n(2) { null() } else { cs.c(b"https") },
                    if n(3) { null() } else { cs.c(b"GET") },
                    if n(4) { null() } else { headers },
                );
                let isnull = r.is_null();
                redirectionio_request_drop(r as *mut Request);
                Some(isnull)
            }
            "redirectionio_trusted_proxies_create" => {
                // never freed: there is no release function (documented leak of the C API)
                Some(redirectionio_trusted_proxies_create(if n(0) { null() } else { cs.c(b"10.0.0.0/8, bad") }).is_null())
            }
            "redirectionio_trusted_proxies_add_proxy" => {
                let t = redirectionio_trusted_proxies_create(null()) as *mut CTrustedProxies;
                redirectionio_trusted_proxies_add_proxy(if n(0) { null_mut() } else { t }, if n(1) { null() } else { cs.c(b"10.0.0.0/8") });
                None
            }
            "redirectionio_request_set_remote_addr" => {
                let t = redirectionio_trusted_proxies_create(cs.c(b"10.0.0.0/8"));
                redirectionio_request_set_remote_addr(if n(0) { null_mut() } else { request }, if n(1) { null() } else { cs.c(b"10.1.2.3") }, if n(2) { null() } else { t });
                None
            }
            "redirectionio_request_from_str" => {
                let r = redirectionio_request_from_str(if n(0) { null() } else { cs.c(b"/x") });
                let isnull = r.is_null();
                redirectionio_request_drop(r as *mut Request);
                Some(isnull)
            }
            "redirectionio_request_drop" => {
                if n(0) {
                    redirectionio_request_drop(null_mut());
                }
                None
            }
            "redirectionio_api_get_rule_api_version" => {
                let p = redirectionio_api_get_rule_api_version();
                let isnull = p.is_null();
                free_c_string(p);
                Some(isnull)
            }
            "redirectionio_api_create_log_in_json" => {
                let p = redirectionio_api_create_log_in_json(
                    if n(0) { null_mut() } else { request },
                    200,
                    if n(1) { null() } else { headers },
                    if n(2) { null_mut() } else { action },
                    if n(3) { null() } else { cs.c(b"proxy") },
                    0,
                    if n(4) { null() } else { cs.c(b"10.0.0.1") },
                );
                let isnull = p.is_null();
                free_c_string(p);
                Some(isnull)
            }
            "redirectionio_api_buffer_drop" => {
                redirectionio_api_buffer_drop(if n(0) { CBuffer { data: null_mut(), len: 7 } } else { std::mem::transmute::<redirectionio::filter::Buffer, CBuffer>(redirectionio::filter::Buffer::from_vec(b"abc".to_vec())) });
                None
            }
            _ => return Obs::invalid("ffi_null: unknown function"),
        };
        redirectionio_action_drop(action);
        redirectionio_request_drop(request);
        r
    };
    Obs::new(json!({"early": early})).tag(format!("ffi_null:{}", nulls.iter().filter(|b| **b).count()))
}

fn run_ffi_str(case: &Value) -> Obs {
    let name = s(case, "fn").unwrap_or_default();
    let payload = s(case, "payload").and_then(|h| unhex(&h)).unwrap_or_default();
    let mut cs = CStrs::new();
    unsafe {
        let p = cs.c(&payload);
        match name.as_str() {
            "redirectionio_action_json_deserialize" => redirectionio_action_drop(redirectionio_action_json_deserialize(p as *mut c_char) as *mut Action),
            "redirectionio_request_json_deserialize" => redirectionio_request_drop(redirectionio_request_json_deserialize(p as *mut c_char) as *mut Request),
            "redirectionio_request_create" => {
                let r = redirectionio_request_create(p, p, p, p, null());
                let js = redirectionio_request_json_serialize(r);
                free_c_string(js);
                redirectionio_request_drop(r as *mut Request);
            }
            "redirectionio_trusted_proxies_create" => {
                let _ = redirectionio_trusted_proxies_create(p);
            }
            "redirectionio_trusted_proxies_add_proxy" => {
                let t = redirectionio_trusted_proxies_create(null()) as *mut CTrustedProxies;
                redirectionio_trusted_proxies_add_proxy(t, p);
            }
            "redirectionio_request_set_remote_addr" => {
                let r = redirectionio_request_create(cs.c(b"/"), null(), null(), null(), null()) as *mut Request;
                let mut node = CHeaderMap { name: cs.c(b"X-Forwarded-For"), value: p, next: null_mut() };
                let r2 = redirectionio_request_create(cs.c(b"/"), null(), null(), null(), &mut node) as *mut Request;
                let t = redirectionio_trusted_proxies_create(cs.c(b"10.0.0.0/8,127.0.0.1"));
                redirectionio_request_set_remote_addr(r, p, t);
                redirectionio_request_set_remote_addr(r2, cs.c(b"10.0.0.1"), t);
                redirectionio_request_set_remote_addr(r2, cs.c(b"127.0.0.1:80"), null());
                redirectionio_request_drop(r);
                redirectionio_request_drop(r2);
            }
            "redirectionio_request_from_str" => redirectionio_request_drop(redirectionio_request_from_str(p) as *mut Request),
            "redirectionio_api_create_log_in_json" => {
                let r = redirectionio_request_create(p, p, null(), null(), null()) as *mut Request;
                let mut node = CHeaderMap { name: cs.c(b"Forwarded"), value: p, next: null_mut() };
                let out = redirectionio_api_create_log_in_json(r, 200, &mut node, null_mut(), p, u64::MAX, p);
                free_c_string(out);
                redirectionio_request_drop(r);
            }
            "header_map" => {
                // a header list whose strings are arbitrary bytes (invalid UTF-8 entries are skipped by the library)
                let a = redirectionio_action_json_deserialize(cs.c(ACTION_JSON.as_bytes()) as *mut c_char) as *mut Action;
                let mut n2 = CHeaderMap { name: p, value: cs.c(b"v"), next: null_mut() };
                let mut n1 = CHeaderMap { name: cs.c(b"Content-Encoding"), value: p, next: &mut n2 };
                let out = redirectionio_action_header_filter_filter(a, &mut n1, 200, true);
                free_header_map(out);
                let f = redirectionio_action_body_filter_create(a, 200, &mut n1) as *mut FilterBodyAction;
                let b = std::mem::transmute::<redirectionio::filter::Buffer, CBuffer>(redirectionio::filter::Buffer::from_vec(payload.clone()));
                redirectionio_api_buffer_drop(redirectionio_action_body_filter_filter(f, b));
                if f.is_null() && !b.data.is_null() {
                    redirectionio_api_buffer_drop(b);
                }
                redirectionio_api_buffer_drop(redirectionio_action_body_filter_close(f));
                redirectionio_action_drop(a);
            }
            _ => return Obs::invalid("ffi_str: unknown function"),
        }
    }
    Obs::new(ok()).tag("ffi_str")
}

extern "C" fn log_cb(msg: *const c_char, _data: *const c_void, _level: i16) {
    // the message is a CString::into_raw of the library: the callback owns it
    unsafe { free_c_string(msg) };
}

static LOGGER_DATA: u8 = 0;

/// `c07 child-logger stderr callback …`: runs the sequence in this (fresh) process; exit code 0 = returned normally.
fn child_logger(seq: &[String]) {
    for step in seq {
        unsafe {
            match step.as_str() {
                "stderr" => redirectionio_log_init_stderr(),
                "callback" => redirectionio_log_init_with_callback(log_cb, &LOGGER_DATA as *const u8 as *const c_void),
                _ => std::process::exit(3),
            }
        }
    }
    // one message through whatever logger is installed
    let _ = Rule::from_json("not json");
    std::process::exit(0);
}

fn run_ffi_logger(case: &Value) -> Obs {
    let seq: Vec<String> = arr(case, "seq").iter().filter_map(|x| x.as_str().map(|s| s.to_string())).collect();
    if seq.iter().any(|s| s != "stderr" && s != "callback") || seq.len() > 4 {
        return Obs::invalid("ffi_logger seq");
    }
    let exe = match std::env::current_exe() {
        Ok(e) => e,
        Err(_) => return Obs::invalid("no current_exe"),
    };
    let status = std::process::Command::new(exe).arg("child-logger").args(&seq).stdin(std::process::Stdio::null()).stdout(std::process::Stdio::null()).stderr(std::process::Stdio::null()).status();
    let child = match status {
        Ok(st) if st.code() == Some(0) => "ok",
        Ok(_) => "abort",
        Err(_) => return Obs::invalid("cannot spawn child"),
    };
    let o = Obs::new(json!({"child": child})).tag(format!("ffi_logger:{child}"));
    if child == "abort" {
        o.fail(format!("logger initialisers {:?}: the process aborted (panic inside an extern \"C\" function)", seq), "ffi-logger-reinit")
    } else {
        o
    }
}

const RT_RULE: &str = r#"{"id":"rt","source":{"path":"/a"},"rank":0,"target":"/t/@t","status_code":302,"variables":[{"name":"t","type":"request_time"}],
  "body_filters":null,"header_filters":null,"log_override":null,"reset":null,"stop":null,"examples":null,"redirect_unit_id":null,
  "configuration_log_unit_id":null,"configuration_reset_unit_id":null,"target_hash":null}"#;

fn run_request_time(case: &Value) -> Obs {
    use chrono::{Datelike, Timelike};
    let created_at = s(case, "created_at").unwrap_or_default();
    let want: Vec<i64> = arr(case, "ymdhms").iter().filter_map(|x| x.as_i64()).collect();
    // older pinned cases carry only "year": they are checked for the panic, not for the rendered value
    let year_only = case.get("ymdhms").is_none();
    match created_at.parse::<chrono::DateTime<chrono::Utc>>() {
        Ok(dt) if year_only && case.get("year").and_then(|y| y.as_i64()) == Some(dt.year() as i64) => {}
        Ok(dt) if want == vec![dt.year() as i64, dt.month() as i64, dt.day() as i64, dt.hour() as i64, dt.minute() as i64, dt.second() as i64] && dt.nanosecond() == 0 => {}
        _ => return Obs::invalid("request_time: created_at does not parse to the stated UTC fields"),
    }
    let rule: Rule = serde_json::from_str(RT_RULE).unwrap();
    let via = s(case, "via").unwrap_or_default();
    // the rendered variable = what follows "/t/" in the Location header
    let location = |headers: Vec<(String, String)>| -> Option<String> { headers.into_iter().find(|(n, _)| n == "Location").map(|(_, v)| v.trim_start_matches("/t/").to_string()) };
    let res = std::panic::catch_unwind(|| {
        if via == "example" {
            let input: ExplainRequestInput = serde_json::from_value(json!({"router_config": {}, "rules": [serde_json::to_value(&rule).unwrap()], "max_hops": 2,
                "example": {"url": "/a", "method": null, "headers": null, "datetime": created_at, "ip_address": null, "response_status_code": null, "must_match": true, "unit_ids_applied": null}})).unwrap();
            let out = ExplainRequestOutput::create_result_without_project(input).map(|o| serde_json::to_value(&o).unwrap()).unwrap_or(Value::Null);
            location(out["response"]["headers"].as_array().cloned().unwrap_or_default().iter().map(|h| (h["name"].as_str().unwrap_or("").to_string(), h["value"].as_str().unwrap_or("").to_string())).collect())
        } else {
            let config = RouterConfig::default();
            let mut router = Router::<Rule>::from_config(config.clone());
            router.insert(rule.clone());
            let mut request = Request::from_config(&config, "/a".to_string(), None, None, None, None, None);
            request.set_created_at(Some(created_at.clone()));
            let mut action = Action::from_routes_rule(router.match_request(&request), &request, None);
            location(action.filter_headers(Vec::new(), 302, false, None).into_iter().map(|h| (h.name, h.value)).collect())
        }
    });
    match res {
        Ok(_) if year_only => Obs::new(json!({"panics": false})).tag("request_time:ok"),
        Ok(value) => Obs::new(json!({"panics": false, "value": value})).tag("request_time:ok"),
        Err(_) => Obs::new(json!({"panics": true})).tag("request_time:panic").fail(
            format!("a rule with a request_time variable panics on a request dated {created_at} (DateTime::to_rfc2822)"),
            "request-time-rfc2822",
        ),
    }
}

fn run(case: &Value) -> Obs {
    w8_watchdog::arm(10);
    let fam = s(case, "family").unwrap_or_default();
    let o = match fam.as_str() {
        "rule" => run_rule(case),
        "analysis" => run_analysis(case),
        "body" => run_body(case),
        "html" => run_html(case),
        "request" => run_request(case),
        "log" => run_log(case),
        "transform" => run_transform(case),
        "api_misc" => run_api_misc(case),
        "marker_transform" => run_marker_transform(case),
        "rule_strings" => run_rule_strings(case),
        "deep_tree" => run_deep_tree(case),
        "addr_parse" => run_addr_parse(case),
        "log_ips" => run_log_ips(case),
        "slice" => run_slice(case),
        "ffi_null" => run_ffi_null(case),
        "ffi_str" => run_ffi_str(case),
        "ffi_logger" => run_ffi_logger(case),
        "request_time" => run_request_time(case),
        _ => return Obs::invalid("family"),
    };
    o.tag(format!("family:{fam}"))
}

fn main() {
    let argv: Vec<String> = std::env::args().collect();
    if argv.get(1).map(|s| s.as_str()) == Some("child-deep") && argv.len() >= 6 {
        child_deep(&argv[2], argv[3].parse().unwrap_or(0), argv[4].parse().unwrap_or(2048), &argv[5]);
        return;
    }
    if argv.get(1).map(|s| s.as_str()) == Some("child-logger") {
        child_logger(&argv[2..]);
        return;
    }
    // HeaderFilter / FilterHeaderAction are exercised through Action::filter_headers in family `rule`
    let _ = (std::mem::size_of::<HeaderFilter>(), std::mem::size_of::<FilterHeaderAction>());
    main_with(gen, run);
}
