//! C08 — the regex prefix tree answers exactly like a linear scan: implementation side.
//! (Also the base of c12.rs, which adds its own generator.)
//!
//! case: {"mode": "beh"|"snap"|"rx"|"cp", "ic": bool, "unique": bool, "ops": [op..], "hay": [string..]}
//!   op  = ["i", pat, id, v] | ["r", id] | ["k", [id..]] | ["m", [id..], delta] | ["u", pat, delta] | ["c", limit, level|null]
//!         ("u": get_mut(pattern) and `*v += delta` on every value returned)
//!         ("m": retain with a closure that adds delta to the value through its `&mut V` and keeps the listed ids)
//!   pat = [["l", text] | ["g", body] ..]   literal text goes through regex::escape, a group is "(" body ")"
//!   unique=true: UniqueRegexTreeMap (insert under the rendered pattern; "r"/"k" carry rendered patterns)
//! obs (one entry per op):
//!   beh : {len, empty, find[per haystack, sorted], get[per pattern, sorted], iter(sorted), rem}
//!   snap: {snap: verif_snapshot(), ret: returned budget of cache, clen: number of compiled regexes, inv: true}
//!   real: like beh plus {inv: true, contents: true}; the case carries "snaps" = verif_snapshot() after every op,
//!         produced by `gen` running the real code; the driver evaluates the invariant and the model's find/get/len on
//!         that very state.  `run` re-checks that the embedded snapshots are the current ones (else the case is stale: invalid).
//!   trace: after the last op, per haystack the Trace returned by trace(haystack), parsed from its Debug rendering:
//!         {regex, count, matched, children, values(sorted)}
//!   prim: (package W1d) the ip / date / time / week-day primitives of the router through the real `RouteIp`,
//!         `RouteDateTime`, `RouteTime`, `RouteWeekday` (+ cidr / chrono parsers) vs Model/Cidr.lean, Model/TimeWindow.lean;
//!         case {"mode":"prim","kind":"ip"|"dt"|"time"|"wd"|"wdcmp", ..}, see `run_prim`.
//!   rx  : per distinct pattern {p, ok, m[per haystack], pre[[k, ok, m[..]] per scanner boundary k]} (regex crate)
//!   cp  : [common_prefix_char_size(a,b), get_prefix_with_char_size(a,n), common_prefix(a,b)]
//! Oracle evaluated on the implementation alone (beh, in-domain cases): find == linear scan of the live
//! entries with `Regex::new("^p$")`, len == number of live entries.
use redirectionio::regex_radix_tree::{verif_common_prefix_char_size, verif_get_prefix_with_char_size, RegexTreeMap, UniqueRegexTreeMap};
use regex::{Regex, RegexBuilder};
use rio_harness::*;
use serde_json::{json, Value};
use std::collections::BTreeSet;

// ---------------------------------------------------------------------------------------------
// patterns
// ---------------------------------------------------------------------------------------------

pub struct GroupDef {
    pub body: &'static str,
    pub yes: &'static [&'static str],
    pub no: &'static [&'static str],
}

/// Menu of group bodies (all inside the fragment Model/Regex.lean parses) with matching / non-matching instances.
pub const MENU: &[GroupDef] = &[
    GroupDef { body: "?:[a-z]+", yes: &["a", "xyz"], no: &["", "A", "a1"] },
    GroupDef { body: "?:[0-9]+", yes: &["0", "42"], no: &["", "4a"] },
    GroupDef { body: "?:.*", yes: &["", "a/b"], no: &[] },
    GroupDef { body: "?:.+?", yes: &["a", "a/b"], no: &[""] },
    GroupDef { body: "?:a|b", yes: &["a", "b"], no: &["ab", "c", ""] },
    GroupDef { body: "?:(a|\\-|z)+?", yes: &["a-z", "-"], no: &["", "b"] },
    GroupDef { body: "?:[a-z]{2,3}", yes: &["ab", "abc"], no: &["a", "abcd"] },
    GroupDef { body: "?:x", yes: &["x"], no: &["", "X", "xx"] },
    GroupDef { body: "?:", yes: &[""], no: &["a"] },
    GroupDef { body: "?:([a-z]|\\-)+?JOHN", yes: &["a-JOHN", "zJOHN"], no: &["JOHN", "aJOH"] },
    GroupDef { body: "[a-z]+", yes: &["q", "qq"], no: &["Q", ""] },
    GroupDef { body: "?:(%[0-9A-Z]{2})+?", yes: &["%AB", "%0F%10"], no: &["%a", "%A"] },
    GroupDef { body: "?:[^/]+", yes: &["a.b", "日"], no: &["a/b", ""] },
    GroupDef { body: "?:ab?c*", yes: &["a", "abcc"], no: &["b", ""] },
    GroupDef { body: "?:\\(x\\)", yes: &["(x)"], no: &["x"] },
    GroupDef { body: "?:[A-Z][a-z]*", yes: &["Ab", "Q"], no: &["ab"] },
    GroupDef { body: "?:(?:a|bc)*d", yes: &["d", "abcd"], no: &["bd", ""] },
    GroupDef { body: "?:[a-c\\-_]{1,}", yes: &["a-b_", "c"], no: &["d", ""] },
    GroupDef { body: "?:.{2}", yes: &["ab", "🤘/"], no: &["a", "abc"] },
    GroupDef { body: "?:(a+)(b?)", yes: &["aab", "a"], no: &["b"] },
    GroupDef { body: "?:[а-я]+", yes: &["жук", "я"], no: &["zhuk", ""] },
    GroupDef { body: "?:é+", yes: &["é", "éé"], no: &["e", ""] },
    GroupDef { body: "?:[a-zß-ÿ]+", yes: &["straße", "é", "ks"], no: &["", "٤"] },
    GroupDef { body: "?:σ|ж", yes: &["σ", "ж"], no: &["s", ""] },
    // Unicode-aware classes (tables in Model/Regex.lean, validated here in mode rx)
    GroupDef { body: "?:\\w+", yes: &["é", "Ж9", "日本", "٤٢", "a_b", "ǅ", "e\u{301}"], no: &["", "-", "🤘"] },
    GroupDef { body: "?:\\d+", yes: &["٤٢", "42", "４２", "४२"], no: &["", "a", "٤a"] },
    GroupDef { body: "?:\\S+", yes: &["é", "Жук", "🤘"], no: &["", "é\u{a0}x", "é x", "\u{2003}"] },
    GroupDef { body: "?:\\s", yes: &[" ", "\u{a0}", "\u{2003}", "\t"], no: &["a", "", "_"] },
    GroupDef { body: "?:\\W", yes: &["-", "🤘", " ", "€"], no: &["é", "٤", "a", "_"] },
    GroupDef { body: "?:\\D+", yes: &["é", "ab", "-"], no: &["٤", "4", "४"] },
    GroupDef { body: "?:\\pL+", yes: &["é", "Жук", "日本", "ſ"], no: &["٤", "", "_", "e\u{301}"] },
    GroupDef { body: "?:[[:alpha:]]+", yes: &["ab", "Z"], no: &["é", "", "1"] },
    GroupDef { body: "?:[[:digit:]x]{2}", yes: &["4x", "00"], no: &["٤٢", "ab"] },
];

/// Groups with an unescaped parenthesis inside a character class (DESIGN §6-O1): valid regexes that the
/// tree's scanner mis-brackets.  Only generated when asked for (`--class-paren`) or pinned.
pub const CP_MENU: &[GroupDef] = &[
    GroupDef { body: "?:[)]a", yes: &[")a"], no: &["a"] },
    GroupDef { body: "?:[)]b", yes: &[")b"], no: &["b"] },
    GroupDef { body: "?:[(]x", yes: &["(x"], no: &["x"] },
];

const LITS: &[char] = &[
    '/', '/', '/', 'a', 'a', 'b', 'c', 'A', 'B', 'z', '.', '-', '_', '%', '(', ')', '\\', '\\', '[', ']', '+', '*', '?', '{', '}', '|', '^', '$', '#',
    '&', '~', '日', '🤘', '€', ' ', '1', '=',
    // cased non-ASCII letters (simple case folding is modelled for these: Model/Regex.lean `caseOrbit`), 2/3-byte
    'é', 'É', 'ü', 'Ü', 'ж', 'Ж', 'σ', 'Σ', 'ς', 'ß', 'ẞ', '\u{212A}', 'ſ', 'İ', 'ǅ', 'k', 's', '٤',
];

#[derive(Clone, Debug, PartialEq)]
pub enum Tok {
    L(String),
    G(String),
}

pub type Pat = Vec<Tok>;

pub fn pat_json(p: &Pat) -> Value {
    Value::Array(
        p.iter()
            .map(|t| match t {
                Tok::L(s) => json!(["l", s]),
                Tok::G(b) => json!(["g", b]),
            })
            .collect(),
    )
}

pub fn parse_pat(v: &Value) -> Option<Pat> {
    let mut out = Vec::new();
    for t in v.as_array()? {
        let a = t.as_array()?;
        if a.len() != 2 {
            return None;
        }
        match (a[0].as_str()?, a[1].as_str()?) {
            ("l", s) => out.push(Tok::L(s.to_string())),
            ("g", s) => out.push(Tok::G(s.to_string())),
            _ => return None,
        }
    }
    Some(out)
}

/// The regex string the tree is given: `regex::escape` on literal text, "(" body ")" for a group.
pub fn render(p: &Pat) -> String {
    let mut s = String::new();
    for t in p {
        match t {
            Tok::L(l) => s.push_str(&regex::escape(l)),
            Tok::G(b) => {
                s.push('(');
                s.push_str(b);
                s.push(')');
            }
        }
    }
    s
}

fn group_def(body: &str) -> Option<&'static GroupDef> {
    MENU.iter().chain(CP_MENU.iter()).find(|g| g.body == body)
}

/// A string the pattern matches (or, with `near`, a near miss).
pub fn instantiate(p: &Pat, rng: &mut Prng, near: bool) -> String {
    let mut s = String::new();
    for t in p {
        match t {
            Tok::L(l) => s.push_str(l),
            Tok::G(b) => match group_def(b) {
                Some(g) => {
                    if near && !g.no.is_empty() && rng.chance(1, 3) {
                        s.push_str(*rng.pick(g.no));
                    } else if !g.yes.is_empty() {
                        s.push_str(*rng.pick(g.yes));
                    }
                }
                None => s.push('x'),
            },
        }
    }
    if near {
        let cs: Vec<char> = s.chars().collect();
        match rng.below(10) {
            6 => s = s.to_ascii_uppercase(),
            7 => s = s.to_ascii_lowercase(),
            8 => s = s.to_uppercase(),
            9 => s = s.to_lowercase(),
            0 if !cs.is_empty() => s = cs[..cs.len() - 1].iter().collect(),
            1 => s.push('x'),
            2 if !cs.is_empty() => {
                let i = rng.below(cs.len());
                let mut c2 = cs.clone();
                c2[i] = if c2[i].is_ascii_lowercase() { c2[i].to_ascii_uppercase() } else { c2[i].to_ascii_lowercase() };
                s = c2.into_iter().collect();
            }
            3 if !cs.is_empty() => {
                let i = rng.below(cs.len());
                s = cs[..i].iter().collect();
            }
            4 => s.push('/'),
            _ => {}
        }
    }
    s
}

fn rand_lit(rng: &mut Prng) -> Tok {
    let n = rng.range(1, 3);
    Tok::L((0..n).map(|_| *rng.pick(LITS)).collect())
}

fn rand_group(rng: &mut Prng, class_paren: bool) -> Tok {
    if class_paren && rng.chance(1, 2) {
        Tok::G(rng.pick(CP_MENU).body.to_string())
    } else {
        Tok::G(rng.pick(MENU).body.to_string())
    }
}

fn rand_tok(rng: &mut Prng, class_paren: bool) -> Tok {
    if rng.chance(2, 5) {
        rand_group(rng, class_paren)
    } else {
        rand_lit(rng)
    }
}

/// A family of patterns built to share prefixes and to diverge at special positions.
pub fn pattern_pool(rng: &mut Prng, class_paren: bool) -> Vec<Pat> {
    let mut pool: Vec<Pat> = Vec::new();
    let nbase = rng.range(1, 2);
    for _ in 0..nbase {
        let n = rng.range(1, 5);
        let mut base: Pat = Vec::new();
        if rng.chance(4, 5) {
            base.push(Tok::L("/".to_string()));
        }
        for _ in 0..n {
            base.push(rand_tok(rng, class_paren));
        }
        pool.push(base);
    }
    let target = rng.range(2, 7);
    let mut guard = 0;
    while pool.len() < target && guard < 50 {
        guard += 1;
        let src = rng.pick(&pool).clone();
        let mut p = src.clone();
        match rng.below(8) {
            0 => {
                // a proper prefix (token boundary)
                if p.len() > 1 {
                    let k = rng.range(1, p.len() - 1);
                    p.truncate(k);
                }
            }
            1 => {
                // an extension
                for _ in 0..rng.range(1, 2) {
                    p.push(rand_tok(rng, class_paren));
                }
            }
            2 => {
                // diverge at token k with another token, keep the tail
                let k = rng.below(p.len());
                p[k] = rand_tok(rng, class_paren);
            }
            3 => {
                // diverge at token k, drop the tail
                let k = rng.below(p.len());
                p.truncate(k);
                p.push(rand_tok(rng, class_paren));
            }
            4 => {
                // change the last char of a literal (diverge after an escape when both are meta characters)
                let k = rng.below(p.len());
                if let Tok::L(s) = &p[k] {
                    let mut cs: Vec<char> = s.chars().collect();
                    let last = cs.len() - 1;
                    cs[last] = *rng.pick(&['.', '-', '(', ')', '\\', 'a', 'A', '日', '🤘']);
                    p[k] = Tok::L(cs.into_iter().collect());
                }
            }
            5 => {
                // cut a literal in the middle (prefix inside a literal chunk)
                let k = rng.below(p.len());
                if let Tok::L(s) = &p[k] {
                    let cs: Vec<char> = s.chars().collect();
                    if cs.len() > 1 {
                        p[k] = Tok::L(cs[..cs.len() - 1].iter().collect());
                        p.truncate(k + 1);
                    }
                }
            }
            6 => {
                // swap a group for another one (diverge inside / at a group)
                let idx: Vec<usize> = p.iter().enumerate().filter(|(_, t)| matches!(t, Tok::G(_))).map(|(i, _)| i).collect();
                if !idx.is_empty() {
                    let k = *rng.pick(&idx);
                    p[k] = rand_group(rng, class_paren);
                } else {
                    p.push(rand_group(rng, class_paren));
                }
            }
            _ => {
                // case variant of a literal
                let k = rng.below(p.len());
                if let Tok::L(s) = &p[k] {
                    p[k] = Tok::L(if rng.chance(1, 2) {
                        s.chars().map(|c| if c.is_ascii_lowercase() { c.to_ascii_uppercase() } else { c.to_ascii_lowercase() }).collect()
                    } else if rng.chance(1, 2) {
                        s.to_uppercase()
                    } else {
                        s.to_lowercase()
                    });
                }
            }
        }
        if !p.is_empty() && !render(&p).is_empty() && !pool.iter().any(|q| render(q) == render(&p)) {
            pool.push(p);
        }
    }
    pool
}

/// Haystacks that are the stored pattern's own SOURCE text: the regex string itself, the string of a token prefix (a node prefix),
/// the un-escaped text (literals as written, groups with their parentheses) and the doubly escaped regex string.  A lookup that
/// confuses the haystack with the pattern text (e.g. compares against `original` instead of matching) shows only on these.
pub fn source_haystacks(p: &Pat, rng: &mut Prng) -> Vec<String> {
    let r = render(p);
    let mut out = vec![r.clone(), regex::escape(&r)];
    if p.len() > 1 {
        out.push(render(&p[..rng.range(1, p.len() - 1)].to_vec()));
    }
    let mut raw = String::new();
    for t in p {
        match t {
            Tok::L(l) => raw.push_str(l),
            Tok::G(b) => {
                raw.push('(');
                raw.push_str(b);
                raw.push(')');
            }
        }
    }
    out.push(raw);
    out
}

pub fn haystacks(pool: &[Pat], rng: &mut Prng, n: usize) -> Vec<String> {
    let mut hs: Vec<String> = Vec::new();
    for p in pool {
        hs.push(instantiate(p, rng, false));
    }
    while hs.len() < n {
        let p = rng.pick(pool).clone();
        let near = rng.chance(1, 2);
        hs.push(instantiate(&p, rng, near));
    }
    hs.truncate(n.max(pool.len()));
    // the source texts of up to three of the patterns
    for _ in 0..3.min(pool.len()) {
        let p = rng.pick(pool).clone();
        for h in source_haystacks(&p, rng) {
            if !hs.contains(&h) {
                hs.push(h);
            }
        }
    }
    hs
}

// ---------------------------------------------------------------------------------------------
// generator
// ---------------------------------------------------------------------------------------------

pub fn ids_of(pool: &[Pat], unique: bool) -> Vec<Vec<String>> {
    pool.iter().enumerate().map(|(i, p)| if unique { vec![render(p)] } else { vec![format!("i{i}"), format!("j{i}")] }).collect()
}

/// Random history over the pool. `cache_w`: weight (out of 20) of cache ops.
pub fn history(pool: &[Pat], unique: bool, rng: &mut Prng, nops: usize, cache_w: usize) -> Vec<Value> {
    let ids = ids_of(pool, unique);
    let all_ids: Vec<String> = ids.iter().flatten().cloned().collect();
    let mut ops = Vec::new();
    let mut used: Vec<String> = Vec::new();
    for _ in 0..nops {
        let r = rng.below(20);
        if r < cache_w {
            let limit = *rng.pick(&[0u64, 1, 1, 2, 3, 5, 100]);
            let level = match rng.below(6) {
                0 | 1 => Value::Null,
                k => json!(k - 2),
            };
            ops.push(json!(["c", limit, level]));
        } else if r < cache_w + 3 && !used.is_empty() {
            let id = if rng.chance(4, 5) { rng.pick(&used).clone() } else { rng.pick(&all_ids).clone() };
            ops.push(json!(["r", id]));
        } else if r == 19 && !used.is_empty() && rng.chance(1, 2) {
            // get_mut(pattern) + update
            let pi = rng.below(pool.len());
            ops.push(json!(["u", pat_json(&pool[pi]), rng.range(1, 9) * 1000]));
        } else if r < cache_w + 5 && !used.is_empty() {
            let keep: Vec<String> = all_ids.iter().filter(|_| rng.chance(3, 5)).cloned().collect();
            if rng.chance(1, 3) {
                ops.push(json!(["m", keep, rng.range(1, 3) * 100]));
            } else {
                ops.push(json!(["k", keep]));
            }
        } else {
            let pi = rng.below(pool.len());
            // an id normally belongs to one pattern; rarely break that on purpose (out of the property's domain)
            let id = if !unique && rng.chance(1, 60) { rng.pick(&all_ids).clone() } else { rng.pick(&ids[pi]).clone() };
            used.push(id.clone());
            ops.push(json!(["i", pat_json(&pool[pi]), id, rng.below(40)]));
        }
    }
    ops
}

fn permutations(n: usize) -> Vec<Vec<usize>> {
    fn rec(cur: &mut Vec<usize>, used: &mut Vec<bool>, n: usize, out: &mut Vec<Vec<usize>>) {
        if cur.len() == n {
            out.push(cur.clone());
            return;
        }
        for i in 0..n {
            if !used[i] {
                used[i] = true;
                cur.push(i);
                rec(cur, used, n, out);
                cur.pop();
                used[i] = false;
            }
        }
    }
    let mut out = Vec::new();
    rec(&mut Vec::new(), &mut vec![false; n], n, &mut out);
    out
}

fn subsets_of_size(n: usize, k: usize) -> Vec<Vec<usize>> {
    fn rec(start: usize, n: usize, k: usize, cur: &mut Vec<usize>, out: &mut Vec<Vec<usize>>) {
        if cur.len() == k {
            out.push(cur.clone());
            return;
        }
        for i in start..n {
            cur.push(i);
            rec(i + 1, n, k, cur, out);
            cur.pop();
        }
    }
    let mut out = Vec::new();
    rec(0, n, k, &mut Vec::new(), &mut out);
    out
}

/// The pool of the exhaustive tier: built to diverge after an escape, inside a group, at a group boundary,
/// with one pattern a prefix of another, with a non-ASCII literal, and with a pattern equal to a node prefix.
pub fn exh_pool() -> Vec<Pat> {
    let l = |s: &str| Tok::L(s.to_string());
    let g = |s: &str| Tok::G(s.to_string());
    vec![
        vec![l("/a"), g("?:x")],
        vec![l("/a"), g("?:x"), l("/b")],
        vec![l("/a"), g("?:x"), l("/c")],
        vec![l("/a"), g("?:[a-z]+"), l("/b")],
        vec![l("/a.b")],
        vec![l("/a-b")],
        vec![l("/日"), g("?:[0-9]+")],
        vec![l("/日"), g("?:[0-9]+"), l("日")],
        vec![l("/a"), g("?:x"), g("?:a|b")],
        vec![l("/")],
    ]
}

/// Second exhaustive pool: literal backslashes and escaped parentheses next to groups (the scanner's escape state).
pub fn exh_pool_escapes() -> Vec<Pat> {
    let l = |s: &str| Tok::L(s.to_string());
    let g = |s: &str| Tok::G(s.to_string());
    vec![
        vec![l("/a\\"), g("?:x"), l("/b")],
        vec![l("/a\\"), g("?:x"), l("/c")],
        vec![l("/a\\"), g("?:x|y")],
        vec![l("/a\\(b")],
        vec![l("/a("), g("?:x")],
        vec![l("/a\\")],
    ]
}

pub fn exh_haystacks_escapes() -> Vec<String> {
    ["/a\\x/b", "/a\\x/c", "/a\\x", "/a\\y", "/a\\(b", "/a(x", "/a\\", "/a", "/A\\X/B", "/a\\\\(?:x)/b", "/a\\\\(?:x|y)", "/a\\(?:x)/b", "/a\\\\"]
        .iter()
        .map(|s| s.to_string())
        .collect()
}

pub fn exh_haystacks() -> Vec<String> {
    // … and pattern source texts (regex string, doubly escaped, un-escaped)
    ["/ax", "/ax/b", "/ax/c", "/ay/b", "/a.b", "/a-b", "/日42", "/日7日", "/axa", "/", "/a", "/AX/B", "", "/a(?:x)", "/a(?:x)/b", "/a\\.b", "/a\\\\\\.b", "/日(?:[0-9]+)"]
        .iter()
        .map(|s| s.to_string())
        .collect()
}

/// Run the op list on the REAL tree and return `verif_snapshot()` after every op (used by `gen` for mode real).
pub fn real_snapshots(ic: bool, unique: bool, ops: &[Value]) -> Option<Vec<Value>> {
    let case = json!({"ops": ops});
    let (parsed, _) = parse_ops(&case, unique)?;
    let mut tree = Tree::new(unique, ic);
    let mut snaps = Vec::new();
    for op in &parsed {
        match op {
            Op::Ins(p, id, v) => tree.insert(p, id, *v),
            Op::Rem(id) => {
                tree.remove(id);
            }
            Op::Keep(keep) => tree.retain(keep),
            Op::Mut(keep, delta) => tree.retain_mut(keep, *delta),
            Op::Upd(p, delta) => tree.update(p, *delta),
            Op::Cache(limit, level) => {
                tree.cache(*limit, *level);
            }
        }
        snaps.push(tree.snapshot());
    }
    Some(snaps)
}

pub fn emit_modes(emit: &mut dyn FnMut(Value), ic: bool, unique: bool, ops: &[Value], hay: &[String], exh: bool, modes: &[&str]) {
    for m in modes {
        let mut c = json!({"mode": m, "ic": ic, "unique": unique, "ops": ops, "hay": hay});
        if *m == "real" {
            match real_snapshots(ic, unique, ops) {
                Some(s) => c["snaps"] = Value::Array(s),
                None => continue,
            }
        }
        if exh {
            c["exh"] = json!(true);
        }
        emit(c);
    }
}

pub fn gen_exhaustive(emit: &mut dyn FnMut(Value), max_k: usize) {
    gen_exhaustive_pool(emit, max_k, &exh_pool(), &exh_haystacks());
    gen_exhaustive_pool(emit, max_k, &exh_pool_escapes(), &exh_haystacks_escapes());
}

fn gen_exhaustive_pool(emit: &mut dyn FnMut(Value), max_k: usize, pool: &[Pat], hay: &[String]) {
    let ids: Vec<String> = (0..pool.len()).map(|i| format!("i{i}")).collect();
    for k in 1..=max_k {
        let perms = permutations(k);
        for sub in subsets_of_size(pool.len(), k) {
            for perm in &perms {
                let inserts: Vec<Value> = perm.iter().map(|&j| json!(["i", pat_json(&pool[sub[j]]), ids[sub[j]], sub[j]])).collect();
                for mask in 0u32..(1 << k) {
                    let mut ops = inserts.clone();
                    for (b, &pi) in sub.iter().enumerate() {
                        if mask & (1 << b) != 0 {
                            ops.push(json!(["r", ids[pi]]));
                        }
                    }
                    // the behaviour of the same history on a case-insensitive tree differs only in the matcher
                    // mode real carries the snapshots in the case: for 4-subsets only without removals and with one removal
                    if k <= 3 || mask.count_ones() <= 1 {
                        emit_modes(emit, false, false, &ops, hay, true, &["beh", "snap", "real"]);
                    } else {
                        emit_modes(emit, false, false, &ops, hay, true, &["beh", "snap"]);
                    }
                }
            }
        }
    }
}

// ---------------------------------------------------------------------------------------------
// diff-directed search hints (VERIF_HINTS): sizes n-1, n, n+1 and literals mentioned by the changed source lines
// ---------------------------------------------------------------------------------------------

const ALL_TREE_MODES: &[&str] = &["beh", "snap", "real", "trace", "rx"];

/// Hinted strings plus their upper / lower-cased variants (deduplicated, non-empty).
pub fn hint_strings(h: &Hints) -> Vec<String> {
    let mut out: Vec<String> = Vec::new();
    for t in &h.strs {
        for v in [t.clone(), t.to_uppercase(), t.to_lowercase()] {
            if !v.is_empty() && !out.contains(&v) {
                out.push(v);
            }
        }
    }
    out
}

/// The model's case folding covers ASCII and a fixed set of letters: with other cased non-ASCII characters run case-sensitively.
pub fn hint_ic_ok(t: &str) -> bool {
    // mirrors Model/Regex.lean `caseOrbit`: ASCII, Latin-1, ſ İ ı Ǆ ǅ ǆ Ÿ, Greek Α–ω, Cyrillic А–я, ß ẞ, Kelvin, Ångström; anything uncased
    t.chars().all(|c| {
        let n = c as u32;
        n < 0x100
            || "ſİıǄǅǆŸẞ\u{212A}\u{212B}".contains(c)
            || (0x391..=0x3C9).contains(&n)
            || (0x410..=0x44F).contains(&n)
            || (!c.is_lowercase() && !c.is_uppercase() && c.to_lowercase().eq(std::iter::once(c)) && c.to_uppercase().eq(std::iter::once(c)))
    })
}

fn ins(p: &Pat, id: &str, v: usize) -> Value {
    json!(["i", pat_json(p), id, v])
}

/// Hint-directed histories for the tree (all tree modes).  `cache_dense`: interleave cache ops (C12).
pub fn gen_hinted_tree(h: &Hints, rng: &mut Prng, emit: &mut dyn FnMut(Value), cache_dense: bool) {
    let l = |s: &str| Tok::L(s.to_string());
    let g = |s: &str| Tok::G(s.to_string());
    let sizes = h.sizes(48);
    let cache_ops = |n: usize| -> Vec<Value> {
        let mut v = Vec::new();
        for lim in [n.saturating_sub(1), n, n + 1] {
            v.push(json!(["c", lim, Value::Null]));
            for lvl in [n.saturating_sub(1), n, n + 1] {
                if lvl <= 6 {
                    v.push(json!(["c", lim, lvl]));
                }
            }
        }
        v
    };
    let emit_hist = |emit: &mut dyn FnMut(Value), pool: &[Pat], mut ops: Vec<Value>, extra_hay: &[String], ic: bool, unique: bool, rng: &mut Prng| {
        if cache_dense {
            // a warm-up after every third op
            let mut with = Vec::new();
            for (i, o) in ops.iter().enumerate() {
                with.push(o.clone());
                if i % 3 == 2 {
                    with.push(json!(["c", *rng.pick(&[1u64, 2, 3, 100]), Value::Null]));
                }
            }
            ops = with;
        }
        let mut hay = haystacks(pool, rng, 6);
        hay.extend(extra_hay.iter().cloned());
        hay.truncate(12);
        emit_modes(emit, ic, unique, &ops, &hay, false, ALL_TREE_MODES);
    };
    for &n in &sizes {
        // (a) n patterns under one node (diverge right after a shared prefix) and as a chain (tree depth n-1)
        let wide: Vec<Pat> = (0..n).map(|i| vec![l("/p/"), g("?:[a-z]+"), l(&format!("/{i:03}"))]).collect();
        let mut ops: Vec<Value> = wide.iter().enumerate().map(|(i, p)| ins(p, &format!("i{i}"), i)).collect();
        ops.extend(cache_ops(n));
        ops.push(json!(["r", "i0"]));
        ops.push(json!(["k", (1..n).step_by(2).map(|i| format!("i{i}")).collect::<Vec<_>>()]));
        emit_hist(emit, &wide, ops, &[], false, false, rng);
        let chain: Vec<Pat> = (0..n.min(24)).map(|i| (0..=i).map(|j| l(&format!("/{}", (b'a' + (j % 26) as u8) as char))).collect()).collect();
        let mut ops: Vec<Value> = chain.iter().enumerate().map(|(i, p)| ins(p, &format!("i{i}"), i)).collect();
        ops.extend(cache_ops(n));
        for i in (0..chain.len()).rev().step_by(2) {
            ops.push(json!(["r", format!("i{i}")]));
        }
        emit_hist(emit, &chain, ops, &[], rng.chance(1, 2), false, rng);
        // (b) n ids in one leaf (+ a sibling), value updates, mutating retain, removals
        let p0: Pat = vec![l("/ids/"), g("?:x")];
        let p1: Pat = vec![l("/ids/"), g("?:x"), l("/y")];
        let mut ops: Vec<Value> = (0..n).map(|i| ins(&p0, &format!("i{i}"), i)).collect();
        ops.push(ins(&p1, "z", 999));
        ops.push(ins(&p0, &format!("i{}", n - 1), 777)); // replace
        ops.push(json!(["u", pat_json(&p0), 1000]));
        ops.push(json!(["m", (0..n).filter(|i| i % 3 != 0).map(|i| format!("i{i}")).collect::<Vec<_>>(), 100]));
        ops.extend(cache_ops(n).into_iter().take(4));
        for i in 0..n {
            ops.push(json!(["r", format!("i{i}")]));
        }
        emit_hist(emit, &[p0, p1], ops, &[], false, false, rng);
        // (c) shared literal prefix of n chars – ASCII (n bytes) and non-ASCII (n chars = 2n bytes; n bytes = n/2 chars) –
        //     with the divergence at n-1, n, n+1, re-insert of the pattern that equals the node prefix (D11 shape)
        for unit in ["a", "é", "日", "\\", "."] {
            let reps = if unit == "a" || unit.len() == 1 { vec![n] } else { vec![n, (n / unit.len()).max(1)] };
            for k in reps {
                let pre: String = unit.repeat(k);
                let pa: Pat = vec![l("/"), l(&pre)];
                let pb: Pat = vec![l("/"), l(&pre), g("?:[0-9]+")];
                let pc: Pat = vec![l("/"), l(&pre), l("x")];
                let pd: Pat = vec![l("/"), l(&unit.repeat(k.saturating_sub(1))), l("z")];
                let ops = vec![ins(&pb, "b", 1), ins(&pa, "a", 2), ins(&pa, "a", 3), ins(&pc, "c", 4), ins(&pd, "d", 5), json!(["c", n, Value::Null]),
                    ins(&pa, "a2", 6), json!(["r", "a"]), ins(&pb, "b", 7), json!(["r", "d"])];
                emit_hist(emit, &[pa, pb, pc, pd], ops, &[format!("/{pre}"), format!("/{pre}7"), format!("/{}", unit.repeat(k + 1))], false, rng.chance(1, 4), rng);
            }
        }
        // (d) group nesting depth n, bounded repetition {n-1,n+1}, class of n ranges
        if n <= 14 {
            let nested = format!("?:{}x{}", "(?:".repeat(n), ")".repeat(n));
            let cap = format!("{}x{}", "(".repeat(n.saturating_sub(1)), ")".repeat(n.saturating_sub(1)));
            let rep = format!("?:[a-z]{{{},{}}}", n.saturating_sub(1), n + 1);
            let pool: Vec<Pat> = vec![vec![l("/n"), g(&nested)], vec![l("/n"), g(&nested), l("/t")], vec![l("/n"), g(&cap), l("u")], vec![l("/r"), g(&rep)], vec![l("/r"), g(&rep), l("-")]];
            let ops: Vec<Value> = pool.iter().enumerate().map(|(i, p)| ins(p, &format!("i{i}"), i)).collect();
            emit_hist(emit, &pool, ops, &["/nx".to_string(), "/nx/t".to_string(), format!("/r{}", "a".repeat(n)), format!("/r{}", "a".repeat(n + 2)), format!("/r{}", "a".repeat(n.saturating_sub(2)))], false, false, rng);
        }
        // (e) n ops of a random history; haystacks of n chars / n bytes
        let pool = pattern_pool(rng, false);
        let ops = history(&pool, false, rng, n, if cache_dense { 8 } else { 3 });
        emit_hist(emit, &pool, ops, &["a".repeat(n), "é".repeat(n), "é".repeat((n / 2).max(1)), format!("/{}", "🤘".repeat((n / 4).max(1)))], rng.chance(1, 2), false, rng);
        // scanner: n-deep parentheses, n backslashes
        for (a, b) in [("(".repeat(n) + "a" + &")".repeat(n), "(".repeat(n) + "b"), ("\\".repeat(n) + "(a)", "\\".repeat(n) + "(b)"), ("é".repeat(n) + "(x)y", "é".repeat(n) + "(x)z"),
            (")".repeat(n) + &"(".repeat(n) + "a", ")".repeat(n) + &"(".repeat(n) + "b")] {
            for k in [n.saturating_sub(1), n, n + 1] {
                emit(json!({"mode": "cp", "a": a, "b": b, "n": k}));
            }
        }
    }
    // strings: as literal, next to / inside a group, as id, in haystacks, at the divergence point, in the scanner
    for t in hint_strings(h) {
        let ic = hint_ic_ok(&t) && rng.chance(1, 2);
        let esc = regex::escape(&t);
        let pool: Vec<Pat> = vec![
            vec![l("/"), l(&t)],
            vec![l("/"), l(&t), g("?:[a-z]+")],
            vec![l("/"), l(&t), g("?:[a-z]+"), l(&t)],
            vec![l("/"), g(&format!("?:{esc}|x")), l("/e")],
            vec![l("/"), g(&format!("?:{esc}|x")), l("/f")],
            vec![l("/"), l(&t), l(&t)],
            vec![l("/q"), g("?:.*"), l(&t)],
        ];
        let ids: Vec<String> = vec![t.clone(), format!("{t}{t}"), "i2".into(), "i3".into(), "i4".into(), format!("x{t}"), "i6".into()];
        let mut ops: Vec<Value> = pool.iter().zip(ids.iter()).enumerate().map(|(i, (p, id))| ins(p, id, i)).collect();
        ops.push(ins(&pool[0], &t, 50));
        ops.push(json!(["c", 3, Value::Null]));
        ops.push(json!(["u", pat_json(&pool[1]), 500]));
        ops.push(json!(["m", [t.clone(), format!("x{t}"), "i3"], 100]));
        ops.push(json!(["r", t.clone()]));
        ops.push(json!(["k", [format!("x{t}")]]));
        let hay = vec![format!("/{t}"), format!("/{t}abc"), format!("/{t}abc{t}"), format!("/{t}/e"), format!("/x/f"), format!("/{t}{t}"), format!("/q{t}"), format!("/q/{t}{t}"), t.clone(), format!("/{}", t.to_uppercase())];
        emit_hist(emit, &pool, ops.clone(), &hay, ic, false, rng);
        // the same patterns in a unique map (id = pattern)
        let uops: Vec<Value> = pool.iter().enumerate().map(|(i, p)| ins(p, "", i)).chain(std::iter::once(json!(["r", render(&pool[0])]))).collect();
        emit_hist(emit, &pool, uops, &hay, ic, true, rng);
        for (a, b) in [(format!("{esc}(a)"), format!("{esc}(b)")), (format!("({esc})a"), format!("({esc})b")), (t.clone(), t.clone()), (format!("a{t}"), format!("a{t}{t}")), (format!("{t}\\("), format!("{t}\\)"))] {
            emit(json!({"mode": "cp", "a": a, "b": b, "n": t.chars().count()}));
        }
    }
}

/// Hint-directed cases for the ip / date / time / week-day primitives.
pub fn gen_hinted_prim(h: &Hints, emit: &mut dyn FnMut(Value)) {
    for &n in &h.sizes(200) {
        let n32 = n as u32;
        if n <= 129 {
            // prefix length n (both families), address just inside / outside
            if n <= 33 {
                let mask: u32 = if n == 0 || n > 32 { u32::MAX } else { u32::MAX << (32 - n32.min(32)) };
                let base = 0xC0A8_5A5Au32 & mask;
                for addr in [base, base | !mask, (base | !mask).wrapping_add(1), base.wrapping_sub(1)] {
                    emit(json!({"mode": "prim", "kind": "ip", "cidr": format!("{}/{}", v4_text(base), n), "neg": false, "addr": v4_text(addr)}));
                }
            }
            let mask: u128 = if n == 0 || n > 128 { u128::MAX } else { u128::MAX << (128 - n32.min(128)) };
            let base = 0x2001_0db8_85a3_5a5a_a5a5_8a2e_0370_7334u128 & mask;
            for addr in [base, base | !mask, (base | !mask).wrapping_add(1), base.wrapping_sub(1)] {
                emit(json!({"mode": "prim", "kind": "ip", "cidr": format!("{}/{}", v6_text(base), n), "neg": n % 2 == 1, "addr": v6_text(addr)}));
            }
        }
        if n <= 256 {
            emit(json!({"mode": "prim", "kind": "ip", "cidr": format!("{n}.0.0.0/8"), "neg": false, "addr": format!("{n}.1.2.3")}));
            emit(json!({"mode": "prim", "kind": "ip", "cidr": format!("10.0.0.{n}"), "neg": false, "addr": format!("10.0.0.{n}")}));
        }
        // hour / minute / second / day / month = n
        for (s, e, at) in [
            (format!("{:02}:00:00", n % 100), format!("{:02}:00:00", (n + 1) % 100), format!("2024-01-01T{:02}:00:00Z", n % 24)),
            (format!("00:{:02}:00", n % 100), format!("00:{:02}:00", (n + 1) % 100), format!("2024-01-01T00:{:02}:00Z", n % 60)),
            (format!("00:00:{:02}", n % 100), format!("00:00:{:02}", (n + 1) % 100), format!("2024-01-01T00:00:{:02}Z", n % 60)),
        ] {
            emit(json!({"mode": "prim", "kind": "time", "start": s, "end": e, "at": at}));
        }
        emit(json!({"mode": "prim", "kind": "dt", "start": format!("2024-01-{:02}T00:00:00Z", n % 100), "end": format!("2024-{:02}-01T00:00:00Z", n % 100), "at": format!("2024-01-{:02}T00:00:00Z", (n % 28) + 1)}));
        let names = ["Mon", "Tue", "Wed", "Thu", "Fri", "Sat", "Sun"];
        let days: Vec<&str> = (0..n.min(20)).map(|i| names[i % 7]).collect();
        emit(json!({"mode": "prim", "kind": "wd", "days": days, "at": "2024-02-29T12:00:00Z"}));
        emit(json!({"mode": "prim", "kind": "wdcmp", "a": days, "b": days[..days.len() - 1].to_vec()}));
    }
    for t in hint_strings(h) {
        for cidr in [t.clone(), format!("10.0.0.0/{t}"), format!("{t}/8"), format!("10.0.0.0{t}/8")] {
            emit(json!({"mode": "prim", "kind": "ip", "cidr": cidr, "neg": false, "addr": "10.1.2.3"}));
        }
        emit(json!({"mode": "prim", "kind": "ip", "cidr": "10.0.0.0/8", "neg": true, "addr": t}));
        for (s, e) in [(json!(t), Value::Null), (Value::Null, json!(t)), (json!(format!("2024-01-01T00:00:00{t}")), json!("2025-01-01T00:00:00Z"))] {
            emit(json!({"mode": "prim", "kind": "dt", "start": s, "end": e, "at": "2024-06-01T00:00:00Z"}));
        }
        emit(json!({"mode": "prim", "kind": "time", "start": t, "end": format!("12:00:00{t}"), "at": "2024-06-01T06:00:00Z"}));
        emit(json!({"mode": "prim", "kind": "wd", "days": [t.clone(), "Mon".to_string(), format!("Mon{t}")], "at": "2024-06-03T06:00:00Z"}));
    }
}

fn gen(args: &Args, emit: &mut dyn FnMut(Value)) {
    let mut rng = Prng::new(args.seed);
    let h = hints();
    if !h.is_empty() {
        gen_hinted_tree(&h, &mut rng, emit, false);
        gen_hinted_prim(&h, emit);
    }
    // groups with a parenthesis inside a class (known finding class-paren): always with --class-paren, else in ~4% of the pools
    let class_paren_all = args.extra.iter().any(|a| a == "--class-paren");
    // scanner cases
    let cp_chars = ['(', ')', '\\', 'a', 'b', '[', ']', '日'];
    for _ in 0..(args.n / 4).max(20) {
        let n = rng.below(9);
        let a: String = (0..n).map(|_| *rng.pick(&cp_chars)).collect();
        let b: String = if rng.chance(1, 2) {
            let k = rng.below(a.chars().count() + 1);
            let mut s: String = a.chars().take(k).collect();
            for _ in 0..rng.below(4) {
                s.push(*rng.pick(&cp_chars));
            }
            s
        } else {
            (0..rng.below(9)).map(|_| *rng.pick(&cp_chars)).collect()
        };
        emit(json!({"mode": "cp", "a": a, "b": b, "n": rng.below(10)}));
    }
    // W1d: ip / date / time / week-day primitives
    for _ in 0..(args.n / 2).max(200) {
        gen_prim(&mut rng, emit);
    }
    if args.tier == "thorough" {
        gen_exhaustive(emit, 4);
    }
    for i in 0..args.n {
        let class_paren = class_paren_all || rng.chance(1, 25);
        let pool = pattern_pool(&mut rng, class_paren);
        let unique = rng.chance(1, 4);
        let ic = rng.chance(1, 3);
        let nops = rng.range(2, 14);
        let ops = history(&pool, unique, &mut rng, nops, 3);
        let hay = haystacks(&pool, &mut rng, 8);
        if i % 3 == 0 {
            emit_modes(emit, ic, unique, &ops, &hay, false, &["beh", "snap", "real", "rx", "trace"]);
        } else {
            emit_modes(emit, ic, unique, &ops, &hay, false, &["beh", "snap", "real"]);
        }
    }
}

// ---------------------------------------------------------------------------------------------
// running the real code
// ---------------------------------------------------------------------------------------------

pub enum Tree {
    Multi(RegexTreeMap<u64>),
    Unique(UniqueRegexTreeMap<u64>),
}

impl Tree {
    fn new(unique: bool, ic: bool) -> Tree {
        if unique {
            Tree::Unique(UniqueRegexTreeMap::new(ic))
        } else {
            Tree::Multi(RegexTreeMap::new(ic))
        }
    }
    fn insert(&mut self, p: &str, id: &str, v: u64) {
        match self {
            Tree::Multi(t) => t.insert(p, id, v),
            Tree::Unique(t) => t.insert(p, v),
        }
    }
    fn remove(&mut self, id: &str) -> Option<u64> {
        match self {
            Tree::Multi(t) => t.remove(id),
            Tree::Unique(t) => t.remove(id),
        }
    }
    fn retain(&mut self, keep: &BTreeSet<String>) {
        let f = |id: &str, _v: &mut u64| keep.contains(id);
        match self {
            Tree::Multi(t) => t.retain(&f),
            Tree::Unique(t) => t.retain(&f),
        }
    }
    fn retain_mut(&mut self, keep: &BTreeSet<String>, delta: u64) {
        let f = |id: &str, v: &mut u64| {
            *v += delta;
            keep.contains(id)
        };
        match self {
            Tree::Multi(t) => t.retain(&f),
            Tree::Unique(t) => t.retain(&f),
        }
    }
    fn update(&mut self, p: &str, delta: u64) {
        match self {
            Tree::Multi(t) => {
                for v in t.get_mut(p) {
                    *v += delta;
                }
            }
            Tree::Unique(t) => {
                if let Some(v) = t.get_mut(p) {
                    *v += delta;
                }
            }
        }
    }
    fn trace_debug(&self, h: &str) -> String {
        match self {
            Tree::Multi(t) => format!("{:?}", t.trace(h)),
            Tree::Unique(t) => format!("{:?}", t.trace(h)),
        }
    }
    fn cache(&mut self, limit: u64, level: Option<u64>) -> u64 {
        match self {
            Tree::Multi(t) => t.cache(limit, level),
            Tree::Unique(t) => t.cache(limit, level),
        }
    }
    fn len(&self) -> usize {
        match self {
            Tree::Multi(t) => t.len(),
            Tree::Unique(t) => t.len(),
        }
    }
    fn is_empty(&self) -> bool {
        match self {
            Tree::Multi(t) => t.is_empty(),
            Tree::Unique(t) => t.is_empty(),
        }
    }
    fn find(&self, s: &str) -> Vec<u64> {
        let mut v: Vec<u64> = match self {
            Tree::Multi(t) => t.find(s).into_iter().copied().collect(),
            Tree::Unique(t) => t.find(s).into_iter().copied().collect(),
        };
        v.sort();
        v
    }
    fn get(&self, p: &str) -> Vec<u64> {
        let mut v: Vec<u64> = match self {
            Tree::Multi(t) => t.get(p).into_iter().copied().collect(),
            Tree::Unique(t) => t.get(p).into_iter().copied().collect(),
        };
        v.sort();
        v
    }
    fn iter(&self) -> Vec<u64> {
        let mut v: Vec<u64> = match self {
            Tree::Multi(t) => t.iter().copied().collect(),
            Tree::Unique(t) => t.iter().copied().collect(),
        };
        v.sort();
        v
    }
    fn snapshot(&self) -> Value {
        match self {
            Tree::Multi(t) => t.verif_snapshot(),
            Tree::Unique(t) => t.verif_snapshot(),
        }
    }
}

pub enum Op {
    Ins(String, String, u64),
    Rem(String),
    Keep(BTreeSet<String>),
    Mut(BTreeSet<String>, u64),
    Upd(String, u64),
    Cache(u64, Option<u64>),
}

pub fn parse_ops(case: &Value, unique: bool) -> Option<(Vec<Op>, Vec<Pat>)> {
    let mut ops = Vec::new();
    let mut pats: Vec<Pat> = Vec::new();
    for o in case.get("ops")?.as_array()? {
        let a = o.as_array()?;
        match a.first()?.as_str()? {
            "i" if a.len() == 4 => {
                let p = parse_pat(&a[1])?;
                let r = render(&p);
                let id = if unique { r.clone() } else { a[2].as_str()?.to_string() };
                a[2].as_str()?;
                if !pats.iter().any(|q| render(q) == r) {
                    pats.push(p);
                }
                ops.push(Op::Ins(r, id, a[3].as_u64()?));
            }
            "r" if a.len() == 2 => ops.push(Op::Rem(a[1].as_str()?.to_string())),
            "k" if a.len() == 2 => {
                let mut s = BTreeSet::new();
                for x in a[1].as_array()? {
                    s.insert(x.as_str()?.to_string());
                }
                ops.push(Op::Keep(s));
            }
            "m" if a.len() == 3 => {
                let mut s = BTreeSet::new();
                for x in a[1].as_array()? {
                    s.insert(x.as_str()?.to_string());
                }
                ops.push(Op::Mut(s, a[2].as_u64()?));
            }
            "u" if a.len() == 3 => {
                let p = parse_pat(&a[1])?;
                let r = render(&p);
                if !pats.iter().any(|q| render(q) == r) {
                    pats.push(p);
                }
                ops.push(Op::Upd(r, a[2].as_u64()?));
            }
            "c" if a.len() == 3 => {
                let level = if a[2].is_null() { None } else { Some(a[2].as_u64()?) };
                ops.push(Op::Cache(a[1].as_u64()?, level));
            }
            _ => return None,
        }
    }
    Some((ops, pats))
}

fn build(re: &str, ic: bool) -> Option<Regex> {
    RegexBuilder::new(re).case_insensitive(ic).build().ok()
}

/// The tree's own scanner state after `s` is the boundary state (0, false).
fn at_boundary(s: &str) -> bool {
    verif_common_prefix_char_size(s, s) as usize == s.chars().count()
}

// --- domain of the property, decided on the implementation side (independent re-implementation of
// --- Model/Regex.lean `realClosed` / `scanClosed`)

/// Real regex syntax: the group opened just before `body` is closed exactly by the ")" that follows it.
fn real_closed(body: &str) -> bool {
    let mut depth = 1i64;
    let mut in_cls = false;
    let mut cs = body.chars();
    while let Some(c) = cs.next() {
        if c == '\\' {
            if cs.next().is_none() {
                return false;
            }
        } else if in_cls {
            in_cls = c != ']';
        } else if c == '[' {
            in_cls = true;
        } else if c == '(' {
            depth += 1;
        } else if c == ')' {
            if depth <= 1 {
                return false;
            }
            depth -= 1;
        }
    }
    depth == 1 && !in_cls
}

/// The tree's scanner as specified (prefix.rs, re-implemented here so that the domain of the property does not depend on
/// the code under test): "(" body ")" returns to (0,false) at its last char and at no earlier char.
fn scan_closed(body: &str) -> bool {
    let full: Vec<char> = std::iter::once('(').chain(body.chars()).chain(std::iter::once(')')).collect();
    let mut depth: i64 = 0;
    let mut esc = false;
    for (k, &c) in full.iter().enumerate() {
        if c == '(' && !esc {
            depth += 1;
        } else if c == ')' && !esc {
            depth -= 1;
        }
        esc = c == '\\' && !esc;
        let boundary = depth == 0 && !esc;
        if k + 1 < full.len() && boundary {
            return false;
        }
        if k + 1 == full.len() && !boundary {
            return false;
        }
    }
    true
}

#[derive(PartialEq)]
pub enum Dom {
    In,
    ClassParen,
    Out,
}

pub fn domain(pats: &[Pat]) -> Dom {
    let mut d = Dom::In;
    for p in pats {
        if render(p).is_empty() {
            return Dom::Out;
        }
        for t in p {
            if let Tok::G(b) = t {
                if !real_closed(b) {
                    return Dom::Out;
                }
                if !scan_closed(b) {
                    d = Dom::ClassParen;
                }
            }
        }
    }
    d
}

/// Parser for the `Debug` rendering of `regex_radix_tree::Trace<u64>` (its fields are `pub(crate)`):
/// `Trace { regex: "..", count: N, matched: bool, children: [Trace {..}, ..], values: [n, ..] }`.
struct DebugParser<'a> {
    s: &'a [char],
    pos: usize,
}

impl<'a> DebugParser<'a> {
    fn eat(&mut self, lit: &str) -> Option<()> {
        let l: Vec<char> = lit.chars().collect();
        if self.s.len() >= self.pos + l.len() && self.s[self.pos..self.pos + l.len()] == l[..] {
            self.pos += l.len();
            Some(())
        } else {
            None
        }
    }
    fn peek(&self) -> Option<char> {
        self.s.get(self.pos).copied()
    }
    fn string(&mut self) -> Option<String> {
        self.eat("\"")?;
        let mut out = String::new();
        loop {
            let c = self.peek()?;
            self.pos += 1;
            match c {
                '"' => return Some(out),
                '\\' => {
                    let e = self.peek()?;
                    self.pos += 1;
                    match e {
                        'n' => out.push('\n'),
                        't' => out.push('\t'),
                        'r' => out.push('\r'),
                        '0' => out.push('\0'),
                        'u' => {
                            self.eat("{")?;
                            let mut hex = String::new();
                            while self.peek()? != '}' {
                                hex.push(self.peek()?);
                                self.pos += 1;
                            }
                            self.pos += 1;
                            out.push(char::from_u32(u32::from_str_radix(&hex, 16).ok()?)?);
                        }
                        other => out.push(other), // \\ \" \'
                    }
                }
                other => out.push(other),
            }
        }
    }
    fn number(&mut self) -> Option<u64> {
        let start = self.pos;
        while self.peek().map(|c| c.is_ascii_digit()).unwrap_or(false) {
            self.pos += 1;
        }
        self.s[start..self.pos].iter().collect::<String>().parse().ok()
    }
    fn trace(&mut self) -> Option<Value> {
        self.eat("Trace { regex: ")?;
        let regex = self.string()?;
        self.eat(", count: ")?;
        let count = self.number()?;
        self.eat(", matched: ")?;
        let matched = if self.eat("true").is_some() {
            true
        } else {
            self.eat("false")?;
            false
        };
        self.eat(", children: [")?;
        let mut children = Vec::new();
        while self.peek()? != ']' {
            children.push(self.trace()?);
            let _ = self.eat(", ");
        }
        self.eat("], values: [")?;
        let mut values = Vec::new();
        while self.peek()? != ']' {
            values.push(self.number()?);
            let _ = self.eat(", ");
        }
        self.eat("] }")?;
        values.sort();
        Some(json!({"regex": regex, "count": count, "matched": matched, "children": children, "values": values}))
    }
}

pub fn parse_trace_debug(s: &str) -> Option<Value> {
    let cs: Vec<char> = s.chars().collect();
    let mut p = DebugParser { s: &cs, pos: 0 };
    let v = p.trace()?;
    if p.pos == cs.len() {
        Some(v)
    } else {
        None
    }
}

fn depth_of(snap: &Value) -> usize {
    match snap.get("children").and_then(|c| c.as_array()) {
        Some(cs) => 1 + cs.iter().map(depth_of).max().unwrap_or(0),
        None => 0,
    }
}

/// Shape statistics of a snapshot: (has a node with empty prefix, max children of a node, max ids in a leaf).
fn shape_of(snap: &Value) -> (bool, usize, usize) {
    match snap.get("kind").and_then(|k| k.as_str()) {
        Some("node") => {
            let cs = snap.get("children").and_then(|c| c.as_array()).cloned().unwrap_or_default();
            let mut r = (snap.get("prefix").and_then(|p| p.as_str()) == Some(""), cs.len(), 0);
            for c in &cs {
                let s = shape_of(c);
                r = (r.0 || s.0, r.1.max(s.1), r.2.max(s.2));
            }
            r
        }
        Some("leaf") => (false, 0, snap.get("ids").and_then(|c| c.as_array()).map(|a| a.len()).unwrap_or(0)),
        _ => (false, 0, 0),
    }
}

/// Patterns of the leaves whose regex is cached.
fn collect_cached_leaves(snap: &Value, out: &mut Vec<String>) {
    match snap.get("kind").and_then(|k| k.as_str()) {
        Some("leaf") => {
            if snap.get("compiled").and_then(|c| c.as_bool()).unwrap_or(false) {
                if let Some(p) = snap.get("pattern").and_then(|p| p.as_str()) {
                    out.push(p.to_string());
                }
            }
        }
        Some("node") => {
            for c in snap.get("children").and_then(|c| c.as_array()).cloned().unwrap_or_default() {
                collect_cached_leaves(&c, out);
            }
        }
        _ => {}
    }
}

fn compiled_count(snap: &Value) -> usize {
    let own = if snap.get("compiled").and_then(|c| c.as_bool()).unwrap_or(false) { 1 } else { 0 };
    own + snap.get("children").and_then(|c| c.as_array()).map(|cs| cs.iter().map(compiled_count).sum()).unwrap_or(0)
}

// ---------------------------------------------------------------------------------------------
// mode prim (W1d): ip / date / time / week-day primitives
// ---------------------------------------------------------------------------------------------

fn v4_text(n: u32) -> String {
    std::net::Ipv4Addr::from(n).to_string()
}

/// Full eight-group form (no `::` compression) – the canonical text of the model's parser.
fn v6_text(n: u128) -> String {
    let a = std::net::Ipv6Addr::from(n);
    // every third address in the `::`-compressed form `Display` prints (unless it embeds a dotted quad)
    let d = a.to_string();
    if n % 3 == 0 && !d.contains('.') {
        return d;
    }
    a.segments().iter().map(|s| format!("{:x}", s)).collect::<Vec<_>>().join(":")
}

fn rfc3339(secs: i64, nanos: u32, offset_min: i32) -> String {
    use chrono::{DateTime, FixedOffset, SecondsFormat, Utc};
    let dt: DateTime<Utc> = DateTime::from_timestamp(secs, nanos).unwrap();
    if offset_min == 0 {
        dt.to_rfc3339_opts(SecondsFormat::AutoSi, true)
    } else {
        dt.with_timezone(&FixedOffset::east_opt(offset_min * 60).unwrap()).to_rfc3339_opts(SecondsFormat::AutoSi, false)
    }
}

fn hms(sec_of_day: u32) -> String {
    format!("{:02}:{:02}:{:02}", sec_of_day / 3600, (sec_of_day / 60) % 60, sec_of_day % 60)
}

const DAY_NAMES: &[&str] = &["Mon", "tue", "WED", "Thursday", "friday", "SATURDAY", "Sun", "mon", "Tuesday", "xyz", "Mond", "", "sunday"];

pub fn gen_prim(rng: &mut Prng, emit: &mut dyn FnMut(Value)) {
    match rng.below(5) {
        0 | 1 => {
            // ip: network (host bits cleared), addresses inside / outside / at the edges, other family, mapped
            let v6 = rng.chance(1, 3);
            let (cidr, inside, edges): (String, Vec<String>, Vec<String>) = if !v6 {
                let len = *rng.pick(&[0u32, 1, 7, 8, 9, 16, 23, 24, 31, 32]);
                let raw = rng.next() as u32;
                let mask: u32 = if len == 0 { 0 } else { u32::MAX << (32 - len) };
                let base = raw & mask;
                let last = base | !mask;
                let inside = vec![v4_text(base), v4_text(last), v4_text(base | (rng.next() as u32 & !mask))];
                let edges = vec![v4_text(base.wrapping_sub(1)), v4_text(last.wrapping_add(1)), v4_text(rng.next() as u32),
                    v6_text(0xffff_0000_0000u128 | base as u128), v6_text(base as u128), v6_text(rng.next() as u128)];
                (format!("{}/{}", v4_text(base), len), inside, edges)
            } else {
                let len = *rng.pick(&[0u32, 1, 16, 32, 48, 64, 96, 104, 127, 128]);
                let raw = ((rng.next() as u128) << 64) | rng.next() as u128;
                let raw = if rng.chance(1, 3) { 0xffff_0000_0000u128 | (raw & 0xffff_ffff) } else { raw };
                let mask: u128 = if len == 0 { 0 } else { u128::MAX << (128 - len) };
                let base = raw & mask;
                let last = base | !mask;
                let inside = vec![v6_text(base), v6_text(last), v6_text(base | (raw.rotate_left(17) & !mask))];
                let edges = vec![v6_text(base.wrapping_sub(1)), v6_text(last.wrapping_add(1)), v4_text(base as u32), v4_text((base >> 96) as u32),
                    v4_text(rng.next() as u32)];
                (format!("{}/{}", v6_text(base), len), inside, edges)
            };
            let cidr = match rng.below(12) {
                0 => "any".to_string(),
                1 => cidr.split('/').next().unwrap().to_string(),                // bare address = host network
                2 => format!("{}/{}", inside[2], cidr.split('/').nth(1).unwrap()), // host bits possibly set: rejected
                3 => format!("{}/{}", cidr.split('/').next().unwrap(), if v6 { 129 } else { 33 }),
                4 => (*rng.pick(&["garbage", "", "10.0.0/8", "1.2.3.4/", "/8", "01.2.3.4/32", "1.2.3.256", "::1/128", "1:2:3:4:5:6:7/64"])).to_string(),
                _ => cidr,
            };
            let addr = if rng.chance(1, 2) { rng.pick(&inside).clone() } else { rng.pick(&edges).clone() };
            let addr = if rng.chance(1, 30) { (*rng.pick(&["nope", "1.2.3", "1.2.3.4.5", ""])).to_string() } else { addr };
            emit(json!({"mode": "prim", "kind": "ip", "cidr": cidr, "neg": rng.chance(1, 3), "addr": addr}));
        }
        2 => {
            // date-time window: instants around both bounds, sub-second instants, offsets, open / unparsable bounds
            let t0 = 31_536_000 + rng.below(3_700_000_000) as i64; // 1971 .. 2088
            let len = *rng.pick(&[0i64, 1, 59, 3600, 86_400, 31 * 86_400, 366 * 86_400]);
            let (a, b) = if rng.chance(1, 8) { (t0 + len, t0) } else { (t0, t0 + len) };
            let off = *rng.pick(&[0i32, 0, 0, 60, -90, 330, -720]);
            let bound = |rng: &mut Prng, t: i64| -> Value {
                match rng.below(10) {
                    0 => Value::Null,
                    1 => json!(*rng.pick(&["not-a-date", "2024-02-30T00:00:00Z", "2024-13-01T00:00:00Z", "", "2024-01-01", "2024-01-01T24:00:00Z"])),
                    _ => json!(rfc3339(t, 0, off)),
                }
            };
            let start = bound(rng, a);
            let end = bound(rng, b);
            let far = t0 + rng.below(400 * 86_400) as i64 - 200 * 86_400;
            let at_s = *rng.pick(&[a - 1, a, a + 1, b - 1, b, b + 1, (a + b) / 2, far]);
            let at_ns = *rng.pick(&[0u32, 0, 1, 500_000_000, 999_999_999]);
            emit(json!({"mode": "prim", "kind": "dt", "start": start, "end": end, "at": rfc3339(at_s, at_ns, *rng.pick(&[0i32, 0, 120, -300]))}));
        }
        3 => {
            // time-of-day window incl. start > end ("across midnight") and the ends of the day
            let s0 = *rng.pick(&[0u32, 1, 3599, 3600, 43_200, 79_200, 86_398, 86_399]);
            let s1 = *rng.pick(&[0u32, 1, 7200, 43_200, 86_399, s0, s0 + 1 - (s0 + 1) / 86_400 * 86_400]);
            let bound = |rng: &mut Prng, t: u32| -> Value {
                match rng.below(10) {
                    0 => Value::Null,
                    1 => json!(*rng.pick(&["25:00:00", "12:60:00", "noon", "", "12:00"])),
                    _ => json!(hms(t)),
                }
            };
            let start = bound(rng, s0);
            let end = bound(rng, s1);
            let day = 400 + rng.below(40_000) as i64;
            let any_tod = rng.below(86_400) as i64;
            let tod = *rng.pick(&[s0 as i64 - 1, s0 as i64, s0 as i64 + 1, s1 as i64 - 1, s1 as i64, s1 as i64 + 1, 0, 86_399, any_tod]);
            let tod = tod.rem_euclid(86_400);
            emit(json!({"mode": "prim", "kind": "time", "start": start, "end": end,
                "at": rfc3339(day * 86_400 + tod, *rng.pick(&[0u32, 0, 999_999_999]), *rng.pick(&[0i32, 0, 60]))}));
        }
        _ => {
            if rng.chance(1, 2) {
                let n = rng.below(5);
                let days: Vec<&str> = (0..n).map(|_| *rng.pick(DAY_NAMES)).collect();
                let day = 400 + rng.below(40_000) as i64;
                let tod = *rng.pick(&[0i64, 1, 43_200, 86_399]);
                emit(json!({"mode": "prim", "kind": "wd", "days": days, "at": rfc3339(day * 86_400 + tod, 0, *rng.pick(&[0i32, 0, 600, -600]))}));
            } else {
                // group keys: two week-day vectors, often equal as sets but different as vectors, or one a prefix of the other
                let names = ["Mon", "Tue", "Wed", "Thu", "Fri", "Sat", "Sun"];
                let a: Vec<&str> = (0..rng.range(1, 4)).map(|_| *rng.pick(&names)).collect();
                let b: Vec<&str> = match rng.below(5) {
                    0 => a.clone(),
                    1 => a.iter().rev().cloned().collect(),
                    2 => a[..a.len() - 1].to_vec(),
                    3 => {
                        let mut b = a.clone();
                        b.push(*rng.pick(&names));
                        b
                    }
                    _ => (0..rng.range(1, 4)).map(|_| *rng.pick(&names)).collect(),
                };
                emit(json!({"mode": "prim", "kind": "wdcmp", "a": a, "b": b}));
            }
        }
    }
}

fn str_vec(v: Option<&Value>) -> Option<Vec<String>> {
    let mut out = Vec::new();
    for x in v?.as_array()? {
        out.push(x.as_str()?.to_string());
    }
    Some(out)
}

fn opt_str(v: Option<&Value>) -> Option<Option<String>> {
    match v {
        None | Some(Value::Null) => Some(None),
        Some(Value::String(s)) => Some(Some(s.clone())),
        _ => None,
    }
}

pub fn run_prim(case: &Value) -> Obs {
    use chrono::{DateTime, Datelike, Timelike, Utc};
    use redirectionio::router::{RouteDateTime, RouteIp, RouteTime, RouteWeekday};
    let kind = match s(case, "kind") {
        Some(k) => k,
        None => return Obs::invalid("kind"),
    };
    let tag = format!("prim:{kind}");
    match kind.as_str() {
        "ip" => {
            let (cidr, neg, addr) = match (s(case, "cidr"), case.get("neg").and_then(|b| b.as_bool()), s(case, "addr")) {
                (Some(c), Some(n), Some(a)) => (c, n, a),
                _ => return Obs::invalid("ip case"),
            };
            let c = cidr.parse::<cidr::AnyIpCidr>().ok();
            let a = addr.parse::<std::net::IpAddr>().ok();
            let m = match (&c, &a) {
                (Some(c), Some(a)) => json!((if neg { RouteIp::NotInRange(*c) } else { RouteIp::InRange(*c) }).match_ip(a)),
                _ => Value::Null,
            };
            // through the rule: `Rule::route_ips` drops what does not parse
            let key = if neg { "not_in_range" } else { "in_range" };
            let via_rule = serde_json::from_value::<redirectionio::api::Rule>(json!({"id": "r", "rank": 1, "source": {"path": "/", "ips": [{key: cidr}]}}))
                .ok()
                .map(|r| {
                    use redirectionio::router::IntoRoute;
                    let cfg = redirectionio::RouterConfig::default();
                    r.into_route(&cfg).ips().is_some()
                });
            let mut o = Obs::new(json!({"cidr_ok": c.is_some(), "addr_ok": a.is_some(), "match": m, "route_ips_some": via_rule})).tag(tag);
            if let (Some(c), Some(a)) = (&c, &a) {
                o = o.tag(format!("prim:ip:{}", if c.contains(a) { "inside" } else { "outside" }));
            } else {
                o = o.tag("prim:ip:unparsable");
            }
            o
        }
        "dt" | "time" => {
            let (start, end, at) = match (opt_str(case.get("start")), opt_str(case.get("end")), s(case, "at")) {
                (Some(a), Some(b), Some(c)) => (a, b, c),
                _ => return Obs::invalid("window case"),
            };
            let at_dt = at.parse::<DateTime<Utc>>().ok();
            let at_ns = at_dt.and_then(|d| d.timestamp_nanos_opt());
            let (ws, we, m) = if kind == "dt" {
                let w = RouteDateTime::from_range(&start, &end);
                (
                    w.start.and_then(|d| d.and_utc().timestamp_nanos_opt()),
                    w.end.and_then(|d| d.and_utc().timestamp_nanos_opt()),
                    at_dt.map(|d| w.match_datetime(&d)),
                )
            } else {
                let w = RouteTime::from_range(&start, &end);
                let ns = |t: chrono::NaiveTime| t.num_seconds_from_midnight() as i64 * 1_000_000_000 + t.nanosecond() as i64;
                (w.start.map(ns), w.end.map(ns), at_dt.map(|d| w.match_datetime(&d)))
            };
            let mut o = Obs::new(json!({"start": ws, "end": we, "at": at_ns, "match": m})).tag(tag);
            if let (Some(a), Some(b)) = (ws, we) {
                if a >= b {
                    o = o.tag(format!("prim:{kind}:start>=end"));
                }
            }
            if m == Some(true) {
                o = o.tag(format!("prim:{kind}:hit"));
            }
            o
        }
        "wd" => {
            let (days, at) = match (str_vec(case.get("days")), s(case, "at")) {
                (Some(d), Some(a)) => (d, a),
                _ => return Obs::invalid("wd case"),
            };
            let r = RouteWeekday::from_weekdays(&days);
            let at_dt = at.parse::<DateTime<Utc>>().ok();
            let m = match (&r, &at_dt) {
                (Some(r), Some(d)) => json!(r.match_datetime(d)),
                _ => Value::Null,
            };
            let nums = r.as_ref().map(|r| r.weekdays.0.iter().map(|d| d.num_days_from_monday()).collect::<Vec<u32>>());
            Obs::new(json!({"days": nums, "weekday": at_dt.map(|d| d.weekday().num_days_from_monday()), "match": m})).tag(tag)
        }
        "wdcmp" => {
            let (a, b) = match (str_vec(case.get("a")), str_vec(case.get("b"))) {
                (Some(a), Some(b)) => (a, b),
                _ => return Obs::invalid("wdcmp case"),
            };
            match (RouteWeekday::from_weekdays(&a), RouteWeekday::from_weekdays(&b)) {
                (Some(ra), Some(rb)) => {
                    let c = match ra.cmp(&rb) {
                        std::cmp::Ordering::Less => "lt",
                        std::cmp::Ordering::Equal => "eq",
                        std::cmp::Ordering::Greater => "gt",
                    };
                    // as BTreeSet keys
                    let mut set = std::collections::BTreeSet::new();
                    set.insert(ra.clone());
                    set.insert(rb.clone());
                    let mut o = Obs::new(json!({"cmp": c, "eq": ra == rb})).tag(tag);
                    if (set.len() == 1) != (ra == rb) {
                        o = o.fail(format!("week-day vectors {a:?} and {b:?}: equal = {}, but as BTreeSet keys they occupy {} slot(s)", ra == rb, set.len()), "weekday-key-collision");
                    }
                    o
                }
                _ => Obs::new(json!({"cmp": null, "eq": null})).tag(tag),
            }
        }
        _ => Obs::invalid("prim kind"),
    }
}

pub fn run(case: &Value) -> Obs {
    let mode = match s(case, "mode") {
        Some(m) => m,
        None => return Obs::invalid("mode"),
    };
    if mode == "prim" {
        return run_prim(case);
    }
    if mode == "cp" {
        let (a, b, n) = match (s(case, "a"), s(case, "b"), case.get("n").and_then(|n| n.as_u64())) {
            (Some(a), Some(b), Some(n)) => (a, b, n),
            _ => return Obs::invalid("cp"),
        };
        let k = verif_common_prefix_char_size(&a, &b);
        return Obs::new(json!([k, verif_get_prefix_with_char_size(&a, n as u32), verif_get_prefix_with_char_size(&a, k)])).tag("mode:cp");
    }
    let ic = match case.get("ic").and_then(|b| b.as_bool()) {
        Some(b) => b,
        None => return Obs::invalid("ic"),
    };
    let unique = case.get("unique").and_then(|b| b.as_bool()).unwrap_or(false);
    let (ops, pats) = match parse_ops(case, unique) {
        Some(x) => x,
        None => return Obs::invalid("ops"),
    };
    let hay: Vec<String> = match case.get("hay").and_then(|h| h.as_array()) {
        Some(a) => {
            let mut v = Vec::new();
            for x in a {
                match x.as_str() {
                    Some(s) => v.push(s.to_string()),
                    None => return Obs::invalid("hay"),
                }
            }
            v
        }
        None => return Obs::invalid("hay"),
    };
    let rendered: Vec<String> = pats.iter().map(render).collect();

    if mode == "rx" {
        let mut out = Vec::new();
        for p in &rendered {
            let leaf = build(&format!("^{p}$"), ic);
            let m: Vec<bool> = hay.iter().map(|h| leaf.as_ref().map(|r| r.is_match(h)).unwrap_or(false)).collect();
            let cs: Vec<char> = p.chars().collect();
            let mut pre = Vec::new();
            for k in 1..=cs.len() {
                let q: String = cs[..k].iter().collect();
                if at_boundary(&q) {
                    let node = build(&format!("^{q}"), ic);
                    let mm: Vec<bool> = hay.iter().map(|h| node.as_ref().map(|r| r.is_match(h)).unwrap_or(false)).collect();
                    pre.push(json!([k, node.is_some(), mm]));
                }
            }
            out.push(json!({"p": p, "ok": leaf.is_some(), "m": m, "pre": pre}));
        }
        return Obs::new(Value::Array(out)).tag("mode:rx").trivial(rendered.is_empty());
    }

    let mut tree = Tree::new(unique, ic);
    // live entries (pattern, id, value) in insertion order, for the implementation-side oracle
    let mut live: Vec<(String, String, u64)> = Vec::new();
    let mut ids_ok = true;
    let mut steps = Vec::new();
    let mut max_depth = 0;
    let mut shape = (false, 0usize, 0usize);
    let mut collapsed = false;
    let mut last_depth = 0;
    let mut any_hit = false;
    let mut oracle_fail: Option<String> = None;
    let dom = domain(&pats);
    let compiled: Vec<Option<Regex>> = rendered.iter().map(|p| build(&format!("^{p}$"), ic)).collect();
    let mut tags: Vec<String> = vec![format!("mode:{mode}"), format!("unique:{unique}"), format!("ic:{ic}"), format!("npat:{}", pats.len().min(8))];
    for op in &ops {
        let mut rem = Value::Null;
        let mut ret = Value::Null;
        match op {
            Op::Ins(p, id, v) => {
                tree.insert(p, id, *v);
                if live.iter().any(|(p2, id2, _)| id2 == id && p2 != p) {
                    ids_ok = false;
                }
                match live.iter_mut().find(|(p2, id2, _)| p2 == p && id2 == id) {
                    Some(e) => e.2 = *v,
                    None => live.push((p.clone(), id.clone(), *v)),
                }
                tags.push("op:insert".to_string());
            }
            Op::Rem(id) => {
                if let Some(v) = tree.remove(id) {
                    rem = json!(v);
                }
                if let Some(i) = live.iter().position(|(_, id2, _)| id2 == id) {
                    live.remove(i);
                }
                tags.push("op:remove".to_string());
            }
            Op::Keep(keep) => {
                tree.retain(keep);
                live.retain(|(_, id, _)| keep.contains(id));
                tags.push("op:retain".to_string());
            }
            Op::Mut(keep, delta) => {
                tree.retain_mut(keep, *delta);
                live.retain(|(_, id, _)| keep.contains(id));
                for e in live.iter_mut() {
                    e.2 += *delta;
                }
                tags.push("op:retain-mut".to_string());
            }
            Op::Upd(p, delta) => {
                tree.update(p, *delta);
                for e in live.iter_mut() {
                    if &e.0 == p {
                        e.2 += *delta;
                    }
                }
                tags.push("op:get_mut-update".to_string());
            }
            Op::Cache(limit, level) => {
                ret = json!(tree.cache(*limit, *level));
                tags.push("op:cache".to_string());
            }
        }
        if mode == "trace" {
            continue;
        }
        if mode == "real" {
            let fresh = tree.snapshot();
            let given = case.get("snaps").and_then(|s| s.as_array()).and_then(|a| a.get(steps.len()));
            if given != Some(&fresh) {
                return Obs::invalid("stale snapshot: the embedded snapshot is not the state the current code reaches");
            }
            max_depth = max_depth.max(depth_of(&fresh));
        }
        if mode == "snap" {
            let snap = tree.snapshot();
            let d = depth_of(&snap);
            if d < last_depth {
                collapsed = true;
            }
            last_depth = d;
            max_depth = max_depth.max(d);
            let sh = shape_of(&snap);
            shape = (shape.0 || sh.0, shape.1.max(sh.1), shape.2.max(sh.2));
            let clen = compiled_count(&snap);
            if let Tree::Multi(t) = &tree {
                if t.cached_len() != clen {
                    oracle_fail = Some(format!("cached_len {} != compiled flags {}", t.cached_len(), clen));
                }
            }
            steps.push(json!({"snap": snap, "ret": ret, "clen": clen, "inv": true}));
        } else {
            let finds: Vec<Vec<u64>> = hay.iter().map(|h| tree.find(h)).collect();
            if finds.iter().any(|f| !f.is_empty()) {
                any_hit = true;
            }
            // implementation-side oracle: linear scan with the real regex crate
            if ids_ok && dom != Dom::Out && oracle_fail.is_none() {
                for (h, f) in hay.iter().zip(finds.iter()) {
                    let mut want: Vec<u64> = live
                        .iter()
                        .filter(|(p, _, _)| {
                            let i = rendered.iter().position(|r| r == p).unwrap();
                            compiled[i].as_ref().map(|r| r.is_match(h)).unwrap_or(false)
                        })
                        .map(|(_, _, v)| *v)
                        .collect();
                    want.sort();
                    if &want != f {
                        oracle_fail = Some(format!("find({h:?}) = {f:?} but the linear scan of the live patterns gives {want:?}"));
                        break;
                    }
                }
                if oracle_fail.is_none() && tree.len() != live.len() {
                    oracle_fail = Some(format!("len() = {} but {} entries are live", tree.len(), live.len()));
                }
            }
            let gets: Vec<Vec<u64>> = rendered.iter().map(|p| tree.get(p)).collect();
            let mut step = json!({"len": tree.len(), "empty": tree.is_empty(), "find": finds, "get": gets, "iter": tree.iter(), "rem": rem});
            if mode == "real" {
                step["inv"] = json!(true);
                step["contents"] = json!(true);
            }
            steps.push(step);
        }
    }
    if mode == "trace" {
        let mut out = Vec::new();
        for h in &hay {
            match parse_trace_debug(&tree.trace_debug(h)) {
                Some(t) => out.push(t),
                None => return Obs::invalid("unparsable Trace debug output"),
            }
        }
        let mut o = Obs::new(Value::Array(out)).trivial(pats.len() < 2);
        o.tags = tags;
        return o;
    }
    if mode == "snap" && ic && oracle_fail.is_none() && dom == Dom::In {
        // behavioural probe of the case flag of CACHED regexes (`Regex::as_str()` in the hook does not show it): in an ignore_case
        // tree, a cached leaf must still match a case-swapped instance of its own pattern's literal part
        let snap = tree.snapshot();
        let mut cached: Vec<String> = Vec::new();
        collect_cached_leaves(&snap, &mut cached);
        for (p, r) in pats.iter().zip(rendered.iter()) {
            if !cached.contains(r) {
                continue;
            }
            let mut plain = String::new();
            let mut swapped = String::new();
            let mut ok = true;
            for t in p {
                match t {
                    Tok::L(l) => {
                        plain.push_str(l);
                        swapped.extend(l.chars().map(|c| if c.is_ascii_lowercase() { c.to_ascii_uppercase() } else { c.to_ascii_lowercase() }));
                    }
                    Tok::G(b) => match group_def(b).and_then(|g| g.yes.first()) {
                        Some(y) => {
                            plain.push_str(y);
                            swapped.push_str(y);
                        }
                        None => ok = false,
                    },
                }
            }
            if !ok || plain == swapped {
                continue;
            }
            let fresh = build(&format!("^{r}$"), true);
            if fresh.as_ref().map(|x| x.is_match(&swapped)).unwrap_or(false) && tree.find(&swapped).is_empty() {
                oracle_fail = Some(format!("ignore_case tree: the cached leaf {r:?} does not match {swapped:?} (a freshly built case-insensitive regex does)"));
                tags.push("probe:cached-case-flag-failed".to_string());
                break;
            }
            tags.push("probe:cached-case-flag".to_string());
        }
    }
    let case_flag_probe_failed = tags.iter().any(|t| t == "probe:cached-case-flag-failed");
    if mode == "snap" {
        tags.push(format!("depth:{max_depth}"));
        if shape.0 {
            tags.push("shape:empty-prefix-node".to_string());
        }
        if shape.1 >= 3 {
            tags.push("shape:node-with-3+-children".to_string());
        }
        if shape.2 >= 2 {
            tags.push("shape:leaf-with-2+-ids".to_string());
        }
        if collapsed {
            tags.push("shape:collapsed".to_string());
        }
    }
    if !ids_ok {
        tags.push("id-reuse".to_string());
    }
    match dom {
        Dom::In => {}
        Dom::ClassParen => tags.push("class-paren".to_string()),
        Dom::Out => tags.push("out-of-domain".to_string()),
    }
    let mut o = Obs::new(Value::Array(steps));
    o.tags = tags;
    o = o.trivial(pats.len() < 2 || (mode != "snap" && !any_hit));
    if let Some(why) = oracle_fail {
        let sig = if case_flag_probe_failed {
            "cached-regex-case-flag"
        } else if dom == Dom::ClassParen {
            "class-paren"
        } else if mode == "snap" {
            "cached-len"
        } else {
            "scan-mismatch"
        };
        o = o.fail(why, sig);
    }
    o
}

#[allow(dead_code)]
fn main() {
    main_with(gen, run);
}
