//! C14 — filtering a compressed body equals filtering its decompressed form: implementation side.
//! case: {"body": hex of the PLAIN body, "enc": "gzip|deflate|br|<unsupported>", "level": n, "window": n, "pflush": [..],
//!        "cenc": value of the Content-Encoding header (case variants), "ctype": null | content-type value,
//!        "filters": [..], "scheds": [[cuts of the compressed stream]..], "flush": [[cuts of the plain body]..]}
//! "flush" is what the decode stage hands to the inner chain under each schedule (computed by the generator with a
//! replica of DecodeFilterBody, re-computed and compared here: an inconsistent (shrunk) case is invalid) — it lets
//! the model, whose codec is abstract, run the inner chain on the same chunks.
//! obs:  {"kinds": [chain stage kinds], "plain": hex of filter_plain(b) | null, "sch": ["=" | "invalid" | "error" | hex ..]}
//!       for a compressed chain "=" means decode(out) == filter_plain(b); for an empty chain "=" means out == input.
//! oracle: every entry is "=".  Failure classes: the D4 classes (chunk-variance of the inner html filters at the
//! decoder's flush points — the glue reproduces the plain chain run on those chunks), "error-inside-compressed-chain"
//! (O6), anything else is new ("compressed-glue-differs", "safe-cuts", "unsupported-not-passthrough").
#[path = "../filter_gen.rs"]
mod filter_gen;
use filter_gen::*;
use redirectionio::http::Header;
use rio_harness::*;
use serde_json::{json, Value};

fn headers_of(cenc: Option<&str>, ctype: Option<&str>) -> Vec<Header> {
    let mut h = Vec::new();
    if let Some(c) = ctype {
        h.push(Header { name: "Content-Type".to_string(), value: c.to_string() });
    }
    if let Some(c) = cenc {
        h.push(Header { name: "Content-Encoding".to_string(), value: c.to_string() });
    }
    h
}

fn emit_case(emit: &mut dyn FnMut(Value), body: &[u8], enc: &str, level: u32, window: u32, pflush: &[usize], cenc: &str, ctype: Option<&str>, filters: &[FSpec], scheds: &[Vec<usize>], shape: &str) {
    emit_case_h(emit, body, enc, level, window, pflush, cenc, ctype, None, filters, scheds, shape)
}

#[allow(clippy::too_many_arguments)]
fn emit_case_h(emit: &mut dyn FnMut(Value), body: &[u8], enc: &str, level: u32, window: u32, pflush: &[usize], cenc: &str, ctype: Option<&str>, headers: Option<&[(String, String)]>, filters: &[FSpec], scheds: &[Vec<usize>], shape: &str) {
    let z = compress(enc, level, window, pflush, body).unwrap_or_else(|| body.to_vec());
    let mut flush: Vec<Value> = Vec::new();
    let mut scheds2: Vec<Vec<usize>> = Vec::new();
    for cuts in scheds {
        let cuts: Vec<usize> = cuts.iter().cloned().filter(|c| *c <= z.len()).collect();
        let chunks = split_at_cuts(&z, &cuts);
        match decoder_outputs(enc, &chunks) {
            Ok((outs, end)) => {
                let mut all = outs;
                all.push(end);
                flush.push(json!(flush_cuts(&all)));
            }
            Err(_) => flush.push(json!(null)),
        }
        scheds2.push(cuts);
    }
    let mut case = json!({
        "body": hex(body), "enc": enc, "level": level, "window": window, "pflush": pflush, "cenc": cenc, "ctype": ctype,
        "filters": filters.iter().map(|f| f.to_json()).collect::<Vec<_>>(),
        "scheds": scheds_json(&scheds2), "flush": flush, "shape": shape,
    });
    if let Some(h) = headers {
        case["headers"] = Value::Array(h.iter().map(|(n, v)| json!([n, v])).collect());
    }
    emit(case);
}

/// what FilterBodyAction::new makes of a header list, written independently of the code (oracle of the gates):
/// last header of that (case-insensitive) name wins, value lower-cased
fn effective(headers: &[(String, String)], name: &str) -> Option<String> {
    let mut v = None;
    for (n, val) in headers {
        if n.to_lowercase() == name {
            v = Some(val.to_lowercase());
        }
    }
    v
}

/// the chain shape the gates should give (oracle): html filters only without content type or with one containing
/// "text/html"; no stage => empty chain; Content-Encoding absent => no codec stages; br/gzip/deflate => decode .. encode;
/// any other value => empty chain
fn expected_kinds(fs: &[FSpec], headers: &[(String, String)]) -> Vec<&'static str> {
    let ct = effective(headers, "content-type");
    let ce = effective(headers, "content-encoding");
    let html_ok = match &ct {
        None => true,
        Some(c) => c.contains("text/html"),
    };
    let mut stages: Vec<&'static str> = Vec::new();
    for f in fs {
        if !f.builds() {
            continue;
        }
        if f.is_html() {
            if html_ok {
                stages.push("html");
            }
        } else {
            stages.push("text");
        }
    }
    if stages.is_empty() {
        return stages;
    }
    match ce {
        None => stages,
        Some(e) if ENCODINGS.contains(&e.as_str()) => {
            let mut v = vec!["decode"];
            v.extend(stages);
            v.push("encode");
            v
        }
        Some(_) => Vec::new(),
    }
}

/// GATES: header NAME and VALUE case / spacing variants, duplicates (the last one wins), content types
fn gen_gates(emit: &mut dyn FnMut(Value)) {
    let h = |a: &str, path: &[&str], v: &str| FSpec::Html { action: a.to_string(), path: path.iter().map(|x| x.to_string()).collect(), sel: None, value: v.to_string() };
    let t = |a: &str, c: &str| FSpec::Text { action: a.to_string(), content: c.to_string() };
    let body = "<html><head><title>t</title></head><body class=\"page\"><div>Yolo \u{e9}</div></body></html>";
    let fsets: Vec<Vec<FSpec>> = vec![
        vec![h("append_child", &["html", "body"], "<ins-0>v0</ins-0>")],
        vec![t("append_text", "\u{a7}T0\u{a7}"), h("prepend_child", &["html", "body", "div"], "<ins-1/>")],
    ];
    let ce_values = ["GZIP", "Gzip", "gzip", "BR", "Br", "br", "deflate", "DEFLATE", "Deflate", "identity", "gzip, br", " gzip", "gzip ", "x-gzip", ""];
    let ce_names = ["Content-Encoding", "content-encoding", "CONTENT-ENCODING", "Content-encoding"];
    let ctypes: [Option<(&str, &str)>; 8] = [
        None,
        Some(("Content-Type", "TEXT/HTML; charset=UTF-8")),
        Some(("Content-Type", "text/html")),
        Some(("content-type", "Text/Html")),
        Some(("CONTENT-TYPE", "application/xhtml+xml")),
        Some(("Content-Type", "text/plain")),
        Some(("Content-type", "application/json; x=text/html")),
        Some(("Content-Type", "")),
    ];
    let mut n = 0usize;
    let mut one = |emit: &mut dyn FnMut(Value), headers: Vec<(String, String)>, fs: &Vec<FSpec>| {
        let eff = effective(&headers, "content-encoding");
        let enc = match &eff {
            Some(e) if ENCODINGS.contains(&e.as_str()) => e.clone(),
            _ => "none".to_string(),
        };
        let z = compress(&enc, 6, 22, &[], body.as_bytes()).unwrap_or_else(|| body.as_bytes().to_vec());
        let scheds: Vec<Vec<usize>> = vec![vec![], (1..=(z.len() - 1) / 10).map(|k| k * 10).collect(), vec![z.len() / 3, z.len() / 3, z.len() - 1]];
        emit_case_h(emit, body.as_bytes(), &enc, 6, 22, &[], eff.as_deref().unwrap_or(""), None, Some(&headers), fs, &scheds, "gates");
    };
    for (i, cev) in ce_values.iter().enumerate() {
        for (j, cen) in ce_names.iter().enumerate() {
            let ct = &ctypes[(i + 3 * j) % ctypes.len()];
            let mut headers: Vec<(String, String)> = Vec::new();
            if let Some((cn, cv)) = ct {
                if (i + j) % 2 == 0 {
                    headers.push((cn.to_string(), cv.to_string()));
                }
            }
            headers.push((cen.to_string(), cev.to_string()));
            if let Some((cn, cv)) = ct {
                if (i + j) % 2 == 1 {
                    headers.push((cn.to_string(), cv.to_string()));
                }
            }
            one(emit, headers, &fsets[n % 2]);
            n += 1;
        }
    }
    // every content type with a plain gzip / absent encoding, both filter sets
    for ct in &ctypes {
        for ce in [Some("gzip"), None] {
            for fs in &fsets {
                let mut headers: Vec<(String, String)> = Vec::new();
                if let Some(e) = ce {
                    headers.push(("Content-Encoding".to_string(), e.to_string()));
                }
                if let Some((cn, cv)) = ct {
                    headers.push((cn.to_string(), cv.to_string()));
                }
                one(emit, headers, fs);
            }
        }
    }
    // duplicates: the last header of a name wins (names in different cases count as the same name)
    let dups: Vec<Vec<(&str, &str)>> = vec![
        vec![("Content-Encoding", "gzip"), ("Content-Encoding", "br")],
        vec![("Content-Encoding", "br"), ("content-encoding", "GZIP")],
        vec![("Content-Encoding", "gzip"), ("CONTENT-ENCODING", "identity")],
        vec![("Content-Encoding", "identity"), ("Content-Encoding", "deflate")],
        vec![("Content-Encoding", "zstd"), ("X-Other", "gzip")],
        vec![("Content-Type", "text/plain"), ("Content-Encoding", "gzip"), ("content-type", "TEXT/HTML")],
        vec![("Content-Type", "text/html"), ("Content-Encoding", "Br"), ("CONTENT-TYPE", "text/plain")],
        vec![("X-Content-Encoding", "gzip")],
        vec![("Content-Encoding-X", "gzip"), ("Content-Type", "text/html")],
    ];
    for d in dups {
        for fs in &fsets {
            one(emit, d.iter().map(|(a, b)| (a.to_string(), b.to_string())).collect(), fs);
        }
    }
}


/// schedules given as functions of the length of the compressed stream
fn sched_single() -> Vec<usize> {
    vec![]
}

fn gen_fixed(rng: &mut Prng, emit: &mut dyn FnMut(Value)) {
    let h = |a: &str, path: &[&str], sel: Option<&str>, v: &str| FSpec::Html { action: a.to_string(), path: path.iter().map(|x| x.to_string()).collect(), sel: sel.map(|x| x.to_string()), value: v.to_string() };
    let t = |a: &str, c: &str| FSpec::Text { action: a.to_string(), content: c.to_string() };
    // 1. LARGE bodies: one compressed chunk inflates to far more than the codec's window (32 KiB for deflate).
    //    A highly compressible and a poorly compressible blob inside a small document; delivered as a single chunk,
    //    as 4 KiB chunks, and one byte at a time for a prefix of the stream only.
    let lorem = "lorem ipsum dolor sit amet, consectetur adipiscing elit ";
    let mut noise = |n: usize| -> String {
        const AB: &[u8] = b"ABCDEFGHIJKLMNOPQRSTUVWXYZabcdefghijklmnopqrstuvwxyz0123456789+/ .,;:-_";
        (0..n).map(|_| AB[rng.below(AB.len())] as char).collect()
    };
    let big: Vec<(&str, u32, String, Vec<FSpec>)> = vec![
        ("gzip", 6, format!("<html><head><title>t</title></head><body><div>{}</div><p>x</p></body></html>", lorem.repeat(150 * 1024 / lorem.len())),
            vec![h("append_child", &["html", "body"], None, "<ins-0>v0</ins-0>"), t("append_text", "\u{a7}T1\u{a7}")]),
        ("gzip", 1, format!("<html><body><p>{}</p><div>{}</div></body></html>", noise(200 * 1024), "z"),
            vec![h("prepend_child", &["html", "body", "div"], None, "<ins-0/>")]),
        ("deflate", 9, format!("<html><body>{}<div>{}</div>{}</body></html>", noise(60 * 1024), lorem.repeat(40 * 1024 / lorem.len()), noise(20 * 1024)),
            vec![t("prepend_text", "\u{a7}T0\u{a7}"), h("replace", &["html", "body", "div"], None, "<ins-1>r</ins-1>")]),
        ("br", 5, format!("<html><body><p>{}</p>{}</body></html>", lorem.repeat(100 * 1024 / lorem.len()), noise(8 * 1024)),
            vec![h("append_child", &["html", "body", "p"], None, "<ins-0>v0</ins-0>"), t("append_text", "\u{a7}T1\u{a7}")]),
        ("deflate", 6, "a".repeat(300 * 1024), vec![t("append_text", "\u{a7}T0\u{a7}")]),
    ];
    for (enc, level, body, filters) in big {
        let z = compress(enc, level, 22, &[], body.as_bytes()).unwrap();
        let mut scheds: Vec<Vec<usize>> = vec![sched_single()];
        if z.len() > 4096 {
            scheds.push((1..=(z.len() - 1) / 4096).map(|i| i * 4096).collect());
        } else {
            scheds.push(vec![z.len() / 2]);
        }
        scheds.push((1..=48.min(z.len())).collect());
        emit_case(emit, body.as_bytes(), enc, level, 22, &[], enc, Some("text/html"), &filters, &scheds, "large");
    }
    // 2. END-OF-STREAM paths: chains that still yield bytes at end() — text appended at end, a held partial tag, a held
    //    text ending with '<', a body that decodes to nothing, text filters whose content is only emitted by end().
    let bodies: &[&str] = &["", "<html><body>abc<div", "<html><body><p>x</p>tail<", "x", "<html><body><div>d</div></body></html>"];
    let fsets: Vec<Vec<FSpec>> = vec![
        vec![t("append_text", "\u{a7}T0\u{a7}")],
        vec![h("append_child", &["html", "body"], None, "<ins-0>v0</ins-0>"), t("append_text", "\u{a7}T1\u{a7}")],
        vec![t("prepend_text", "\u{a7}T0\u{a7}")],
        vec![h("replace", &["html", "body", "div"], Some("*"), "<ins-0/>"), h("append_child", &["html"], None, "<ins-1/>")],
        vec![t("replace_text", "\u{a7}T0\u{a7}"), t("append_text", "\u{a7}T1\u{a7}")],
    ];
    for (i, b) in bodies.iter().enumerate() {
        for (j, f) in fsets.iter().enumerate() {
            let enc = ENCODINGS[(i + j) % 3];
            let z = compress(enc, 6, 22, &[], b.as_bytes()).unwrap();
            let scheds: Vec<Vec<usize>> = vec![sched_single(), (1..z.len()).collect(), (1..=(z.len().max(1) - 1) / 7).map(|k| k * 7).collect(), vec![0, z.len()]];
            emit_case(emit, b.as_bytes(), enc, 6, 22, &[], enc, None, f, &scheds, "end-paths");
        }
    }
}

/// CodecLaws cases: the two streaming laws of Proofs/FilterCodec.lean tested on flate2 / brotli themselves, and the
/// replica of the codec stages cross-checked byte for byte against the library's own Decode/EncodeFilterBody.
fn gen_laws(rng: &mut Prng, n: usize, emit: &mut dyn FnMut(Value)) {
    for i in 0..n {
        let (mut body, _) = gen_body(rng);
        match i % 7 {
            0 => body.clear(),
            1 => body = "x".to_string(),
            2 => {
                let (b2, _) = gen_body(rng);
                body.push_str(&b2.repeat(rng.range(1, 40)));
            }
            _ => {}
        }
        let mut bytes = body.into_bytes();
        if rng.chance(1, 3) {
            mutate_bytes(rng, &mut bytes); // the codecs do not care about UTF-8
        }
        let enc = ENCODINGS[i % 3];
        let level = if enc == "br" { rng.below(12) as u32 } else { rng.below(10) as u32 };
        let pflush: Vec<usize> = if rng.chance(1, 3) { (0..rng.range(1, 3)).map(|_| rng.below(bytes.len() + 1)).collect() } else { vec![] };
        let z = compress(enc, level, 22, &pflush, &bytes).unwrap();
        let part = |rng: &mut Prng, len: usize| -> Vec<usize> {
            match rng.below(6) {
                0 => vec![],
                1 => (1..len).collect(),                       // one byte per write
                2 => vec![0, 0, len / 2, len / 2, len, len],    // empty writes at the start, in the middle, at the end
                3 => {
                    let st = rng.range(2, 64);
                    (1..=(len.max(1) - 1) / st).map(|k| k * st).collect()
                }
                _ => {
                    let k = rng.range(1, 8);
                    let mut c: Vec<usize> = (0..k).map(|_| rng.below(len + 1)).collect();
                    c.sort();
                    c
                }
            }
        };
        let cuts = part(rng, z.len());
        let wcuts = part(rng, bytes.len());
        emit(json!({"laws": true, "body": hex(&bytes), "enc": enc, "level": level, "pflush": pflush, "cuts": cuts, "wcuts": wcuts}));
    }
}

fn run_laws(case: &Value) -> Obs {
    let body = match parse_body(case) {
        Some(b) => b,
        None => return Obs::invalid("body"),
    };
    let enc = match s(case, "enc") {
        Some(e) if ENCODINGS.contains(&e.as_str()) => e,
        _ => return Obs::invalid("enc"),
    };
    let level = case.get("level").and_then(|v| v.as_u64()).unwrap_or(6) as u32;
    let getv = |k: &str| -> Vec<usize> { case.get(k).and_then(|v| v.as_array()).map(|a| a.iter().filter_map(|x| x.as_u64().map(|y| y as usize)).collect()).unwrap_or_default() };
    let pflush = getv("pflush");
    let z = match compress(&enc, level, 22, &pflush, &body) {
        Some(z) => z,
        None => return Obs::invalid("compress"),
    };
    let cuts = getv("cuts");
    let wcuts = getv("wcuts");
    let okc = |c: &Vec<usize>, len: usize| c.windows(2).all(|w| w[0] <= w[1]) && c.iter().all(|x| *x <= len);
    if !okc(&cuts, z.len()) || !okc(&wcuts, body.len()) {
        return Obs::invalid("cuts");
    }
    let chunks = split_at_cuts(&z, &cuts);
    let writes = split_at_cuts(&body, &wcuts);
    let mut o = Obs::new(json!({"laws": "ok"})).trivial(body.is_empty());
    o.tags.push(format!("law:dec:{enc}"));
    o.tags.push(format!("law:enc:{enc}"));
    if chunks.iter().any(|c| c.is_empty()) || writes.iter().any(|c| c.is_empty()) {
        o.tags.push("law:empty-writes".to_string());
    }
    // decoder streaming law: drained outputs + finish concatenate to the body, no call fails
    let (douts, dend) = match decoder_outputs(&enc, &chunks) {
        Ok(v) => v,
        Err(k) => return o.fail(format!("decoder law: call {k} failed on a valid {enc} stream"), "codec-law-decoder"),
    };
    let mut dec: Vec<u8> = douts.iter().flatten().cloned().collect();
    dec.extend_from_slice(&dend);
    if dec != body {
        return o.fail(format!("decoder law: drained outputs + finish ({} bytes) differ from the body ({} bytes)", dec.len(), body.len()), "codec-law-decoder");
    }
    // encoder streaming law: outputs + finish form a complete valid stream decoding to what was written
    let (eouts, eend) = match encoder_outputs(&enc, &writes) {
        Some(v) => v,
        None => return o.fail("encoder law: a write failed", "codec-law-encoder"),
    };
    let mut stream: Vec<u8> = eouts.iter().flatten().cloned().collect();
    stream.extend_from_slice(&eend);
    if decode_independent(&enc, &stream).as_deref() != Some(&body[..]) {
        return o.fail("encoder law: outputs + finish do not decode to the concatenation of the writes", "codec-law-encoder");
    }
    // the replica IS the library: chain [decode, append_text "" (identity), encode], outputs compared call by call
    let headers = vec![Header { name: "Content-Encoding".to_string(), value: enc.clone() }];
    let fs = vec![FSpec::Text { action: "append_text".to_string(), content: String::new() }];
    let r = run_chain(&fs, &headers, &chunks);
    if r.kinds != ["decode", "text", "encode"] || r.err_at.is_some() {
        return o.fail("library chain [decode, text, encode] not built or failed", "replica-differs-from-library");
    }
    let mut writes2: Vec<Vec<u8>> = douts.iter().filter(|p| !p.is_empty()).cloned().collect();
    if !dend.is_empty() {
        writes2.push(dend.clone());
    }
    let (e2, e2end) = match encoder_outputs(&enc, &writes2) {
        Some(v) => v,
        None => return o.fail("encoder replica failed", "replica-differs-from-library"),
    };
    let mut k = 0;
    for (i, p) in douts.iter().enumerate() {
        let expect: &[u8] = if p.is_empty() {
            &[]
        } else {
            k += 1;
            &e2[k - 1]
        };
        if r.outs[i] != expect {
            return o.fail(format!("call {i}: the library's output differs from encoder(decoder(chunk)) of the replica"), "replica-differs-from-library");
        }
    }
    let mut expect_end: Vec<u8> = Vec::new();
    if !dend.is_empty() {
        expect_end.extend_from_slice(&e2[k]);
    }
    expect_end.extend_from_slice(&e2end);
    if r.end != expect_end {
        return o.fail("end(): the library's output differs from the replica", "replica-differs-from-library");
    }
    o.tags.push(format!("law:lib-replica-equal:{enc}"));
    o
}

/// diff-directed hints (VERIF_HINTS): sizes -> decompressed body sizes n-1, n, n+1 (one compressed chunk inflating to
/// exactly that much; 3n with producer flushes at n and 2n), strides n of the compressed stream; strings -> header names
/// and values of Content-Encoding / Content-Type (also upper / lower / swapped case), body text and filter values
fn gen_hints(emit: &mut dyn FnMut(Value)) {
    let hs = hints();
    if hs.is_empty() {
        return;
    }
    let h = |a: &str, path: &[&str], v: &str| FSpec::Html { action: a.to_string(), path: path.iter().map(|x| x.to_string()).collect(), sel: None, value: v.to_string() };
    let t = |a: &str, c: &str| FSpec::Text { action: a.to_string(), content: c.to_string() };
    let skeleton = "<html><body><div>";
    let tail = "</div><p>x</p></body></html>";
    for n in hs.sizes(400_000) {
        for (k, enc) in ENCODINGS.iter().enumerate() {
            let textlen = n.saturating_sub(skeleton.len() + tail.len());
            let filler: String = if k == 1 { (0..textlen).map(|i| (b'a' + ((i * 7 + i / 13) % 26) as u8) as char).collect() } else { "a".repeat(textlen) };
            let body = format!("{skeleton}{filler}{tail}");
            let fs = vec![h("append_child", &["html", "body", "div"], "<ins-0>v0</ins-0>"), t("append_text", "\u{a7}T1\u{a7}")];
            let z = compress(enc, 6, 22, &[], body.as_bytes()).unwrap();
            let mut scheds: Vec<Vec<usize>> = vec![vec![], vec![z.len() / 2], (1..=(z.len() - 1) / n.max(1)).map(|i| i * n).take(4000).collect()];
            scheds.push(vec![1, z.len() - 1]);
            emit_case(emit, body.as_bytes(), enc, 6, 22, &[], enc, Some("text/html"), &fs, &scheds, "hint:size");
            let body3 = format!("{skeleton}{}{tail}", filler.repeat(3));
            emit_case(emit, body3.as_bytes(), enc, 6, 22, &[n, 2 * n], enc, None, &fs, &[vec![], vec![7]], "hint:size3");
        }
    }
    let body = "<html><head><title>t</title></head><body><div>Yolo</div></body></html>";
    let swap = |s: &str| -> String { s.chars().map(|c| if c.is_ascii_uppercase() { c.to_ascii_lowercase() } else { c.to_ascii_uppercase() }).collect() };
    for s0 in &hs.strs {
        for s in [s0.clone(), s0.to_uppercase(), s0.to_lowercase(), swap(s0)] {
            let variants: Vec<Vec<(String, String)>> = vec![
                vec![("Content-Encoding".to_string(), s.clone())],
                vec![("Content-Encoding".to_string(), format!("{s}gzip"))],
                vec![("Content-Encoding".to_string(), format!("gzip{s}"))],
                vec![(s.clone(), "gzip".to_string())],
                vec![("Content-Type".to_string(), s.clone()), ("Content-Encoding".to_string(), "gzip".to_string())],
                vec![("Content-Type".to_string(), format!("text/html{s}")), ("Content-Encoding".to_string(), "br".to_string())],
                vec![("Content-Type".to_string(), format!("{s}text/html")), ("Content-Encoding".to_string(), "DEFLATE".to_string())],
                vec![("Content-Encoding".to_string(), "gzip".to_string()), ("Content-Encoding".to_string(), s.clone())],
                vec![("Content-Encoding".to_string(), s.clone()), ("content-encoding".to_string(), "Gzip".to_string())],
            ];
            for headers in variants {
                let eff = effective(&headers, "content-encoding");
                let enc = match &eff {
                    Some(e) if ENCODINGS.contains(&e.as_str()) => e.clone(),
                    _ => "none".to_string(),
                };
                let b = format!("{body}{s}");
                let fs = vec![h("append_child", &["html", "body"], &format!("<ins-0>{s}</ins-0>")), t("append_text", "\u{a7}T1\u{a7}")];
                let z = compress(&enc, 6, 22, &[], b.as_bytes()).unwrap_or_else(|| b.as_bytes().to_vec());
                let scheds: Vec<Vec<usize>> = vec![vec![], (1..z.len()).step_by(9).collect()];
                emit_case_h(emit, b.as_bytes(), &enc, 6, 22, &[], eff.as_deref().unwrap_or(""), None, Some(&headers), &fs, &scheds, "hint:str");
            }
        }
    }
}

fn gen(args: &Args, emit: &mut dyn FnMut(Value)) {
    let mut rng = seeded(args.seed);
    gen_hints(emit);
    gen_fixed(&mut rng, emit);
    gen_gates(emit);
    gen_laws(&mut rng, (args.n / 3).max(60), emit);
    for n in 0..args.n {
        // bodies: valid UTF-8 documents; raw-text / comments are rarer than in C03 (D4 is C03's finding) but present
        let (mut body, shape) = gen_body(&mut rng);
        if rng.chance(1, 3) {
            // make it longer so that the codecs produce several flushes
            let (b2, _) = gen_body(&mut rng);
            body.push_str(&b2);
        }
        if rng.chance(1, 25) {
            body.clear();
        }
        let unsupported = rng.chance(1, 12);
        let enc: String = if unsupported { rng.pick(&["zstd", "identity", "compress", "x-gzip", "gzip, br", "", "gzip "]).to_string() } else { ENCODINGS[n % 3].to_string() };
        let level = if enc == "br" { rng.below(12) as u32 } else { rng.below(10) as u32 };
        let window = rng.range(10, 24) as u32;
        let pflush: Vec<usize> = if rng.chance(1, 3) { (0..rng.range(1, 3)).map(|_| rng.below(body.len() + 1)).collect() } else { vec![] };
        let cenc = if unsupported {
            enc.clone()
        } else {
            match rng.below(6) {
                0 => enc.to_uppercase(),
                _ => enc.clone(),
            }
        };
        let ctype: Option<&str> = *rng.pick(&[None, Some("text/html"), Some("text/html; charset=utf-8"), Some("TEXT/HTML")]);
        let filters = if rng.chance(1, 15) {
            vec![]
        } else if rng.chance(1, 4) {
            let k = rng.range(1, 2);
            (0..k).map(|i| gen_text_filter(&mut rng, i, true)).collect()
        } else {
            let mut f = gen_filters(&mut rng, true, false);
            if f.is_empty() {
                f.push(gen_html_filter(&mut rng, 0, false));
            }
            f
        };
        let z = compress(&enc, level, window, &pflush, body.as_bytes()).unwrap_or_else(|| body.as_bytes().to_vec());
        // schedules: strides (quick: 12 of 1..64), random partitions, single chunk
        let mut scheds: Vec<Vec<usize>> = Vec::new();
        let mut strides: Vec<usize> = vec![1, 2, 3, 5, 10];
        while strides.len() < 10 {
            let s = rng.range(4, 64);
            if !strides.contains(&s) {
                strides.push(s);
            }
        }
        if args.tier == "thorough" && rng.chance(1, 10) {
            strides = (1..=64).collect();
        }
        for s in strides {
            if z.len() > s {
                scheds.push((1..=(z.len() - 1) / s).map(|i| i * s).collect());
            }
        }
        scheds.push(vec![]);
        for _ in 0..2 {
            let k = rng.range(1, 5);
            let mut cuts: Vec<usize> = (0..k).map(|_| rng.below(z.len() + 1)).collect();
            cuts.sort();
            scheds.push(cuts);
        }
        let mut flush: Vec<Value> = Vec::new();
        for cuts in &scheds {
            let chunks = split_at_cuts(&z, cuts);
            match decoder_outputs(&enc, &chunks) {
                Ok((outs, end)) => {
                    let mut all = outs;
                    all.push(end);
                    flush.push(json!(flush_cuts(&all)));
                }
                Err(_) => flush.push(json!(null)),
            }
        }
        emit(json!({
            "body": hex(body.as_bytes()), "enc": enc, "level": level, "window": window, "pflush": pflush, "cenc": cenc, "ctype": ctype,
            "filters": filters.iter().map(|f| f.to_json()).collect::<Vec<_>>(),
            "scheds": scheds_json(&scheds), "flush": flush, "shape": shape,
        }));
    }
}

fn run(case: &Value) -> Obs {
    if case.get("laws").and_then(|v| v.as_bool()) == Some(true) {
        return run_laws(case);
    }
    let body = match parse_body(case) {
        Some(b) => b,
        None => return Obs::invalid("body"),
    };
    if std::str::from_utf8(&body).is_err() {
        return Obs::invalid("body is not valid UTF-8 (error cases of compressed chains are C04's)");
    }
    let fs = match parse_filters(case) {
        Some(f) => f,
        None => return Obs::invalid("filters"),
    };
    let enc = match s(case, "enc") {
        Some(e) => e,
        None => return Obs::invalid("enc"),
    };
    let cenc = s(case, "cenc").unwrap_or_else(|| enc.clone());
    let ctype = s(case, "ctype");
    let level = case.get("level").and_then(|v| v.as_u64()).unwrap_or(6) as u32;
    let window = case.get("window").and_then(|v| v.as_u64()).unwrap_or(22) as u32;
    let pflush: Vec<usize> = case.get("pflush").and_then(|v| v.as_array()).map(|a| a.iter().filter_map(|x| x.as_u64().map(|y| y as usize)).collect()).unwrap_or_default();
    let supported = ENCODINGS.contains(&enc.as_str());
    // explicit header list (gates family) or the two-field form
    let header_list: Vec<(String, String)> = match case.get("headers").and_then(|v| v.as_array()) {
        Some(a) => {
            let mut v = Vec::new();
            for h in a {
                match h.as_array() {
                    Some(p) if p.len() == 2 && p[0].is_string() && p[1].is_string() => v.push((p[0].as_str().unwrap().to_string(), p[1].as_str().unwrap().to_string())),
                    _ => return Obs::invalid("headers"),
                }
            }
            v
        }
        None => {
            let mut v = Vec::new();
            if let Some(c) = &ctype {
                v.push(("Content-Type".to_string(), c.clone()));
            }
            v.push(("Content-Encoding".to_string(), cenc.clone()));
            v
        }
    };
    // the body is compressed with `enc`: it must be what the header list (as the unchanged code reads it) announces
    let eff = effective(&header_list, "content-encoding");
    match &eff {
        Some(e) if ENCODINGS.contains(&e.as_str()) => {
            if *e != enc {
                return Obs::invalid("the effective Content-Encoding does not name enc");
            }
        }
        _ => {
            if supported {
                return Obs::invalid("enc is supported but the headers do not announce it");
            }
        }
    }
    let z = if supported {
        match compress(&enc, level, window, &pflush, &body) {
            Some(z) => z,
            None => return Obs::invalid("compress"),
        }
    } else {
        body.clone()
    };
    let scheds = match parse_scheds(case, z.len()) {
        Some(x) => x,
        None => return Obs::invalid("scheds"),
    };
    let flush_case: Vec<Value> = match case.get("flush").and_then(|v| v.as_array()) {
        Some(a) if a.len() == scheds.len() => a.clone(),
        _ => return Obs::invalid("flush"),
    };
    let headers: Vec<Header> = header_list.iter().map(|(n, v)| Header { name: n.clone(), value: v.clone() }).collect();
    let plain_headers: Vec<Header> = headers.iter().filter(|h| h.name.to_lowercase() != "content-encoding").cloned().collect();
    let probe = run_chain(&fs, &headers, &[]);
    let kinds = probe.kinds.clone();
    let compressed = kinds.first() == Some(&"decode");
    let expect_kinds = expected_kinds(&fs, &header_list);
    let plain: Option<Vec<u8>> = if compressed { Some(run_chain(&fs, &plain_headers, &[body.clone()]).concat()) } else { None };
    let mut sch = Vec::new();
    let mut fail: Option<(String, &'static str)> = None;
    let mut note = |f: (String, &'static str), fail: &mut Option<(String, &'static str)>| {
        // a new class has priority over a known one
        let known = |s: &str| s == "error-inside-compressed-chain";
        match fail {
            None => *fail = Some(f),
            Some((_, s0)) if known(s0) && !known(f.1) => *fail = Some(f),
            _ => {}
        }
    };
    let mut n_flush_cuts = 0usize;
    for (i, cuts) in scheds.iter().enumerate() {
        let chunks = split_at_cuts(&z, cuts);
        // consistency of the "flush" field (the model relies on it)
        if supported {
            let expect = match decoder_outputs(&enc, &chunks) {
                Ok((outs, end)) => {
                    let mut all = outs;
                    all.push(end);
                    json!(flush_cuts(&all))
                }
                Err(_) => json!(null),
            };
            if expect != flush_case[i] {
                return Obs::invalid("flush field inconsistent with the schedule");
            }
        }
        let r = run_chain(&fs, &headers, &chunks);
        let out = r.concat();
        if !compressed {
            if kinds.is_empty() {
                if out == z {
                    sch.push(json!("="));
                } else {
                    sch.push(json!(hex(&out)));
                    note((format!("schedule {i}: chain is empty but the output differs from the input"), "unsupported-not-passthrough"), &mut fail);
                }
            } else {
                // no Content-Encoding header: a plain chain on the raw body; "=" = the single-chunk output (C03)
                let one = run_chain(&fs, &headers, &[z.clone()]).concat();
                if out == one {
                    sch.push(json!("="));
                } else {
                    sch.push(json!(hex(&out)));
                    let class = classify_schedule(&fs, &plain_headers, &chunks).unwrap_or("safe-cuts");
                    note((format!("schedule {i}: plain chain differs from its single-chunk run (context of the cuts: {class})"), "chunk-variance"), &mut fail);
                }
            }
            continue;
        }
        if r.err_at.is_some() {
            sch.push(json!("error"));
            note((format!("schedule {i}: chain entered its error state"), "error-inside-compressed-chain"), &mut fail);
            continue;
        }
        match decode_independent(&enc, &out) {
            None => {
                sch.push(json!("invalid"));
                note((format!("schedule {i}: output is not a complete valid {enc} stream"), "output-stream-invalid"), &mut fail);
            }
            Some(dec) => {
                if Some(&dec) == plain.as_ref() {
                    sch.push(json!("="));
                } else {
                    sch.push(json!(hex(&dec)));
                    // is the difference inherited from C03 (chunk-variance of the inner chain at the flush points)?
                    let (outs, end) = decoder_outputs(&enc, &chunks).unwrap_or_default();
                    let mut inner_chunks: Vec<Vec<u8>> = outs.into_iter().filter(|c| !c.is_empty()).collect();
                    if !end.is_empty() {
                        inner_chunks.push(end);
                    }
                    n_flush_cuts += inner_chunks.len();
                    let glue = if inner_chunks.is_empty() { run_chain(&fs, &plain_headers, &[]) } else { run_chain(&fs, &plain_headers, &inner_chunks) };
                    if glue.concat() == dec {
                        // the glue is right: the inner chain is not chunk-invariant at the decoder's flush points (C03)
                        let class = classify_schedule(&fs, &plain_headers, &inner_chunks).unwrap_or("safe-cuts");
                        note((format!("schedule {i}: decode(out) differs from filter_plain(b); same as the plain chain on the decoder's chunks (context of the flush points: {class})"), "chunk-variance"), &mut fail);
                    } else {
                        note((format!("schedule {i}: decode(out) differs from the plain chain run on the decoder's chunks"), "compressed-glue-differs"), &mut fail);
                    }
                }
            }
        }
    }
    let _ = n_flush_cuts;
    if kinds != expect_kinds {
        note((format!("chain stages {:?} but the gates (last header wins, names and values lower-cased, text/html needle) call for {:?}", kinds, expect_kinds), "gate-mismatch"), &mut fail);
    }
    let mut o = Obs::new(json!({"kinds": kinds, "plain": plain.as_ref().map(|p| hex(p)), "sch": sch})).trivial(!compressed || body.is_empty());
    o.tags.push(format!("enc:{}", if supported { enc.as_str() } else { "unsupported" }));
    o.tags.push(format!("chain:{}", kinds.join("+")));
    if let Some(p) = &plain {
        if *p != body {
            o.tags.push("acted".to_string());
        }
    }
    if let Some(shape) = case.get("shape").and_then(|s| s.as_str()) {
        if shape == "large" || shape == "end-paths" || shape == "gates" {
            o.tags.push(format!("shape:{shape}"));
        }
    }
    if body.len() > 64 * 1024 {
        o.tags.push("body>64KiB".to_string());
    }
    if !pflush.is_empty() {
        o.tags.push("producer-flush".to_string());
    }
    // how many distinct flush cuts the decoder produced over the schedules (coverage of the streaming behaviour)
    let mut multi = false;
    for f in &flush_case {
        if let Some(a) = f.as_array() {
            let mut d: Vec<u64> = a.iter().filter_map(|x| x.as_u64()).filter(|x| *x > 0 && (*x as usize) < body.len()).collect();
            d.dedup();
            if !d.is_empty() {
                multi = true;
            }
        }
    }
    if multi {
        o.tags.push("decoder-streams".to_string());
    }
    if let Some((why, sig)) = fail {
        o.tags.push(format!("fail:{sig}"));
        return o.fail(why, sig);
    }
    o
}

fn main() {
    main_with(gen, run);
}
