//! C05 — the computed action reflects exactly the matched rules: implementation side.
//!
//! case: {"rules":[R…], "ov":bool|null, "skipped":str|null, "codes":[u16…], "ops":[{"op":"status"|"headers"|"body"|"log"}|{"op":"final","fb":u16}…],
//!        "headers":[[name,value]…], "body":str, "allow_log":bool, "ct":str|null, "via":"direct"|"router"}
//!   R = {"id","rank","status_code","target","codes","excl","sampling","hf":[{"action","header","value","id","target_hash"}],
//!        "bf":[{"kind":"text","action","content","id","target_hash"} | {"kind":"html","action","value","inner_value","element_tree","css_selector","id","target_hash"}],
//!        "log","reset","stop","ru","lu","th","ips":[cidr…]}   (every key but id/rank optional; missing = null)
//!   optional "ip": client address of the request (router mode; with "ips" it replays defect D1: a rule matched
//!   through two of its ip ranges must reach the action once — oracle `dup-match`)
//! obs:  {"action": serde_json(Action::from_routes_rule), "codes":[{"c":code,"ops":[{"op","r","ids"}…]}…],
//!        "trace": null | [{"id": rule id, "action": cumulative action}…]}   ("router" mode with pairwise distinct ranks:
//!        TraceAction::from_trace_rules(router.trace_request(q), q), C17 clause 3)
//!   per response code the observers run in the given sequence on a fresh clone of the action;
//!   "ids" = get_applied_rule_ids() after the call, in LinkedHashSet order.
//! The rules are real `api::Rule`s (serde), turned into routes by `IntoRoute` ("direct": the match vector is
//! the case order) or inserted into a real `Router` in case order and matched ("router").
#![allow(dead_code)]
use redirectionio::action::{Action, TraceAction, UnitTrace};
use redirectionio::api::Rule;
use redirectionio::http::{Header, PathAndQueryWithSkipped, Request};
use redirectionio::router::{IntoRoute, Route, Router};
use redirectionio::RouterConfig;
use rio_harness::*;
use serde_json::{json, Map, Value};
use std::sync::Arc;

pub const IDS: &[&str] = &["a", "b", "ab", "a0", "B", "Z", "z", "é", "~", "aa", "ba", "0"];
pub const RANKS: &[u64] = &[0, 1, 1, 2, 2, 2, 3, 65535];
pub const STATUS: &[u64] = &[301, 302, 404, 410, 200];
pub const RESPONSE_CODES: &[u64] = &[0, 200, 301, 302, 404, 410, 500];
pub const CODE_LISTS: &[&[u64]] = &[&[], &[404], &[301, 404], &[200], &[0], &[404, 404], &[410, 500], &[200, 301, 302, 404, 410, 500]];

fn opt<T: Into<Value>>(rng: &mut Prng, num: usize, den: usize, v: T) -> Value {
    if rng.chance(num, den) {
        v.into()
    } else {
        Value::Null
    }
}

fn opt_bool(rng: &mut Prng, p_some: (usize, usize), p_true: (usize, usize)) -> Value {
    if rng.chance(p_some.0, p_some.1) {
        Value::Bool(rng.chance(p_true.0, p_true.1))
    } else {
        Value::Null
    }
}

/// One abstract rule.  `ri` makes filter values unique so that order and attribution are observable.
pub fn gen_rule(rng: &mut Prng, id: &str, ri: usize, ov_set: bool, allow_html: bool) -> Value {
    let mut r = Map::new();
    r.insert("id".into(), json!(id));
    r.insert("rank".into(), json!(*rng.pick(RANKS)));
    // status code: none / Some(0) / from the pool
    let sc = match rng.below(10) {
        0..=3 => Value::Null,
        4 => json!(0),
        _ => json!(*rng.pick(STATUS)),
    };
    r.insert("status_code".into(), sc);
    let target = match rng.below(8) {
        0..=3 => Value::Null,
        4 => json!(""),
        5 => json!(format!("/t{ri}?x=1")),
        _ => json!(format!("/t{ri}")),
    };
    r.insert("target".into(), target);
    // response status condition
    let codes = match rng.below(10) {
        0..=3 => Value::Null,
        _ => json!(rng.pick(CODE_LISTS).to_vec()),
    };
    r.insert("codes".into(), codes);
    r.insert("excl".into(), opt_bool(rng, (1, 3), (2, 3)));
    // sampling: only rates whose outcome does not depend on the draw (any rate once the override is set)
    let sampling = if rng.chance(1, 3) {
        if ov_set {
            json!(*rng.pick(&[0u64, 1, 50, 99, 100, 101, 4294967295]))
        } else {
            json!(*rng.pick(&[0u64, 100, 100, 101, 4294967295]))
        }
    } else {
        Value::Null
    };
    r.insert("sampling".into(), sampling);
    // header filters
    let hf = match rng.below(6) {
        0 | 1 => Value::Null,
        2 => json!([]),
        _ => {
            let n = rng.range(1, 3);
            let v: Vec<Value> = (0..n)
                .map(|hi| {
                    json!({
                        "action": *rng.pick(&["add", "add", "add", "override", "remove", "replace", "default", "nope"]),
                        "header": *rng.pick(&["X-A", "x-a", "X-B", "Location", "X-C"]),
                        "value": format!("r{ri}h{hi}"),
                        "id": opt(rng, 1, 2, format!("hu{ri}{hi}")),
                        "target_hash": opt(rng, 1, 3, format!("ht{ri}{hi}")),
                    })
                })
                .collect();
            Value::Array(v)
        }
    };
    r.insert("hf".into(), hf);
    let bf = match rng.below(6) {
        0 | 1 => Value::Null,
        2 => json!([]),
        _ => {
            let n = rng.range(1, 3);
            let v: Vec<Value> = (0..n)
                .map(|bi| {
                    if allow_html && rng.chance(1, 4) {
                        json!({
                            "kind": "html",
                            "action": *rng.pick(&["append_child", "prepend_child", "replace"]),
                            "value": format!("<i>r{ri}b{bi}</i>"),
                            "inner_value": opt(rng, 1, 2, format!("r{ri}i{bi}")),
                            "element_tree": ["html", "body"],
                            "css_selector": opt(rng, 1, 3, "p"),
                            "id": opt(rng, 1, 2, format!("bu{ri}{bi}")),
                            "target_hash": opt(rng, 1, 3, format!("bt{ri}{bi}")),
                        })
                    } else {
                        json!({
                            "kind": "text",
                            "action": *rng.pick(&["append_text", "append_text", "prepend_text", "prepend_text", "replace_text"]),
                            "content": if rng.chance(1, 12) { String::new() } else { format!("[r{ri}b{bi}]") },
                            "id": opt(rng, 1, 2, format!("bu{ri}{bi}")),
                            "target_hash": opt(rng, 1, 3, format!("bt{ri}{bi}")),
                        })
                    }
                })
                .collect();
            Value::Array(v)
        }
    };
    r.insert("bf".into(), bf);
    r.insert("log".into(), opt_bool(rng, (2, 5), (1, 2)));
    r.insert("reset".into(), opt_bool(rng, (1, 5), (1, 2)));
    r.insert("stop".into(), opt_bool(rng, (1, 5), (1, 2)));
    r.insert("ru".into(), opt(rng, 1, 2, format!("ru{ri}")));
    r.insert("lu".into(), opt(rng, 1, 2, format!("lu{ri}")));
    r.insert("th".into(), opt(rng, 1, 3, format!("th{ri}")));
    Value::Object(r)
}

pub fn distinct_ids(rng: &mut Prng, n: usize) -> Vec<String> {
    let mut pool: Vec<&str> = IDS.to_vec();
    let mut out = Vec::new();
    for _ in 0..n {
        let i = rng.below(pool.len());
        out.push(pool.remove(i).to_string());
    }
    out
}

fn gen_case(rng: &mut Prng) -> Value {
    let n = match rng.below(10) {
        0 => 1,
        1 | 2 => 2,
        3 | 4 => 3,
        5 | 6 => 4,
        7 => 5,
        8 => 6,
        _ => rng.range(7, 8),
    };
    let ov = opt_bool(rng, (1, 2), (1, 2));
    let allow_html = rng.chance(1, 3);
    let via = if rng.chance(1, 3) { "router" } else { "direct" };
    let mut ids = distinct_ids(rng, n);
    // direct mode only: now and then the same rule id twice in the match vector (what D1 produced)
    if via == "direct" && n >= 2 && rng.chance(1, 25) {
        ids[n - 1] = ids[0].clone();
    }
    let mut rules: Vec<Value> = ids.iter().enumerate().map(|(ri, id)| gen_rule(rng, id, ri, !ov.is_null(), allow_html)).collect();
    if via == "router" && rng.chance(1, 2) {
        // tie-free ranks (a random permutation of 0..n, sometimes shifted to the top of the range): the action trace is observed
        let mut perm: Vec<u64> = (0..n as u64).collect();
        for i in (1..n).rev() {
            perm.swap(i, rng.below(i + 1));
        }
        let shift = if rng.chance(1, 4) { 65535 - n as u64 + 1 } else { 0 };
        for (r, k) in rules.iter_mut().zip(perm) {
            r["rank"] = json!(k + shift);
        }
    }
    let ops: Vec<Value> = if rng.chance(1, 2) {
        vec![json!({"op":"status"}), json!({"op":"headers"}), json!({"op":"body"}), json!({"op":"log"})]
    } else {
        (0..rng.range(1, 6))
            .map(|_| match rng.below(5) {
                0 => json!({"op":"status"}),
                1 => json!({"op":"headers"}),
                2 => json!({"op":"body"}),
                3 => json!({"op":"log"}),
                _ => json!({"op":"final","fb": *rng.pick(RESPONSE_CODES)}),
            })
            .collect()
    };
    let mut headers = Vec::new();
    for (name, value) in [("Location", "/old"), ("X-A", "0"), ("x-b", "1"), ("Keep", "k")] {
        if rng.chance(1, 2) {
            headers.push(json!([name, value]));
        }
    }
    json!({
        "rules": rules,
        "ov": ov,
        "skipped": opt(rng, 1, 6, "utm=1"),
        "codes": RESPONSE_CODES,
        "ops": ops,
        "headers": headers,
        "body": if rng.chance(1, 10) { "" } else { "probe" },
        "allow_log": rng.chance(1, 2),
        "ct": if allow_html || rng.chance(1, 2) { json!("text/plain") } else { Value::Null },
        "via": via,
    })
}

/// thorough: every sequence of <= 3 effects from a 24-effect pool; ids are assigned by position so that
/// the sequence IS the application order (same rank, ids descending), the match vector is given reversed.
fn exhaustive_pool() -> Vec<Value> {
    let mut pool = Vec::new();
    let mut i = 0;
    let conds: [(Value, Value); 3] = [(Value::Null, Value::Null), (json!([404]), Value::Null), (json!([404]), json!(true))];
    for (codes, excl) in conds.iter() {
        for sc in [Value::Null, json!(301 + i as u64 % 2)] {
            for flags in 0..4 {
                let (reset, stop) = (flags & 1 == 1, flags & 2 == 2);
                pool.push(json!({
                    "status_code": sc.clone(), "codes": codes.clone(), "excl": excl.clone(),
                    "hf": [{"action":"add","header":"X-P","value":format!("p{i}")}],
                    "bf": [{"kind":"text","action":"append_text","content":format!("[p{i}]")}],
                    "log": if i % 3 == 0 { json!(i % 2 == 0) } else { Value::Null },
                    "reset": reset, "stop": stop,
                }));
                i += 1;
            }
        }
    }
    pool
}

pub fn gen(args: &Args, emit: &mut dyn FnMut(Value)) {
    let mut rng = Prng::new(args.seed);
    if args.tier == "thorough" {
        let pool = exhaustive_pool();
        let n = pool.len();
        let mk = |seq: &[usize]| {
            let ids = ["c", "b", "a"];
            let mut rules: Vec<Value> = seq
                .iter()
                .enumerate()
                .map(|(pos, &e)| {
                    let mut r = pool[e].as_object().unwrap().clone();
                    r.insert("id".into(), json!(ids[pos]));
                    r.insert("rank".into(), json!(1));
                    Value::Object(r)
                })
                .collect();
            rules.reverse();
            json!({"rules": rules, "ov": null, "skipped": null, "codes": [0, 404, 200],
                   "ops": [{"op":"status"},{"op":"headers"},{"op":"body"},{"op":"log"}],
                   "headers": [], "body": "probe", "allow_log": true, "ct": null, "via": "direct", "exh": true})
        };
        for a in 0..n {
            emit(mk(&[a]));
            for b in 0..n {
                emit(mk(&[a, b]));
                for c in 0..n {
                    emit(mk(&[a, b, c]));
                }
            }
        }
    }
    for _ in 0..args.n {
        emit(gen_case(&mut rng));
    }
}

fn get<'a>(v: &'a Value, k: &str) -> &'a Value {
    v.get(k).unwrap_or(&Value::Null)
}

/// The `api::Rule` JSON of an abstract rule (trivially matching source `/x`).
pub fn rule_json(r: &Value) -> Result<Value, String> {
    let id = r.get("id").and_then(|x| x.as_str()).ok_or("rule id")?;
    let rank = r.get("rank").and_then(|x| x.as_u64()).ok_or("rule rank")?;
    let bf = match get(r, "bf") {
        Value::Null => Value::Null,
        Value::Array(a) => {
            let mut out = Vec::new();
            for f in a {
                match f.get("kind").and_then(|k| k.as_str()) {
                    Some("text") => out.push(json!({"action": get(f, "action"), "content": get(f, "content"), "id": get(f, "id"), "target_hash": get(f, "target_hash")})),
                    Some("html") => out.push(json!({"action": get(f, "action"), "value": get(f, "value"), "inner_value": get(f, "inner_value"),
                        "element_tree": get(f, "element_tree"), "css_selector": get(f, "css_selector"), "id": get(f, "id"), "target_hash": get(f, "target_hash")})),
                    _ => return Err("body filter kind".into()),
                }
            }
            Value::Array(out)
        }
        _ => return Err("bf".into()),
    };
    let hf = match get(r, "hf") {
        Value::Null => Value::Null,
        Value::Array(a) => Value::Array(
            a.iter()
                .map(|f| json!({"action": get(f, "action"), "header": get(f, "header"), "value": get(f, "value"), "id": get(f, "id"), "target_hash": get(f, "target_hash")}))
                .collect(),
        ),
        _ => return Err("hf".into()),
    };
    Ok(json!({
        "id": id,
        "rank": rank,
        "source": {"path": "/x", "response_status_codes": get(r, "codes"), "exclude_response_status_codes": get(r, "excl"), "sampling": get(r, "sampling"),
                   "ips": match get(r, "ips") { Value::Array(a) => Value::Array(a.iter().map(|x| json!({"in_range": x})).collect()), _ => Value::Null }},
        "target": get(r, "target"),
        "status_code": get(r, "status_code"),
        "header_filters": hf,
        "body_filters": bf,
        "log_override": get(r, "log"),
        "reset": get(r, "reset"),
        "stop": get(r, "stop"),
        "redirect_unit_id": get(r, "ru"),
        "configuration_log_unit_id": get(r, "lu"),
        "target_hash": get(r, "th"),
    }))
}

pub fn build_rules(case: &Value) -> Result<Vec<Rule>, String> {
    let arr = case.get("rules").and_then(|r| r.as_array()).ok_or("rules")?;
    let mut rules = Vec::new();
    for r in arr {
        let j = rule_json(r)?;
        // an HTML filter JSON that also parses as a text filter (untagged enum) would change kind: reject
        if let Some(bfs) = get(r, "bf").as_array() {
            for f in bfs {
                let kind = f.get("kind").and_then(|k| k.as_str());
                let text_action = matches!(get(f, "action").as_str(), Some("append_text" | "prepend_text" | "replace_text"));
                if kind == Some("html") && text_action {
                    return Err("html filter with a text action name".into());
                }
                if kind == Some("text") && !text_action {
                    return Err("text filter with an unknown action".into());
                }
            }
        }
        let rule: Rule = serde_json::from_value(j).map_err(|e| format!("rule json: {e}"))?;
        rules.push(rule);
    }
    Ok(rules)
}

/// The outcome of the sampling test must not depend on the random draw.
pub fn deterministic(case: &Value, rules: &[Rule]) -> bool {
    let ov = get(case, "ov").as_bool();
    ov.is_some() || rules.iter().all(|r| match r.source.sampling { None => true, Some(s) => s == 0 || s >= 100 })
}

pub fn request(case: &Value, config: Option<&RouterConfig>) -> Result<Request, String> {
    let ov = match get(case, "ov") {
        Value::Null => None,
        Value::Bool(b) => Some(*b),
        _ => return Err("ov".into()),
    };
    let mut request = match config {
        None => Request::new(PathAndQueryWithSkipped::from_static("/x"), "/x".to_string(), None, None, None, None, ov),
        Some(c) => Request::from_config(c, "/x".to_string(), None, None, None, None, ov),
    };
    match get(case, "skipped") {
        Value::Null => {}
        Value::String(s) => request.path_and_query_skipped.skipped_query_params = Some(s.clone()),
        _ => return Err("skipped".into()),
    }
    match get(case, "ip") {
        Value::Null => {}
        Value::String(s) => request.remote_addr = Some(s.parse().map_err(|_| "ip".to_string())?),
        _ => return Err("ip".into()),
    }
    Ok(request)
}

/// Routes of the match vector, in case order ("direct") or as the real router returns them ("router").
pub fn routes_of(case: &Value, rules: Vec<Rule>) -> Result<(Vec<Arc<Route<Rule>>>, Request), String> {
    routes_and_router(case, rules).map(|(routes, request, _)| (routes, request))
}

/// Same, and the router itself in "router" mode (for the action trace).
pub fn routes_and_router(case: &Value, rules: Vec<Rule>) -> Result<(Vec<Arc<Route<Rule>>>, Request, Option<Router<Rule>>), String> {
    let via = s(case, "via").unwrap_or_else(|| "direct".to_string());
    let config = RouterConfig::default();
    match via.as_str() {
        "direct" => {
            let request = request(case, None)?;
            Ok((rules.into_iter().map(|r| Arc::new(r.into_route(&config))).collect(), request, None))
        }
        "router" => {
            let mut ids: Vec<&str> = rules.iter().map(|r| r.id.as_str()).collect();
            ids.sort();
            ids.dedup();
            if ids.len() != rules.len() {
                return Err("router mode needs distinct ids".into());
            }
            let n = rules.len();
            let mut router = Router::<Rule>::from_config(config.clone());
            for r in rules {
                router.insert(r);
            }
            let request = request(case, Some(&config))?;
            let routes = router.match_request(&request);
            if routes.len() < n {
                return Err(format!("router matched {} of {} rules (the case is about matched rules only)", routes.len(), n));
            }
            Ok((routes, request, Some(router)))
        }
        _ => Err("via".into()),
    }
}

fn u16_of(v: &Value) -> Option<u16> {
    v.as_u64().and_then(|x| u16::try_from(x).ok())
}

fn run(case: &Value) -> Obs {
    let rules = match build_rules(case) {
        Ok(r) => r,
        Err(e) => return Obs::invalid(&e),
    };
    if !deterministic(case, &rules) {
        return Obs::invalid("outcome depends on the sampling draw");
    }
    let has_html = rules.iter().any(|r| r.body_filters.as_ref().map_or(false, |b| b.iter().any(|f| matches!(f, redirectionio::api::BodyFilter::HTML(_)))));
    let ct = match get(case, "ct") {
        Value::Null => None,
        Value::String(s) => Some(s.clone()),
        _ => return Obs::invalid("ct"),
    };
    if let Some(ct) = &ct {
        if ct.to_lowercase().contains("text/html") {
            return Obs::invalid("ct must not be html");
        }
    }
    if has_html && ct.is_none() {
        return Obs::invalid("html body filters need a non-html content type in this probe");
    }
    let mut headers: Vec<Header> = Vec::new();
    match case.get("headers").and_then(|h| h.as_array()) {
        Some(a) => {
            for h in a {
                match h.as_array().map(|p| p.as_slice()) {
                    Some([Value::String(n), Value::String(v)]) => {
                        let l = n.to_lowercase();
                        if l == "content-type" || l == "content-encoding" {
                            return Obs::invalid("reserved header name");
                        }
                        // keep header names where ASCII lower-casing (model) = Unicode lower-casing (code)
                        if !n.is_ascii() {
                            return Obs::invalid("non-ascii header name");
                        }
                        headers.push(Header { name: n.clone(), value: v.clone() })
                    }
                    _ => return Obs::invalid("header pair"),
                }
            }
        }
        None => return Obs::invalid("headers"),
    }
    for r in &rules {
        if let Some(hf) = &r.header_filters {
            if hf.iter().any(|f| !f.header.is_ascii()) {
                return Obs::invalid("non-ascii filter header name");
            }
        }
    }
    let body = match s(case, "body") {
        Some(b) => b,
        None => return Obs::invalid("body"),
    };
    let allow_log = match get(case, "allow_log") {
        Value::Bool(b) => *b,
        _ => return Obs::invalid("allow_log"),
    };
    let codes: Vec<u16> = match case.get("codes").and_then(|c| c.as_array()) {
        Some(a) => {
            let mut v = Vec::new();
            for c in a {
                match u16_of(c) {
                    Some(c) => v.push(c),
                    None => return Obs::invalid("code"),
                }
            }
            v
        }
        None => return Obs::invalid("codes"),
    };
    enum Op {
        Status,
        Headers,
        Body,
        Log,
        Final(u16),
    }
    let ops: Vec<Op> = match case.get("ops").and_then(|c| c.as_array()) {
        Some(a) => {
            let mut v = Vec::new();
            for o in a {
                v.push(match o.get("op").and_then(|x| x.as_str()) {
                    Some("status") => Op::Status,
                    Some("headers") => Op::Headers,
                    Some("body") => Op::Body,
                    Some("log") => Op::Log,
                    Some("final") => match o.get("fb").and_then(u16_of) {
                        Some(fb) => Op::Final(fb),
                        None => return Obs::invalid("fb"),
                    },
                    _ => return Obs::invalid("op"),
                });
            }
            v
        }
        None => return Obs::invalid("ops"),
    };
    let n_rules = rules.len();
    let flags: Vec<String> = {
        let mut t = Vec::new();
        if rules.iter().any(|r| r.stop == Some(true)) {
            t.push("stop".to_string());
        }
        if rules.iter().any(|r| r.reset == Some(true)) {
            t.push("reset".to_string());
        }
        if rules.iter().any(|r| r.source.sampling.is_some()) {
            t.push("sampling".to_string());
        }
        if rules.iter().any(|r| r.source.exclude_response_status_codes.is_some()) {
            t.push("exclude".to_string());
        }
        let mut ranks: Vec<u16> = rules.iter().map(|r| r.rank).collect();
        ranks.sort();
        ranks.dedup();
        if ranks.len() < n_rules {
            t.push("rank-tie".to_string());
        }
        let mut ids: Vec<&str> = rules.iter().map(|r| r.id.as_str()).collect();
        ids.sort();
        ids.dedup();
        if ids.len() < n_rules {
            t.push("dup-ids".to_string());
        }
        t
    };
    let distinct_ranks = {
        let mut ranks: Vec<u16> = rules.iter().map(|r| r.rank).collect();
        ranks.sort();
        ranks.dedup();
        ranks.len() == n_rules
    };
    let (routes, request, router) = match routes_and_router(case, rules) {
        Ok(x) => x,
        Err(e) => return Obs::invalid(&e),
    };
    // the action trace (explain): TraceAction::from_trace_rules on the real traces of the router.  Observed when
    // the ranks are pairwise distinct (otherwise its order among ties is the traversal order of the trace).
    let trace_obs = match (&router, distinct_ranks) {
        (Some(router), true) => {
            let traces = router.trace_request(&request);
            let steps = TraceAction::from_trace_rules(&traces, &request);
            let v = serde_json::to_value(&steps).unwrap();
            Value::Array(v.as_array().unwrap().iter().map(|t| json!({"id": t["rule"]["id"], "action": t["action"]})).collect())
        }
        _ => Value::Null,
    };
    let dup_match = {
        let mut ids: Vec<&str> = routes.iter().map(|r| r.id()).collect();
        ids.sort();
        let k = ids.len();
        ids.dedup();
        ids.len() < k && !flags.iter().any(|f| f == "dup-ids")
    };
    let action = Action::from_routes_rule(routes, &request, None);
    let action_json = serde_json::to_value(&action).unwrap();
    let mut resp_headers = headers.clone();
    if let Some(ct) = &ct {
        resp_headers.push(Header { name: "Content-Type".to_string(), value: ct.clone() });
    }
    let mut per_code = Vec::new();
    for &c in &codes {
        let mut a = action.clone();
        let mut out = Vec::new();
        for op in &ops {
            let (name, r): (&str, Value) = match op {
                Op::Status => ("status", json!(a.get_status_code(c, None))),
                Op::Headers => {
                    let hs = a.filter_headers(headers.clone(), c, true, None);
                    ("headers", Value::Array(hs.iter().map(|h| json!([h.name, h.value])).collect()))
                }
                Op::Body => match a.create_filter_body(c, &resp_headers) {
                    None => ("body", Value::Null),
                    Some(mut fb) => {
                        let kinds = fb.verif_chain_kinds();
                        let mut o = fb.filter(body.clone().into_bytes(), None);
                        o.extend(fb.end(None));
                        ("body", json!({"kinds": kinds, "out": String::from_utf8_lossy(&o).to_string()}))
                    }
                },
                Op::Log => ("log", json!(a.should_log_request(allow_log, c, None))),
                Op::Final(fb) => {
                    let mut trace = UnitTrace::default();
                    let (s1, s2) = a.get_final_status_code_with_fallback(c, *fb, &mut trace);
                    ("final", json!([s1, s2]))
                }
            };
            let ids: Vec<String> = a.get_applied_rule_ids().iter().cloned().collect();
            out.push(json!({"op": name, "r": r, "ids": ids}));
        }
        per_code.push(json!({"c": c, "ops": out}));
    }
    let traced = !trace_obs.is_null();
    let mut o = Obs::new(json!({"action": action_json, "codes": per_code, "trace": trace_obs})).trivial(n_rules < 2);
    if traced {
        o.tags.push("action-trace".to_string());
    }
    o.tags.push(format!("rules:{n_rules}"));
    o.tags.push(format!("via:{}", s(case, "via").unwrap_or_else(|| "direct".to_string())));
    o.tags.extend(flags);
    if dup_match {
        return o.fail("the router returned a matched rule more than once: its effects are applied twice", "dup-match");
    }
    o
}

fn main() {
    main_with(gen, run);
}
